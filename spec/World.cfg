SPECIFICATION Spec
CONSTANTS
  MaxH = 3
  MaxDA = 5
  Kinds = {"a"}
INVARIANTS FullFollows WatermarkSound InclusionSound HeadersInOrderOnDA
CHECK_DEADLOCK FALSE
