---------------------------- MODULE BlockStore ----------------------------
(***************************************************************************)
(* Tier I reference model of the block store (pkg/store/store.go): a       *)
(* height-indexed map of blocks with a hash index, a signature per height, *)
(* a monotone height register, a state register and a metadata map.        *)
(* A block save is ONE atomic write of header, data, signature and index.  *)
(* Blocks are identified abstractly by <<height, variant>>; the header     *)
(* hash of a block is that pair.                                           *)
(*                                                                         *)
(* A save that replaces a block of another hash removes the old hash's     *)
(* index entry; AtomicSave says whether that removal is part of the same   *)
(* atomic write (pinned tree: yes) or a separate earlier write (a seeded   *)
(* change): then a crash between the two leaves the old block without its  *)
(* index entry.                                                            *)
(*                                                                         *)
(* Deviation of the pinned tree kept as a switch:                          *)
(*   DropStaleIndex = FALSE  overwriting a height with a different block   *)
(*                    leaves the old hash's index entry pointing at the    *)
(*                    height (GetBlockByHash(old hash) returns the new     *)
(*                    block)                                               *)
(***************************************************************************)
EXTENDS Integers, Sequences, FiniteSets, TLC

CONSTANTS Heights, Variants, MetaKeys, Values, DropStaleIndex,
          AtomicSave,     \* TRUE: a block save is one atomic write
          CommitOnError   \* deviation (seeded C14g): a save that fails on one operation of its batch still commits the operations queued before it

VARIABLES pend,     \* a save whose first write (stale index removal) is done and whose batch is not: <<h, v>> or <<>>
          blocks,   \* height -> variant (partial function)
          index,    \* set of <<height, variant>> hashes that have an index entry
          height, state, meta, ops

svars == <<blocks, index, height, state, meta>>
vars == <<blocks, index, height, state, meta, ops, pend>>
NoVal == "none"

SInit == /\ blocks = <<>> /\ index = {} /\ height = 0 /\ state = NoVal /\ meta = <<>>

Has(h) == h \in DOMAIN blocks
\* what the operations return / do ------------------------------------------------------
SaveEff(h, v) ==
    /\ blocks' = (h :> v) @@ blocks
    /\ index' = IF DropStaleIndex /\ Has(h) /\ blocks[h] # v THEN (index \ {<<h, blocks[h]>>}) \cup {<<h, v>>}
                ELSE index \cup {<<h, v>>}
    /\ UNCHANGED <<height, state, meta>>
SetHeightEff(n) == /\ height' = (IF n > height THEN n ELSE height) /\ UNCHANGED <<blocks, index, state, meta>>
UpdateStateEff(s) == /\ state' = s /\ UNCHANGED <<blocks, index, height, meta>>
SetMetaEff(k, x) == /\ meta' = (k :> x) @@ meta /\ UNCHANGED <<blocks, index, height, state>>

\* result of a lookup by height: <<found, variant>>
ByHeight(h) == IF Has(h) THEN <<TRUE, blocks[h]>> ELSE <<FALSE, NoVal>>
\* lookup by hash <<h, v>>: the index entry leads to the height, whose current block is returned
ByHash(h, v) == IF <<h, v>> \in index /\ Has(h) THEN <<TRUE, blocks[h]>> ELSE <<FALSE, NoVal>>
GetMeta(k) == IF k \in DOMAIN meta THEN <<TRUE, meta[k]>> ELSE <<FALSE, NoVal>>

Init == SInit /\ ops = 0 /\ pend = <<>>
\* a non-atomic save of a different block over an existing one: first write = removal of the stale index entry
SaveFirstWrite(h, v) ==
    /\ ~AtomicSave /\ pend = <<>> /\ Has(h) /\ blocks[h] # v
    /\ index' = index \ {<<h, blocks[h]>>} /\ pend' = <<h, v>>
    /\ UNCHANGED <<blocks, height, state, meta>>
SaveSecondWrite == /\ pend # <<>> /\ pend' = <<>>
                   /\ LET h == pend[1] v == pend[2] IN SaveEff(h, v)
\* a crash loses the save in flight; everything written before stays
Crash == /\ pend # <<>> /\ pend' = <<>> /\ UNCHANGED <<blocks, index, height, state, meta>>
\* a save is a single write unless it is non-atomic and replaces a block of another hash
OneWrite(h, v) == IF AtomicSave THEN TRUE ELSE IF ~Has(h) THEN TRUE ELSE blocks[h] = v
\* a block save one of whose batch operations is refused (here: the hash index entry, the last one queued) returns an
\* error; all or nothing: nothing
SaveRefused(h, v) ==
    IF CommitOnError THEN blocks' = (h :> v) @@ blocks /\ UNCHANGED <<index, height, state, meta>>
                     ELSE UNCHANGED <<blocks, index, height, state, meta>>
AtomicOp ==
    /\ pend = <<>> /\ pend' = pend
    /\ \/ \E h \in Heights, v \in Variants : OneWrite(h, v) /\ SaveEff(h, v)
       \/ \E h \in Heights, v \in Variants : SaveRefused(h, v)
       \/ \E n \in Heights \cup {0} : SetHeightEff(n)
       \/ \E s \in Values : UpdateStateEff(s)
       \/ \E k \in MetaKeys, x \in Values : SetMetaEff(k, x)
Next == /\ ops < 5 /\ ops' = ops + 1
        /\ (AtomicOp \/ (\E h \in Heights, v \in Variants : SaveFirstWrite(h, v)) \/ SaveSecondWrite \/ Crash)
Spec == Init /\ [][Next]_vars

\* C14
HeightOnlyGrows == [][height' >= height]_vars
\* a lookup by hash returns the block with that hash or nothing (holds only with DropStaleIndex)
HashLookupExact == \A h \in Heights, v \in Variants : ByHash(h, v)[1] => ByHash(h, v)[2] = v
\* at rest (no save in flight): every stored block is retrievable by height and by its hash - all or nothing
SavedRetrievable == pend = <<>> => \A h \in DOMAIN blocks : ByHeight(h) = <<TRUE, blocks[h]>> /\ ByHash(h, blocks[h]) = <<TRUE, blocks[h]>>
=============================================================================
