---------------------------- MODULE World ----------------------------
(***************************************************************************)
(* Tier I end-to-end composition: one sequencer node (production, header   *)
(* and data submission with partial acceptance and lost acknowledgements,  *)
(* DA inclusion), the DA layer (heights holding blobs), and one full node  *)
(* (DA scan, application in height order, DA inclusion).  It abstracts the *)
(* per-subsystem modules (Producer, Submitter, Retriever, Syncer) to their *)
(* externally visible steps and states the cross-node guarantees that the  *)
(* free-running runs of C13 are validated against (WorldTrace).            *)
(***************************************************************************)
EXTENDS Integers, Sequences, FiniteSets, TLC

CONSTANTS MaxH, MaxDA, Kinds      \* Kinds: tx-list identities; "none" = empty block

VARIABLES chain,    \* sequencer's chain: sequence of tx-list identities
          da,       \* DA layer: sequence of sets of blobs [kind, h]
          wmH, wmD, \* sequencer's submission watermarks (acknowledged)
          inclS,    \* sequencer's DA-included height
          cursor,   \* full node: next DA height to scan
          seenH, seenD, \* full node: heights whose header / data it has fetched
          fchain,   \* full node's chain
          inclF     \* full node's DA-included height
vars == <<chain, da, wmH, wmD, inclS, cursor, seenH, seenD, fchain, inclF>>

H == Len(chain)
IsEmpty(h) == chain[h] = "none"
OnDA(kind, h) == \E i \in 1 .. Len(da) : [kind |-> kind, h |-> h] \in da[i]

Init == /\ chain = <<>> /\ da = <<>> /\ wmH = 0 /\ wmD = 0 /\ inclS = 0
        /\ cursor = 1 /\ seenH = {} /\ seenD = {} /\ fchain = <<>> /\ inclF = 0

Produce(k) == /\ H < MaxH /\ chain' = Append(chain, IF H = 0 THEN "none" ELSE k)
              /\ UNCHANGED <<da, wmH, wmD, inclS, cursor, seenH, seenD, fchain, inclF>>

\* headers wmH+1 .. H are offered; the DA layer keeps a prefix of n; ack tells whether the node learns it
SubmitH(n, ack) ==
    /\ wmH < H /\ n \in 0 .. (H - wmH) /\ Len(da) < MaxDA /\ (n = 0 => ~ack)
    /\ da' = IF n = 0 THEN da ELSE Append(da, {[kind |-> "hdr", h |-> wmH + i] : i \in 1 .. n})
    /\ wmH' = IF ack THEN wmH + n ELSE wmH
    /\ UNCHANGED <<chain, wmD, inclS, cursor, seenH, seenD, fchain, inclF>>

\* the data loop skips leading empty blocks, then offers the non-empty ones
NextData == IF \E h \in (wmD + 1) .. H : ~IsEmpty(h) THEN CHOOSE h \in (wmD + 1) .. H : ~IsEmpty(h) /\ \A x \in (wmD + 1) .. (h - 1) : IsEmpty(x) ELSE 0
SkipEmpty == /\ wmD < H /\ IsEmpty(wmD + 1) /\ wmD' = wmD + 1
             /\ UNCHANGED <<chain, da, wmH, inclS, cursor, seenH, seenD, fchain, inclF>>
SubmitD(ack) ==
    /\ wmD < H /\ ~IsEmpty(wmD + 1) /\ Len(da) < MaxDA
    /\ da' = Append(da, {[kind |-> "data", h |-> wmD + 1]})
    /\ wmD' = IF ack THEN wmD + 1 ELSE wmD
    /\ UNCHANGED <<chain, wmH, inclS, cursor, seenH, seenD, fchain, inclF>>

IncludeS == /\ inclS < H /\ inclS + 1 <= wmH /\ (IsEmpty(inclS + 1) \/ inclS + 1 <= wmD)
            /\ inclS' = inclS + 1
            /\ UNCHANGED <<chain, da, wmH, wmD, cursor, seenH, seenD, fchain, inclF>>

\* full node
Scan == /\ cursor <= Len(da)
        /\ seenH' = seenH \cup {b.h : b \in {x \in da[cursor] : x.kind = "hdr"}}
        /\ seenD' = seenD \cup {b.h : b \in {x \in da[cursor] : x.kind = "data"}}
        /\ cursor' = cursor + 1
        /\ UNCHANGED <<chain, da, wmH, wmD, inclS, fchain, inclF>>
Apply == /\ LET n == Len(fchain) + 1 IN
            /\ n \in seenH /\ (IsEmpty(n) \/ n \in seenD)
            /\ fchain' = Append(fchain, chain[n])
         /\ UNCHANGED <<chain, da, wmH, wmD, inclS, cursor, seenH, seenD, inclF>>
IncludeF == /\ inclF < Len(fchain) /\ inclF + 1 \in seenH /\ (IsEmpty(inclF + 1) \/ inclF + 1 \in seenD)
            /\ inclF' = inclF + 1
            /\ UNCHANGED <<chain, da, wmH, wmD, inclS, cursor, seenH, seenD, fchain>>

Next == \/ \E k \in Kinds \cup {"none"} : Produce(k)
        \/ \E n \in 0 .. MaxH, ack \in BOOLEAN : SubmitH(n, ack)
        \/ \E ack \in BOOLEAN : SubmitD(ack)
        \/ SkipEmpty \/ IncludeS \/ Scan \/ Apply \/ IncludeF
Spec == Init /\ [][Next]_vars
LiveSpec == Spec /\ WF_vars(Scan) /\ WF_vars(Apply) /\ WF_vars(IncludeF) /\ WF_vars(IncludeS) /\ WF_vars(SkipEmpty)
            /\ SF_vars(SubmitH(H - wmH, TRUE)) /\ SF_vars(SubmitD(TRUE))

\* cross-node guarantees (C02, C06, C07 end to end)
IsPrefix(s, t) == Len(s) <= Len(t) /\ \A i \in 1 .. Len(s) : s[i] = t[i]
FullFollows == IsPrefix(fchain, chain)
WatermarkSound == (\A h \in 1 .. wmH : OnDA("hdr", h)) /\ (\A h \in 1 .. wmD : IsEmpty(h) \/ OnDA("data", h))
InclusionSound == /\ inclS <= H /\ inclF <= Len(fchain)
                  /\ \A h \in 1 .. inclS : OnDA("hdr", h) /\ (IsEmpty(h) \/ OnDA("data", h))
                  /\ \A h \in 1 .. inclF : OnDA("hdr", h) /\ (IsEmpty(h) \/ OnDA("data", h))
HeadersInOrderOnDA == \A i, j \in 1 .. Len(da) : \A a \in da[i], b \in da[j] : (a.kind = "hdr" /\ b.kind = "hdr" /\ i < j /\ a.h > b.h) => \E m \in 1 .. i : [kind |-> "hdr", h |-> b.h] \in da[m]
\* with a DA layer that eventually acknowledges, both nodes reach and include the whole chain (unless the DA budget of the bounded model runs out)
EndToEnd == <>(Len(da) >= MaxDA \/ (H = MaxH => (Len(fchain) = MaxH /\ inclS = MaxH /\ inclF = MaxH)))
======================================================================
