#!/bin/bash
# usage: tools/take_mutant.sh <round-dir-prefix e.g. mut3> <ID> <suffix e.g. c> <check> [<check>...]
pre=$1; id=$2; suf=$3; shift 3
mkdir -p /verif/seeded/${id}${suf} && cp -r /tmp/${pre}-${id}/OUT/. /verif/seeded/${id}${suf}/
/verif/tools/try_mutant.sh ${id}${suf} "$@" 2>&1 | grep -v "^VIOLATION" | cut -c1-230 | head -14
