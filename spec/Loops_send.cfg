SPECIFICATION LiveSpec
CONSTANTS
  Producers = {"retrieve", "hstore"}
  Others = {"includer"}
  Cap = 1
  GenesisInFuture = TRUE
  DelayIgnoresCancel = FALSE
  SendIgnoresCancel = TRUE
PROPERTIES StopsEventually StopsPromptly
CHECK_DEADLOCK FALSE
