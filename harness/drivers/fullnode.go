package drivers

import (
	"context"
	"crypto/rand"
	"fmt"
	"os"
	"sync"
	"time"

	"github.com/ipfs/go-datastore"
	dssync "github.com/ipfs/go-datastore/sync"
	logging "github.com/ipfs/go-log/v2"
	"github.com/libp2p/go-libp2p/core/crypto"

	coresequencer "github.com/evstack/ev-node/core/sequencer"
	"github.com/evstack/ev-node/node"
	"github.com/evstack/ev-node/pkg/config"
	"github.com/evstack/ev-node/pkg/p2p"
	"github.com/evstack/ev-node/pkg/p2p/key"

	"verif/harness/world"
)

// The fullnode driver runs the real node.FullNode.Run (node/full.go) - the worker fan-out, the error
// channel, the join and the service shutdown - in real time on the environment doubles, and asks it to
// stop (or lets a worker fail) while chosen workers are inside the execution layer (C13: "when the node is
// asked to stop - at any moment, in any state - every activity returns promptly and the node shuts down
// without hanging"). The execution-layer double honours the context of a blocked call, as a remote
// execution layer does.
//
// Records: NodeRun{node, mode}, NodeGate{node, which} (a worker waits inside the execution layer),
// NodeStop{node, how} (stop requested / a worker made to fail), NodeRet{node, ms, hung}.

const nodeRunBound = 20 * time.Second // Run's own shutdown timeout is 9s; far beyond it the node counts as hung

type fnode struct {
	c      *Ctx
	w      *world.World
	name   string
	exec   *world.ExecDouble
	n      *node.FullNode
	cancel context.CancelFunc
	// buildCancel ends the context the node was constructed with (only after Run returned or was given up)
	buildCancel context.CancelFunc
	done        chan error
	dir    string
	db     datastore.Batching
	keep   bool // keep the root directory at stop (the node is restarted on it)
	mu     sync.Mutex
	atGate map[string]chan struct{}
}

// newFNode builds and starts a node. arm prepares the execution-layer double before Run starts.
func newFNode(c *Ctx, w *world.World, name string, aggregator bool, arm func(*world.ExecDouble)) (*fnode, error) {
	return newFNodeOn(c, w, name, aggregator, arm, nil)
}

// newFNodeOn: prev != nil restarts the node of prev on the same datastore, root directory and execution layer.
func newFNodeOn(c *Ctx, w *world.World, name string, aggregator bool, arm func(*world.ExecDouble), prev *fnode) (*fnode, error) {
	var dir string
	var err error
	if prev != nil {
		dir = prev.dir
	} else {
		dir, err = os.MkdirTemp("", "verif-fnode-")
		if err != nil {
			return nil, err
		}
	}
	conf := config.DefaultConfig
	conf.RootDir = dir
	conf.ChainID = world.ChainID
	conf.Node.Aggregator = aggregator
	conf.Node.BlockTime = config.DurationWrapper{Duration: 40 * time.Millisecond}
	conf.Node.LazyBlockInterval = config.DurationWrapper{Duration: time.Second}
	conf.Node.MaxPendingHeadersAndData = 1000
	conf.DA.BlockTime = config.DurationWrapper{Duration: 40 * time.Millisecond}
	conf.P2P.ListenAddress = "/ip4/127.0.0.1/tcp/0"
	conf.RPC.Address = "127.0.0.1:0"
	conf.Instrumentation = &config.InstrumentationConfig{}
	f := &fnode{c: c, w: w, name: name, dir: dir, atGate: map[string]chan struct{}{"exec": make(chan struct{}, 1024), "final": make(chan struct{}, 1024), "gettxs": make(chan struct{}, 1024)}}
	f.exec = world.NewExecDouble(c.Tr, name, w.IDs)
	f.db = dssync.MutexWrap(datastore.NewMapDatastore())
	if prev != nil {
		f.exec, f.db = prev.exec, prev.db
		f.exec.Gate, f.exec.FinalGate = nil, nil
	}
	f.exec.AtGate = func(which string) {
		select {
		case f.atGate[which] <- struct{}{}:
		default:
		}
	}
	if arm != nil {
		arm(f.exec)
	}
	pk, pub, err := crypto.GenerateEd25519Key(rand.Reader)
	if err != nil {
		return nil, err
	}
	logger := logging.Logger("verif-fnode")
	pc, err := p2p.NewClient(conf, &key.NodeKey{PrivKey: pk, PubKey: pub}, dssync.MutexWrap(datastore.NewMapDatastore()), logger, p2p.NopMetrics())
	if err != nil {
		return nil, err
	}
	// the node is constructed with one context and run with another one derived for this run (as an embedding
	// application does, and as Run itself does for its workers)
	buildCtx, buildCancel := context.WithCancel(context.Background())
	f.buildCancel = buildCancel
	ctx, cancel := context.WithCancel(context.Background())
	f.cancel = cancel
	var sg = w.Signer
	if !aggregator {
		sg = nil
	}
	nd, err := node.NewNode(buildCtx, conf, f.exec, coresequencer.NewDummySequencer(), w.DA, sg, pc, w.Genesis,
		f.db, node.DefaultMetricsProvider(&config.InstrumentationConfig{}), logger, node.NodeOptions{})
	if err != nil {
		cancel()
		buildCancel()
		return nil, err
	}
	f.n = nd.(*node.FullNode)
	f.done = make(chan error, 1)
	mode := "full"
	if aggregator {
		mode = "aggregator"
	}
	c.Tr.Emit("NodeRun", world.F{"node": name, "mode": mode})
	go func() { f.done <- f.n.Run(ctx) }()
	return f, nil
}

// waitGate waits until the n-th call arrived at the named gate of the execution layer (the gate lets its
// first n-1 calls through, so the n-th one is waiting inside it).
func (f *fnode) waitGate(which string, n int, d time.Duration) bool {
	to := time.After(d)
	for i := 0; i < n; i++ {
		select {
		case <-f.atGate[which]:
		case <-to:
			return false
		}
	}
	f.c.Tr.Emit("NodeGate", world.F{"node": f.name, "which": which, "call": n})
	return true
}

// tokens returns a gate that lets n calls through and holds the next one.
func tokens(n int) chan struct{} {
	g := make(chan struct{}, n)
	for i := 0; i < n; i++ {
		g <- struct{}{}
	}
	return g
}

// stop asks the node to stop (parent context) and records how long Run takes to return.
func (f *fnode) stop(how string) (hung bool) {
	f.c.Tr.Emit("NodeStop", world.F{"node": f.name, "how": how})
	t0 := time.Now()
	if how == "cancel" {
		f.cancel()
	}
	select {
	case <-f.done:
	case <-time.After(nodeRunBound):
		hung = true
	}
	// calls into the execution layer that are still running although Run has returned: an activity that was not waited for
	f.c.Tr.Emit("NodeRet", world.F{"node": f.name, "ms": int(time.Since(t0) / time.Millisecond), "hung": hung, "boundms": int(nodeRunBound / time.Millisecond),
		"inflight": int(f.exec.InFlight.Load())})
	if f.exec.FinalSlow > 0 {
		time.Sleep(f.exec.FinalSlow + 200*time.Millisecond) // let a call that was left behind finish before the directory goes
	}
	if hung { // release whatever still waits so that the leaked goroutines end
		f.cancel()
		closeGate(f.exec.Gate)
		closeGate(f.exec.FinalGate)
		closeGate(f.exec.TxsGate)
	}
	if f.buildCancel != nil {
		f.buildCancel()
	}
	if !f.keep {
		os.RemoveAll(f.dir)
	}
	return hung
}

// obs records the node's chain height and DA-included height.
func (f *fnode) obs(tag string) {
	m := f.n.VerifBlockManager()
	f.c.Tr.Emit("NodeObs", world.F{"node": f.name, "tag": tag, "height": int(f.height()), "incl": int(m.GetDAIncludedHeight()), "held": f.w.DA.AcceptedCount()})
}

func closeGate(g chan struct{}) {
	if g != nil {
		defer func() { recover() }()
		close(g)
	}
}

// height of the node's chain.
func (f *fnode) height() uint64 {
	h, _ := f.n.Store.Height(context.Background())
	return h
}

func waitFor(d time.Duration, cond func() bool) bool {
	deadline := time.Now().Add(d)
	for time.Now().Before(deadline) {
		if cond() {
			return true
		}
		time.Sleep(5 * time.Millisecond)
	}
	return cond()
}

type fnScenario struct {
	name       string
	aggregator bool
	gateExec   bool   // hold the next ExecuteTxs
	gateFinal  bool   // hold the next SetFinal
	how        string // cancel | execfail (a worker reports a fatal error by itself)
	gateTxs    bool   // hold the mempool query of the reaper (GetTxs)
	slowFinal  bool   // SetFinal takes 1.5 s and ignores its context; the stop request arrives while it runs
}

// RunFullNode runs every stop scenario once (quick) or three times with varied timing (thorough).
func RunFullNode(c *Ctx) {
	scen := []fnScenario{
		{"agg/idle", true, false, false, "cancel", false, false},
		{"agg/in-gettxs", true, false, false, "cancel", true, false},
		{"agg/execfail-in-gettxs", true, false, false, "execfail", true, false},
		{"agg/in-exec", true, true, false, "cancel", false, false},
		{"agg/in-final", true, false, true, "cancel", false, false},
		{"agg/in-exec+final", true, true, true, "cancel", false, false},
		{"agg/execfail", true, false, false, "execfail", false, false},
		{"agg/execfail-in-final", true, false, true, "execfail", false, false},
		{"full/idle", false, false, false, "cancel", false, false},
		{"full/in-exec", false, true, false, "cancel", false, false},
		{"full/in-final", false, false, true, "cancel", false, false},
		{"full/in-exec+final", false, true, true, "cancel", false, false},
		{"full/execfail-in-final", false, false, true, "execfail", false, false},
		{"agg/in-slow-final", true, false, false, "cancel", false, true},
		{"full/in-slow-final", false, false, false, "cancel", false, true},
	}
	reps := 1
	if c.Thorough() {
		reps = 3
	}
	for r := 0; r < reps; r++ {
		for _, s := range scen {
			runFNScenario(c, fmt.Sprintf("fullnode/%s/%d", s.name, r), s)
		}
		runFNStopInSubmit(c, fmt.Sprintf("fullnode/agg/stop-in-submit+restart/%d", r))
	}
}

// runFNStopInSubmit: an orderly stop arrives while a DA submission is in flight; the DA layer accepts it a moment
// later (the request had already left). The node shuts down, is restarted on the same storage and left running
// with an accepting DA layer: every block is on the DA layer, so the DA-included height must reach the chain height.
func runFNStopInSubmit(c *Ctx, run string) {
	c.Tr.Reset(run, world.F{"driver": "fullnode", "ih": 1, "src": "fullnode"})
	w := world.NewWorld(c.Tr, 1, time.Now().Add(-time.Second))
	defer w.Close()
	c.Count("scenarios", 1)
	prepared := false
	defer func() { c.Tr.Emit("NodeEnd", world.F{"prepared": prepared}) }()
	agg, err := newFNode(c, w, "seq", true, nil)
	if err != nil {
		c.Tr.Emit("NodeSetupErr", world.F{"msg": err.Error()})
		return
	}
	agg.keep = true
	defer os.RemoveAll(agg.dir)
	if !waitFor(15*time.Second, func() bool { return agg.height() >= 4 && agg.n.VerifBlockManager().GetDAIncludedHeight() >= 2 }) {
		c.Count("unprepared", 1)
		agg.stop("cancel")
		return
	}
	// hold the next submissions inside the DA layer
	at := make(chan struct{}, 64)
	gate := make(chan struct{})
	w.DA.AtSubmitGate = func() {
		select {
		case at <- struct{}{}:
		default:
		}
	}
	w.DA.GateIgnoresCtx = true
	w.DA.SubmitGate = gate
	select {
	case <-at:
	case <-time.After(10 * time.Second):
		c.Count("unprepared", 1)
		close(gate)
		agg.stop("cancel")
		return
	}
	time.Sleep(300 * time.Millisecond) // a few more blocks are produced behind the held submission
	prepared = true
	go func() { time.Sleep(500 * time.Millisecond); close(gate) }() // the DA layer accepts after the stop request
	agg.obs("before-stop")
	if agg.stop("cancel") {
		return
	}
	w.DA.SubmitGate, w.DA.GateIgnoresCtx, w.DA.AtSubmitGate = nil, false, nil
	again, err := newFNodeOn(c, w, "seq", true, nil, agg)
	if err != nil {
		c.Tr.Emit("NodeSetupErr", world.F{"msg": err.Error()})
		return
	}
	again.keep = true
	h0 := again.height()
	waitFor(15*time.Second, func() bool {
		return again.height() >= h0+2 && uint64(again.n.VerifBlockManager().GetDAIncludedHeight())+1 >= again.height()
	})
	// freeze production is not possible on a running node: sample, then compare with what was on the DA layer a moment before
	time.Sleep(300 * time.Millisecond)
	again.obs("after-restart")
	c.Tr.Emit("NodeQuiesce", world.F{"node": "seq", "h0": int(h0), "height": int(again.height()), "incl": int(again.n.VerifBlockManager().GetDAIncludedHeight())})
	again.stop("cancel")
	c.Count("stops", 1)
}

func runFNScenario(c *Ctx, run string, s fnScenario) {
	c.Tr.Reset(run, world.F{"driver": "fullnode", "ih": 1, "src": "fullnode"})
	w := world.NewWorld(c.Tr, 1, time.Now().Add(-time.Second))
	defer w.Close()
	c.Count("scenarios", 1)
	prepared := false
	defer func() {
		c.Tr.Emit("NodeEnd", world.F{"prepared": prepared})
	}()
	const execPass, finalPass = 3, 1 // calls let through before the gates hold
	holdExec := s.gateExec || s.how == "execfail"
	arm := func(e *world.ExecDouble) {
		if holdExec {
			e.Gate = tokens(execPass)
		}
		if s.gateFinal {
			e.FinalGate = tokens(finalPass)
		}
		if s.gateTxs {
			e.TxsGate = tokens(3)
		}
		if s.slowFinal {
			e.FinalSlow = 1500 * time.Millisecond
		}
	}
	var target *fnode
	if s.aggregator {
		agg, err := newFNode(c, w, "seq", true, arm)
		if err != nil {
			c.Tr.Emit("NodeSetupErr", world.F{"msg": err.Error()})
			return
		}
		target = agg
	} else {
		// the proposer: a real aggregator node that produces a few blocks and submits them to the DA double
		agg, err := newFNode(c, w, "seq", true, nil)
		if err != nil {
			c.Tr.Emit("NodeSetupErr", world.F{"msg": err.Error()})
			return
		}
		okp := waitFor(15*time.Second, func() bool { return agg.height() >= 8 && w.DA.AcceptedCount() >= 8 })
		if agg.stop("cancel") || !okp {
			c.Count("unprepared", 1)
			return
		}
		full, err := newFNode(c, w, "full", false, arm)
		if err != nil {
			c.Tr.Emit("NodeSetupErr", world.F{"msg": err.Error()})
			return
		}
		target = full
	}
	ok := true
	if s.gateFinal {
		ok = ok && target.waitGate("final", finalPass+1, 15*time.Second)
	}
	if holdExec {
		ok = ok && target.waitGate("exec", execPass+1, 15*time.Second)
	}
	if s.gateTxs {
		ok = ok && target.waitGate("gettxs", 4, 15*time.Second)
	}
	if s.slowFinal {
		ok = ok && target.waitGate("final", 1, 20*time.Second)
	}
	if !holdExec && !s.gateFinal && !s.gateTxs && !s.slowFinal {
		ok = waitFor(15*time.Second, func() bool { return target.height() >= 3 })
	}
	if !ok { // the schedule could not be set up (not a verdict): stop and leave
		c.Count("unprepared", 1)
		target.cancel()
		closeGate(target.exec.Gate)
		closeGate(target.exec.FinalGate)
		closeGate(target.exec.TxsGate)
		select {
		case <-target.done:
		case <-time.After(nodeRunBound):
		}
		os.RemoveAll(target.dir)
		return
	}
	prepared = true
	if s.how == "execfail" {
		// the held execution fails by itself: the production / sync loop reports a fatal error to Run
		target.exec.FailNext = 1
		close(target.exec.Gate)
	}
	target.stop(s.how)
	c.Count("stops", 1)
}
