package drivers

import (
	"context"
	"errors"
	"fmt"
	mrand "math/rand"
	"time"

	logging "github.com/ipfs/go-log/v2"

	"github.com/evstack/ev-node/block"
	"github.com/evstack/ev-node/sequencers/single"

	"verif/harness/world"
)

// flowRun wires the real Reaper, the real single.Sequencer and the real block.Manager of one
// sequencer node on ONE crash-injecting datastore (one write fuse for the whole process) (C11).
type flowRun struct {
	c      *Ctx
	w      *world.World
	n      *world.Node
	reaper *block.Reaper
	bound  int
	ntx    int
}

func newFlowRun(c *Ctx, run string, bound int) *flowRun {
	c.Tr.Reset(run, world.F{"driver": "txflow", "ih": 1, "bound": bound})
	w := world.NewWorld(c.Tr, 1, world.T0)
	n := w.NewNode(world.NodeOpts{Name: "seq", Aggregator: true})
	f := &flowRun{c: c, w: w, n: n, bound: bound}
	return f
}

func (f *flowRun) crashGuard(what string, fn func()) (crashed bool) {
	defer func() {
		if r := recover(); r != nil {
			if cs, ok := r.(world.CrashSentinel); ok {
				f.c.Tr.Emit("Crash", world.F{"node": "seq", "at": cs.At, "during": what})
				f.n.M = nil
				f.reaper = nil
				crashed = true
				return
			}
			f.c.Tr.Emit("Panic", world.F{"node": "seq", "where": what, "msg": fmt.Sprint(r)})
			f.n.M = nil
			f.reaper = nil
			crashed = true
		}
	}()
	fn()
	return false
}

// start brings the whole process up on the current image: sequencer (reloads its queue),
// manager, reaper.
func (f *flowRun) start(fuse int) bool {
	f.n.KV.Disarm()
	if fuse >= 0 {
		f.n.KV.Arm(fuse)
	}
	ok := false
	f.crashGuard("start", func() {
		seq, err := single.NewSequencerWithQueueSize(context.Background(), logging.Logger("verif-seq"), f.n.KV, f.w.DA, []byte(world.ChainID), time.Second, nil, true, f.bound)
		if err != nil {
			f.c.Tr.Emit("Restart", world.F{"node": "seq", "ok": false, "err": err.Error(), "k": 0})
			return
		}
		f.n.SeqD.Inner = seq
		if err := f.n.Start(context.Background()); err != nil {
			return
		}
		f.reaper = block.NewReaper(context.Background(), f.n.Exec, f.n.Seq, world.ChainID, time.Second, logging.Logger("verif-reaper"), f.n.KV)
		f.reaper.SetManager(f.n.M)
		ok = true
	})
	f.n.KV.Disarm()
	return ok && f.n.M != nil
}

func (f *flowRun) up() bool { return f.n.M != nil && f.reaper != nil }

func (f *flowRun) inject(k int, repeatOf []byte) [][]byte {
	var txs [][]byte
	for i := 0; i < k; i++ {
		f.ntx++
		tx := []byte(fmt.Sprintf("flow-tx-%d", f.ntx))
		f.w.IDs.Name(tx, fmt.Sprintf("x%d", f.ntx))
		txs = append(txs, tx)
	}
	if repeatOf != nil {
		txs = append(txs, repeatOf)
	}
	f.n.Exec.Inject(txs...)
	f.c.Tr.Emit("Inject", world.F{"node": "seq", "txs": world.Strs(f.w.IDs.IDs(txs)), "class": "mempool", "kind": "tx", "h": 0, "via": "mempool", "dah": 0})
	return txs
}

func (f *flowRun) reap(fuse int) {
	if !f.up() {
		return
	}
	if fuse >= 0 {
		f.n.KV.Arm(fuse)
	}
	f.c.Tr.Emit("ReapBegin", world.F{"node": "seq"})
	crashed := f.crashGuard("reap", func() { f.reaper.SubmitTxs() })
	f.n.KV.Disarm()
	if !crashed {
		f.c.Tr.Emit("ReapEnd", world.F{"node": "seq"})
	}
}

func (f *flowRun) step(fuse int) {
	if !f.up() {
		return
	}
	if fuse >= 0 {
		f.n.KV.Arm(fuse)
	}
	err := f.n.Step(context.Background())
	f.n.KV.Disarm()
	if err != nil {
		if !errors.Is(err, world.ErrCrashed) {
			f.c.Tr.Emit("Halt", world.F{"node": "seq"})
		}
		f.n.M = nil
		f.reaper = nil
	}
}

// stepStopInNext: an orderly stop request (context cancellation) arrives while the production step is inside
// GetNextBatch and the sequencer has just handed out a non-empty batch; the step ends however it ends, the node
// is stopped and later restarted on the same storage. No crash is involved: nothing may be lost.
func (f *flowRun) stepStopInNext() {
	if !f.up() {
		return
	}
	ctx, cancel := context.WithCancel(context.Background())
	defer cancel()
	f.n.SeqD.AfterNext = func(kind string) {
		if kind == "batch" {
			cancel()
		}
	}
	err := f.n.Step(ctx)
	f.n.SeqD.AfterNext = nil
	if err != nil && !errors.Is(err, world.ErrCrashed) && !errors.Is(err, context.Canceled) {
		f.c.Tr.Emit("Halt", world.F{"node": "seq"})
	}
	f.c.Tr.Emit("Stop", world.F{"node": "seq", "clean": true})
	f.n.M = nil
	f.reaper = nil
}

func (f *flowRun) settle() {
	f.n.KV.Disarm()
	f.n.Exec.FailNext = 0
	f.c.Tr.Emit("Settle", world.F{"node": "seq"})
	for i := 0; i < 14; i++ {
		if !f.up() {
			if !f.start(-1) {
				continue
			}
		}
		f.reap(-1)
		f.step(-1)
	}
	f.n.Obs("settled")
	f.c.Tr.Emit("Quiesce", world.F{"node": "seq", "h0": 0, "h1": 0, "k": 0})
}

// RunTxFlow: arrival patterns (including repeats of the same bytes), refusals (small queue bound),
// execution failures, and a crash at every durable-write boundary of reaping, of taking a batch
// and of block production.
func RunTxFlow(c *Ctx) {
	rng := mrand.New(mrand.NewSource(c.Seed + 41))
	// 1. crash enumeration over one scripted scenario per bound
	for _, bound := range []int{1, 2, 0} {
		ops := []string{"inject2", "reap", "inject1", "reap", "step", "step", "reap", "step", "inject1r", "reap", "step"}
		// measure the number of writes per op
		f := newFlowRun(c, fmt.Sprintf("measure/b%d", bound), bound)
		f.start(-1)
		writes := make([]int, len(ops))
		var last []byte
		run := func(f *flowRun, op string, fuse int) {
			switch op {
			case "inject2":
				last = f.inject(2, nil)[0]
			case "inject1":
				last = f.inject(1, nil)[0]
			case "inject1r":
				f.inject(1, last)
			case "reap":
				f.reap(fuse)
			case "step":
				f.step(fuse)
			}
		}
		for i, op := range ops {
			w0 := f.n.KV.Writes()
			run(f, op, -1)
			writes[i] = f.n.KV.Writes() - w0
		}
		f.settle()
		f.w.Close()
		for i, op := range ops {
			if op != "reap" && op != "step" {
				continue
			}
			for k := 0; k <= writes[i]; k++ {
				for nested := -1; nested <= 2; nested++ {
					if nested >= 0 && !c.Thorough() && rng.Intn(3) != 0 {
						continue
					}
					f := newFlowRun(c, fmt.Sprintf("crash/b%d/op%d/k%d/n%d", bound, i, k, nested), bound)
					f.start(-1)
					nst := nested // the crash point inside the recovery is used once (assigning the loop variable here made
					// the enumeration start over for ever whenever the sampling of the quick tier did not cut it short)
					for j, o := range ops {
						if !f.up() {
							f.start(nst)
							nst = -1
							if !f.up() {
								f.start(-1)
							}
						}
						fuse := -1
						if j == i {
							fuse = k
						}
						run(f, o, fuse)
					}
					f.settle()
					f.w.Close()
					c.Count("crashruns", 1)
				}
			}
		}
	}
	// 1b. an orderly stop that lands inside GetNextBatch, at every production step of the scenario
	for _, bound := range []int{1, 2, 0} {
		ops := []string{"inject2", "reap", "inject1", "reap", "step", "step", "reap", "step", "inject1r", "reap", "step"}
		for i, op := range ops {
			if op != "step" {
				continue
			}
			f := newFlowRun(c, fmt.Sprintf("stopinnext/b%d/op%d", bound, i), bound)
			f.start(-1)
			var last []byte
			for j, o := range ops {
				if !f.up() {
					f.start(-1)
				}
				switch {
				case o == "inject2":
					last = f.inject(2, nil)[0]
				case o == "inject1":
					last = f.inject(1, nil)[0]
				case o == "inject1r":
					f.inject(1, last)
				case o == "reap":
					f.reap(-1)
				case o == "step" && j == i:
					f.stepStopInNext()
				case o == "step":
					f.step(-1)
				}
			}
			f.settle()
			f.w.Close()
			c.Count("stopruns", 1)
		}
	}
	// 1c. a refused datastore write (error, the process lives on) at every write position of every reap / production
	// step of the scenario, with and without a restart afterwards: a failed hand-off or take is retried, nothing is lost
	for _, bound := range []int{1, 2, 0} {
		ops := []string{"inject2", "reap", "inject1", "reap", "step", "step", "reap", "step", "inject1r", "reap", "step"}
		for i, op := range ops {
			if op != "reap" && op != "step" {
				continue
			}
			for k := 1; k <= 3; k++ {
				for _, restart := range []bool{false, true} {
					f := newFlowRun(c, fmt.Sprintf("wfail/b%d/op%d/k%d/r%v", bound, i, k, restart), bound)
					f.start(-1)
					var last []byte
					for j, o := range ops {
						if !f.up() {
							f.start(-1)
						}
						if j == i {
							f.n.KV.FailWrite(k)
						}
						switch o {
						case "inject2":
							last = f.inject(2, nil)[0]
						case "inject1":
							last = f.inject(1, nil)[0]
						case "inject1r":
							f.inject(1, last)
						case "reap":
							f.reap(-1)
						case "step":
							f.step(-1)
						}
						if j == i {
							f.n.KV.FailWrite(0)
							if restart && f.up() {
								f.c.Tr.Emit("Stop", world.F{"node": "seq", "clean": true})
								f.n.M = nil
								f.reaper = nil
							}
						}
					}
					f.settle()
					f.w.Close()
					c.Count("wfailruns", 1)
				}
			}
		}
	}
	// 1d. a burst: many transactions arrive between two reaper rounds (what one mempool query returns is not bounded)
	for _, bound := range []int{0, 2} {
		for _, n := range []int{501, 1200} {
			f := newFlowRun(c, fmt.Sprintf("burst/b%d/n%d", bound, n), bound)
			f.start(-1)
			f.inject(n, nil)
			f.reap(-1)
			f.step(-1)
			f.step(-1)
			f.inject(2, nil)
			f.reap(-1)
			f.step(-1)
			f.settle()
			f.w.Close()
			c.Count("burstruns", 1)
		}
	}
	// 2. seeded random histories
	n := 60
	if c.Thorough() {
		n = 400
	}
	for r := 0; r < n; r++ {
		bound := []int{1, 2, 3, 0}[rng.Intn(4)]
		f := newFlowRun(c, fmt.Sprintf("rand/%d", r), bound)
		f.start(-1)
		crashes := 0
		if r%3 == 0 {
			crashes = 99 // a run without crashes: no transaction may be included twice
		}
		var last []byte
		for i := 0; i < 12+rng.Intn(14); i++ {
			if !f.up() {
				f.start(-1)
				continue
			}
			fuse := -1
			if rng.Intn(7) == 0 && crashes < 3 {
				fuse = rng.Intn(5)
				crashes++
			}
			switch rng.Intn(7) {
			case 0, 1:
				var rep []byte
				if last != nil && rng.Intn(4) == 0 {
					rep = last
				}
				last = f.inject(1+rng.Intn(3), rep)[0]
			case 2, 3:
				f.reap(fuse)
			case 4, 5:
				if rng.Intn(9) == 0 {
					f.n.Exec.FailNext = 1
				}
				f.step(fuse)
			case 6:
				f.reap(-1)
				f.reap(fuse)
			}
		}
		f.settle()
		f.w.Close()
		c.Count("randomruns", 1)
	}
}
