---------------------------- MODULE MCSyncer ----------------------------
EXTENDS Syncer, Json, IOUtils
ShapeA == << <<>>, <<"a">>, <<"b">> >>
ShapeZ == << <<>>, <<"a", "EMPTY">>, <<"EMPTY", "b", "EMPTY">> >>     \* transactions of zero length inside a block
ShapeDup == << <<>>, <<"a">>, <<>>, <<"a">> >>
ShapeE == << <<>>, <<>>, <<"a">>, <<>> >>
ShapeBig == << <<>>, <<"a">>, <<>>, <<"a">>, <<"b","c">>, <<>>, <<"b","c">> >>
Dump == Rec => ndJsonSerialize(IOEnv.VERIF_BEH_DIR \o "/b_" \o ToString(TLCGet("stats").traces) \o ".ndjson", hist)
\* at quiescence (everything delivered, idle) the node is at the proposer's height
QuiescentConverged == (pc = "idle" /\ \A e \in Events : left[e] = 0) => kv.height = Top
==========================================================================
