SPECIFICATION TSpec
INVARIANT Finish
POSTCONDITION Consumed
CHECK_DEADLOCK FALSE
