package drivers

import (
	logging "github.com/ipfs/go-log/v2"
	"github.com/evstack/ev-node/sequencers/single"
	"github.com/evstack/ev-node/block"
	"context"
	"fmt"
	mrand "math/rand"
	"sync"
	"testing/synctest"
	"time"

	"verif/harness/world"
)

const lazyTick = 10 * time.Millisecond

// lazyScenario runs the real AggregationLoop in virtual time with the production function replaced
// by a recorder (the seam the package's own tests use). Times are logged in ms since loop start.
func lazyScenario(c *Ctx, run string, lazy bool, bt, lz int, durs []int, notifyAt []int, horizon int) {
	lazyScenarioResume(c, run, lazy, bt, lz, durs, notifyAt, horizon, -1)
}

// resumeAge >= 0: the loop starts on an existing chain whose last block is that many ticks old (a restarted node).
func lazyScenarioResume(c *Ctx, run string, lazy bool, bt, lz int, durs []int, notifyAt []int, horizon int, resumeAge int) {
	synctest.Run(func() {
		c.Tr.Reset(run, world.F{"driver": "lazy", "ih": 1})
		w := world.NewWorld(c.Tr, 1, time.Now().Add(-time.Hour))
		defer w.Close()
		n := w.NewNode(world.NodeOpts{Name: "seq", Aggregator: true, Lazy: lazy, BlockTime: time.Duration(bt) * lazyTick, LazyInterval: time.Duration(lz) * lazyTick})
		n.KV.Quiet = true
		if err := n.Start(context.Background()); err != nil {
			return
		}
		if resumeAge >= 0 {
			// two real blocks first: the block at the initial height, and one stamped resumeAge ticks ago
			c.Tr.Mute()
			err := n.Step(context.Background())
			if err == nil {
				n.SeqD.Script = append(n.SeqD.Script, world.SeqReply{Kind: "empty", TsMs: world.Ms(time.Now().Add(-time.Duration(resumeAge) * lazyTick))})
				err = n.Step(context.Background())
			}
			c.Tr.Unmute()
			if err != nil {
				c.Tr.Emit("LazySetupErr", world.F{"msg": err.Error()})
				return
			}
		}
		t0 := time.Now()
		ms := func() int { return int(time.Since(t0) / time.Millisecond) }
		var mu sync.Mutex
		k := 0
		n.M.VerifSetPublishBlock(func(ctx context.Context) error {
			mu.Lock()
			d := durs[k%len(durs)]
			k++
			idx := k
			mu.Unlock()
			c.Tr.Emit("ProdStart", world.F{"t": ms(), "k": idx})
			if d > 0 {
				select {
				case <-time.After(time.Duration(d) * lazyTick):
				case <-ctx.Done():
				}
			}
			c.Tr.Emit("ProdEnd", world.F{"t": ms(), "k": idx})
			return nil
		})
		c.Tr.Emit("LazyCfg", world.F{"lazy": lazy, "bt": bt * 10, "lz": lz * 10})
		ctx, cancel := context.WithCancel(context.Background())
		errCh := make(chan error, 1)
		done := make(chan struct{})
		go func() {
			defer close(done)
			n.M.AggregationLoop(ctx, errCh)
		}()
		for _, at := range notifyAt {
			if d := time.Duration(at)*lazyTick - time.Since(t0); d > 0 {
				time.Sleep(d)
			}
			synctest.Wait()
			c.Tr.Emit("Notify", world.F{"t": ms()})
			n.M.NotifyNewTransactions()
			synctest.Wait()
		}
		if d := time.Duration(horizon)*lazyTick - time.Since(t0); d > 0 {
			time.Sleep(d)
		}
		synctest.Wait()
		c.Tr.Emit("LazyEnd", world.F{"t": ms()})
		cancel()
		<-done
	})
}

// lazyReaperScenario: the whole notification path of a lazy node - the real reaper takes a transaction from the
// mempool and hands it to the real single sequencer, which takes a while to acknowledge (longer than one block
// interval, so that a block timer tick falls inside the hand-off); the real production function builds the blocks.
// "Notified of new transactions" is the moment the transactions are in the sequencing layer: from then on a block
// must start within one block interval (and it is the block that carries them, or a further one does).
func lazyReaperScenario(c *Ctx, run string, bt, lz, at, delay int) {
	synctest.Run(func() {
		c.Tr.Reset(run, world.F{"driver": "lazy", "ih": 1})
		w := world.NewWorld(c.Tr, 1, time.Now().Add(-time.Hour))
		defer w.Close()
		n := w.NewNode(world.NodeOpts{Name: "seq", Aggregator: true, Lazy: true, BlockTime: time.Duration(bt) * lazyTick, LazyInterval: time.Duration(lz) * lazyTick})
		seq, err := single.NewSequencer(context.Background(), logging.Logger("verif-seq"), n.KV, w.DA, []byte(world.ChainID), time.Second, nil, true)
		if err != nil {
			return
		}
		n.SeqD.Inner = seq
		n.SeqD.SubmitDelay = time.Duration(delay) * lazyTick
		if err := n.Start(context.Background()); err != nil {
			return
		}
		reaper := block.NewReaper(context.Background(), n.Exec, n.Seq, world.ChainID, time.Second, logging.Logger("verif-reaper"), n.KV)
		reaper.SetManager(n.M)
		t0 := time.Now()
		ms := func() int { return int(time.Since(t0) / time.Millisecond) }
		k := 0
		n.KV.Tap = func(rec world.F) { // production seen at its durable writes: first save of the block .. chain height raised
			switch {
			case rec["kind"] == "block" && rec["fin"] == false:
				k++
				c.Tr.Emit("ProdStart", world.F{"t": ms(), "k": k})
			case rec["kind"] == "height":
				c.Tr.Emit("ProdEnd", world.F{"t": ms(), "k": k})
			}
		}
		c.Tr.Emit("LazyCfg", world.F{"lazy": true, "bt": bt * 10, "lz": lz * 10})
		ctx, cancel := context.WithCancel(context.Background())
		errCh := make(chan error, 1)
		done := make(chan struct{})
		go func() {
			defer close(done)
			n.M.AggregationLoop(ctx, errCh)
		}()
		time.Sleep(time.Duration(at) * lazyTick)
		synctest.Wait()
		tx := []byte(fmt.Sprintf("lazy-tx-%d", at))
		w.IDs.Name(tx, "lz")
		n.Exec.Inject(tx)
		reaper.SubmitTxs() // returns when the hand-off is through
		c.Tr.Emit("Notify", world.F{"t": ms()})
		time.Sleep(time.Duration(lz+2*bt) * lazyTick)
		synctest.Wait()
		c.Tr.Emit("LazyEnd", world.F{"t": ms()})
		cancel()
		<-done
		n.KV.Tap = nil
	})
}

// RunLazy enumerates block/idle interval ratios, production durations shorter and longer than the
// block interval, and notification instants (including inside a production) in lazy and normal mode.
func RunLazy(c *Ctx) {
	rng := mrand.New(mrand.NewSource(c.Seed + 77))
	durSets := [][]int{{0}, {1}, {3}, {5}, {4, 0}, {0, 4}, {2, 7, 0}}
	type cfg struct{ bt, lz int }
	cfgs := []cfg{{2, 5}, {3, 6}, {2, 2}, {3, 7}, {2, 9}, {3, 1}, {4, 2}}
	// the real reaper and a sequencing layer that is slow to acknowledge
	for _, cf := range []struct{ bt, lz int }{{3, 30}, {2, 20}} {
		for _, at := range []int{4, 5, 6, 7} {
			for _, delay := range []int{1, cf.bt + 1, 2*cf.bt + 1} {
				lazyReaperScenario(c, fmt.Sprintf("lazy/reaper/bt%d-lz%d/at%d/d%d", cf.bt, cf.lz, at, delay), cf.bt, cf.lz, at, delay)
				c.Count("lazyruns", 1)
			}
		}
	}
	// a restarted node (existing chain, last block a tick or two old) that is notified right after its start
	for _, lazy := range []bool{true, false} {
		for _, cf := range cfgs {
			for _, age := range []int{0, 1, cf.bt} {
				for _, at := range []int{0, 1} {
					lazyScenarioResume(c, fmt.Sprintf("lazy/%v/bt%d-lz%d/resume%d/n%d", lazy, cf.bt, cf.lz, age, at), lazy, cf.bt, cf.lz, []int{0}, []int{at}, 40, age)
					c.Count("lazyruns", 1)
				}
			}
		}
	}
	for _, lazy := range []bool{true, false} {
		for _, cf := range cfgs {
			for di, durs := range durSets {
				// no notification at all: idle behaviour
				lazyScenario(c, fmt.Sprintf("lazy/%v/bt%d-lz%d/d%d/none", lazy, cf.bt, cf.lz, di), lazy, cf.bt, cf.lz, durs, nil, 30)
				c.Count("lazyruns", 1)
				for at := 0; at <= 14; at++ {
					if !c.Thorough() && rng.Intn(3) != 0 {
						continue
					}
					lazyScenario(c, fmt.Sprintf("lazy/%v/bt%d-lz%d/d%d/n%d", lazy, cf.bt, cf.lz, di, at), lazy, cf.bt, cf.lz, durs, []int{at}, 40)
					c.Count("lazyruns", 1)
					at2 := at + 1 + rng.Intn(6)
					lazyScenario(c, fmt.Sprintf("lazy/%v/bt%d-lz%d/d%d/n%d-%d", lazy, cf.bt, cf.lz, di, at, at2), lazy, cf.bt, cf.lz, durs, []int{at, at2}, 45)
					c.Count("lazyruns", 1)
				}
			}
		}
	}
}
