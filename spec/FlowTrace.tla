---------------------------- MODULE FlowTrace ----------------------------
(***************************************************************************)
(* Tier M monitor for C11: real Reaper + real single.Sequencer + real      *)
(* block.Manager on one crash-injecting datastore.  Events: Inject (txs    *)
(* put into the execution layer's mempool), SeqNext (batch released by the *)
(* sequencing layer; at that instant it is durably removed from the        *)
(* queue), KV (durable writes; kind = block is a block save), Crash, and   *)
(* the projection of the chain at the end of the settle phase.             *)
(***************************************************************************)
EXTENDS TraceLib

VARIABLES l, run, injected, open, excused, crashed, released, viol
vars == <<l, run, injected, open, excused, crashed, released, viol>>

Init == l = 1 /\ run = "" /\ injected = <<>> /\ open = {} /\ excused = {} /\ crashed = FALSE /\ released = <<>> /\ viol = <<>>
e == Trace[l]
Is(name) == l <= N /\ e.ev = name
Adv == l' = l + 1
ToSetOf(s) == {s[i] : i \in 1 .. Len(s)}

TReset == /\ Is("Reset") /\ Adv /\ run' = e.run /\ injected' = <<>> /\ open' = {} /\ excused' = {} /\ crashed' = FALSE /\ released' = <<>>
          /\ UNCHANGED viol

TInject == /\ Is("Inject") /\ Adv /\ injected' = injected \o e.txs
           /\ UNCHANGED <<run, open, excused, crashed, released, viol>>

TSeqNext == /\ Is("SeqNext") /\ Adv
            /\ open' = IF e.kind = "batch" THEN ToSetOf(e.txs) ELSE open
            /\ released' = IF e.kind = "batch" THEN Append(released, e.txs) ELSE released
            /\ UNCHANGED <<run, injected, excused, crashed, viol>>

TKV == /\ Is("KV") /\ Adv
       /\ open' = IF e.kind = "block" THEN {} ELSE open
       /\ UNCHANGED <<run, injected, excused, crashed, released, viol>>

\* the window of the known finding C11-pop-before-save: a batch was taken (and durably removed from
\* the queue) and the process died before the block that contains it was first saved
TCrash == /\ Is("Crash") /\ Adv
          /\ excused' = excused \cup open /\ open' = {} /\ crashed' = TRUE
          /\ UNCHANGED <<run, injected, released, viol>>

\* the same window, hit by a refused write instead of a crash: the step fails after the batch was taken and before the
\* block that contains it was first saved; the next step takes the next batch
\* (for the clause "in the absence of crashes no transaction is included twice" a refused write counts as the fault it
\* is: hand-off and seen-marker are two writes, a failure between them is answered by handing off again)
TKVFail == /\ Is("KVFail") /\ Adv
           /\ excused' = excused \cup open /\ open' = {} /\ crashed' = TRUE
           /\ UNCHANGED <<run, injected, released, viol>>

RECURSIVE EmbedsIn(_, _)
EmbedsIn(small, big) == IF small = <<>> THEN TRUE ELSE IF big = <<>> THEN FALSE
                        ELSE IF Head(small) = Head(big) THEN EmbedsIn(Tail(small), Tail(big)) ELSE EmbedsIn(small, Tail(big))

ChainLists(o) == SelectSeq([i \in 1 .. Len(o.blocks) |-> IF o.blocks[i].h <= o.height THEN o.blocks[i].txs ELSE <<>>], LAMBDA x : x # <<>>)
ChainTxs(o) == FlatSeq(ChainLists(o))
Occ(s, t) == Cardinality({i \in 1 .. Len(s) : s[i] = t})

TObs ==
    /\ Is("Obs") /\ e.tag = "settled" /\ Adv
    /\ LET ct == ChainTxs(e) IN
       viol' = viol \o Failed(<<
          <<"C11.NoLoss", \A t \in ToSetOf(injected) : Occ(ct, t) >= 1 \/ t \in excused, "a transaction taken from the mempool is in no committed block after quiescence">>,
          <<"C11.NoLoss.popBeforeSave", \A t \in ToSetOf(injected) : Occ(ct, t) = 0 => t \notin excused,
              "transaction lost: its batch was durably removed from the sequencer's queue and the node crashed before the block containing it was first saved (the reaper's seen-set forbids handing it off again)">>,
          <<"C11.NoDupWithoutCrash", ~crashed => \A t \in ToSetOf(injected) : Occ(ct, t) <= Occ(injected, t), "a transaction was included more often than it was put into the mempool although the node never crashed">>,
          <<"C11.OnlyMempoolTxs", \A i \in 1 .. Len(ct) : ct[i] \in ToSetOf(injected), "the chain contains a transaction that never was in the mempool">>,
          <<"C11.BatchOrder", EmbedsIn(ChainLists(e), released), "blocks do not carry the released batches in release order">>
          >>, l, run)
    /\ UNCHANGED <<run, injected, open, excused, crashed, released>>

TPanic == /\ Is("Panic") /\ Adv /\ viol' = viol \o Failed(<< <<"C11.Panic", FALSE, "panic in node code">> >>, l, run)
          /\ UNCHANGED <<run, injected, open, excused, crashed, released>>

TOther == /\ l <= N /\ Adv /\ ~(e.ev \in {"Reset", "Inject", "SeqNext", "KV", "KVFail", "Crash", "Panic"}) /\ ~(e.ev = "Obs" /\ e.tag = "settled")
          /\ UNCHANGED <<run, injected, open, excused, crashed, released, viol>>

Next == TReset \/ TInject \/ TSeqNext \/ TKV \/ TKVFail \/ TCrash \/ TObs \/ TPanic \/ TOther
Spec == Init /\ [][Next]_vars
Finish == (l = N + 1) => ndJsonSerialize("viol.ndjson", viol)
Consumed == TLCGet("stats").diameter = N + 1
==========================================================================
