---------------------------- MODULE SubmitterStrict ----------------------------
(***************************************************************************)
(* Step-level trace validation of the tier-I module Submitter against the  *)
(* real HeaderSubmissionLoop / DataSubmissionLoop / DAIncluderLoop and the *)
(* production steps of a sequencer node.  Every record is consumed by one  *)
(* step that is an action of Submitter.tla with its parameters bound to    *)
(* the logged fields; actions that leave no record (a loop waking up and   *)
(* taking its snapshot of pending items, a pass that gives up, the         *)
(* publication of the DA-included height in memory) are taken silently,    *)
(* guarded by the record that follows.                                     *)
(*                                                                         *)
(*   StepEnd h1 = h0 + 1            Produce(identity of block h1's txs)    *)
(*   DASubmit hdr blobs, acc, res   [GiveUpH] [SnapH] AttemptH(acc, ack)   *)
(*   DASubmit data blobs            [GiveUpD] [SnapD] AttemptD(acc, ack)   *)
(*   KV meta last-submitted-data    SnapD (leading empty blocks skipped)   *)
(*   KV meta last-submitted-*       durable watermark = logged height      *)
(*   ExecFinal h ok                 Finalize                               *)
(*   KV meta d h                    Persist      (then Publish, silent)    *)
(*   Stop clean / unclean, Crash    CleanStop / Crash                      *)
(*   Restart                        Restart                                *)
(*   Obs                            projection of the real node = model    *)
(*                                                                         *)
(* ack: the node learns of the acceptance (result ok / prefix) AND gets to *)
(* do its bookkeeping: if the process dies first (next bookkeeping write   *)
(* preceded by a Crash / Stop), it is the lost-acknowledgement step of the *)
(* model.                                                                  *)
(***************************************************************************)
EXTENDS Submitter, TraceLib

VARIABLES l, run, drifted, drift
xvars == <<l, run, drifted, drift>>
svars == <<vars, xvars>>

e == Trace[l]
OnSeq == ("node" \in DOMAIN e) => e.node = "seq"
Ready == pcI # "persisted"            \* the silent Publish comes first
Is(name) == l <= N /\ ~drifted /\ Ready /\ e.ev = name /\ OnSeq
Adv == l' = l + 1 /\ UNCHANGED <<run, drifted, drift>>
Same == UNCHANGED vars

IsSubmit(kind) == l <= N /\ ~drifted /\ Ready /\ e.ev = "DASubmit" /\ Len(e.blobs) > 0 /\ e.blobs[1].kind = kind
Offered == [i \in 1 .. Len(e.blobs) |-> e.blobs[i].h]
Acked == e.res = "ok" \/ (Len(e.res) > 6 /\ SubSeq(e.res, 1, 6) = "prefix")

\* the bookkeeping write that follows an acknowledged acceptance of this kind, unless the process dies first
BookKey(kind) == IF kind = "hdr" THEN "last-submitted-header-height" ELSE "last-submitted-data-height"
RECURSIVE BookFollows(_, _, _)
BookFollows(j, kind, budget) ==
    IF j > N \/ budget = 0 THEN FALSE
    ELSE LET r == Trace[j] IN
         IF r.ev \in {"Crash", "Stop", "Reset"} THEN FALSE
         ELSE IF r.ev = "KV" /\ r.kind = "meta" /\ r.key = BookKey(kind) THEN TRUE
         ELSE BookFollows(j + 1, kind, budget - 1)
\* (an acknowledged acceptance is AttemptX(n, TRUE): the marks are set; the watermark write is its own step, BookX,
\* which a crash may cut off - the look-ahead for that write, needed while the attempt was one step, is gone)
Ack(kind) == Acked /\ e.acc > 0

\* identity of the transactions of block h: "none" for an empty block, otherwise the list itself
RECURSIVE NextObs(_, _)
NextObs(j, budget) == IF j > N \/ budget = 0 THEN [blocks |-> <<>>]
                      ELSE IF Trace[j].ev = "Obs" /\ Trace[j].node = "seq" THEN Trace[j] ELSE NextObs(j + 1, budget - 1)
TxsOf(o, h) == LET S == {i \in 1 .. Len(o.blocks) : o.blocks[i].h = h} IN
               IF S = {} THEN <<"?">> ELSE o.blocks[CHOOSE i \in S : TRUE].txs
KindOf(h) == LET t == TxsOf(NextObs(l + 1, 80), h) IN IF t = <<>> THEN "none" ELSE ToString(t)

SInit == Init /\ l = 1 /\ run = "" /\ drifted = FALSE /\ drift = <<>>

SReset ==
    /\ l <= N /\ e.ev = "Reset"
    /\ l' = l + 1 /\ run' = e.run /\ drift' = drift
    /\ drifted' = (e.ih # IH \/ e.limit # L)
    /\ height' = IH - 1 /\ txk' = [h \in IH .. MaxH |-> "none"]
    /\ wmH' = Base /\ wmD' = Base /\ dwmH' = Base /\ dwmD' = Base
    /\ accH' = {} /\ accD' = {} /\ markH' = {} /\ markD' = {} /\ fileH' = {} /\ fileD' = {}
    /\ incl' = Base /\ dincl' = Base /\ finalLog' = <<>>
    /\ pcH' = "idle" /\ pcD' = "idle" /\ pcI' = "idle" /\ remH' = <<>> /\ remD' = <<>>
    /\ replies' = 0 /\ crashes' = 0 /\ refused' = 0 /\ up' = FALSE /\ hist' = hist

\* ---------------------------------------------------------------- process life cycle
SRestart == Is("Restart") /\ e.ok /\ Adv /\ (IF up THEN Same ELSE Restart)
SStop ==
    /\ Is("Stop") /\ Adv
    /\ IF ~up THEN Same ELSE IF e.clean THEN CleanStop ELSE Crash
SCrash == Is("Crash") /\ Adv /\ (IF up THEN Crash ELSE Same)

\* ---------------------------------------------------------------- production
SStepEnd ==
    /\ Is("StepEnd") /\ Adv
    /\ IF e.h1 = e.h0 + 1 /\ up THEN e.h0 = height /\ Produce(KindOf(e.h1)) ELSE Same

\* A loop takes its snapshot of pending items when it wakes up, which leaves no record; the snapshot shows in the
\* blobs it offers later.  Blocks may have been produced in between, so the snapshot is SnapH / SnapD of
\* Submitter.tla evaluated at the chain height k of that earlier moment (Produce and Snap commute: the behaviour
\* with the snapshot taken before those Produce steps is a behaviour of Submitter.tla ending in the same state).
LastOffered == Offered[Len(Offered)]
SnapMatchH == wmH + 1 >= IH /\ LastOffered <= height /\ Offered = Range(wmH + 1, LastOffered)
SnapHAt ==
    /\ up /\ pcH = "idle" /\ SnapMatchH
    /\ remH' = Offered /\ pcH' = "try"
    /\ UNCHANGED <<height, txk, wmH, wmD, dwmH, dwmD, accH, accD, markH, markD, fileH, fileD, incl, dincl, finalLog, pcD, pcI, remD, replies, crashes, refused, up, hist>>
SnapMatchD == wmD + 1 >= IH /\ LastOffered <= height /\ Offered = NonEmptyIn(wmD + 1, LastOffered)
SnapDAt ==
    /\ up /\ pcD = "idle" /\ SnapMatchD
    /\ remD' = Offered /\ pcD' = "try"
    /\ UNCHANGED <<height, txk, wmH, wmD, dwmH, dwmD, accH, accD, markH, markD, fileH, fileD, incl, dincl, finalLog, pcH, pcI, remH, replies, crashes, refused, up, hist>>
\* the first half of SnapD: the data loop woke up and moved its watermark over leading empty blocks (one durable write)
SkipDTo(h) ==
    /\ up /\ pcD = "idle" /\ h > wmD /\ h <= height
    /\ \A x \in (Max(wmD, IH - 1) + 1) .. h : IsEmpty(x)
    /\ wmD' = h /\ dwmD' = h
    /\ UNCHANGED <<height, txk, wmH, dwmH, accH, accD, markH, markD, fileH, fileD, incl, dincl, finalLog, pcH, pcD, pcI, remH, remD, replies, crashes, refused, up, hist>>

\* ---------------------------------------------------------------- submission passes
SSubmitH ==
    /\ IsSubmit("hdr") /\ Adv
    /\ pcH = "try" /\ remH = Offered
    /\ AttemptH(e.acc, Ack("hdr"))
SSubmitD ==
    /\ IsSubmit("data") /\ Adv
    /\ pcD = "try" /\ remD = Offered
    /\ AttemptD(e.acc, Ack("data"))
\* a submission of the dying process that reaches the DA layer after the crash point was logged (the crash is a
\* write fuse; another goroutine of the same process may still be inside a DA call): in the model it is the
\* lost-acknowledgement attempt Attempt(n, FALSE) taken just before Crash - only the DA layer's content changes
SLateSubmit ==
    /\ l <= N /\ ~drifted /\ e.ev = "DASubmit" /\ Len(e.blobs) > 0 /\ ~up /\ Adv
    /\ accH' = IF e.blobs[1].kind = "hdr" THEN accH \cup {Offered[i] : i \in 1 .. e.acc} ELSE accH
    /\ accD' = IF e.blobs[1].kind = "data" THEN accD \cup {Offered[i] : i \in 1 .. e.acc} ELSE accD
    /\ UNCHANGED <<height, txk, wmH, wmD, dwmH, dwmD, markH, markD, fileH, fileD, incl, dincl, finalLog, pcH, pcD, pcI, remH, remD, replies, crashes, refused, up, hist>>
SSubmitNone == l <= N /\ ~drifted /\ Ready /\ e.ev = "DASubmit" /\ Len(e.blobs) = 0 /\ Adv /\ Same

SKV ==
    /\ Is("KV") /\ Adv
    /\ \/ /\ e.kind = "meta" /\ e.key = "last-submitted-header-height"
          /\ IF pcH \in BookPcs THEN BookH /\ dwmH' = e.h ELSE e.h = dwmH /\ Same        \* the second half of postSubmit
       \/ /\ e.kind = "meta" /\ e.key = "last-submitted-data-height" /\ pcD \in BookPcs
          /\ BookD /\ dwmD' = e.h
       \/ /\ e.kind = "meta" /\ e.key = "last-submitted-data-height" /\ pcD \notin BookPcs /\ e.h = dwmD /\ Same
       \/ /\ e.kind = "meta" /\ e.key = "last-submitted-data-height" /\ pcD \notin BookPcs /\ e.h > dwmD
          /\ SkipDTo(e.h)
       \/ /\ e.kind = "meta" /\ e.key = "d"
          /\ e.h = incl + 1 /\ Persist
       \/ /\ ~(e.kind = "meta" /\ e.key \in {"last-submitted-header-height", "last-submitted-data-height", "d"})
          /\ Same

SFinal ==
    /\ Is("ExecFinal") /\ Adv
    /\ IF e.ok THEN e.h = incl + 1 /\ Finalize ELSE Same

\* ---------------------------------------------------------------- silent actions (guarded by the next record)
SSilent ==
    /\ l <= N /\ ~drifted /\ UNCHANGED xvars
    /\ \/ pcI = "persisted" /\ Publish
       \/ IsSubmit("hdr") /\ pcH = "try" /\ remH # Offered /\ SnapMatchH /\ GiveUpH
       \/ IsSubmit("hdr") /\ SnapHAt
       \/ IsSubmit("data") /\ pcD = "try" /\ remD # Offered /\ SnapMatchD /\ GiveUpD
       \/ IsSubmit("data") /\ SnapDAt
       \* a pass that ended without another offer (its last attempt was answered "canceled"): the next pass begins by
       \* moving the watermark over leading empty blocks - that write is the next record
       \/ /\ Ready /\ e.ev = "KV" /\ e.kind = "meta" /\ e.key = "last-submitted-data-height" /\ pcD = "try" /\ e.h > dwmD
          /\ GiveUpD

\* ---------------------------------------------------------------- projection
MarkHs(o) == {o.mH[i].h : i \in 1 .. Len(o.mH)}
MarkDs(o) == {txk[o.mD[i].h] : i \in 1 .. Len(o.mD)}
ObsOK(o) ==
    /\ o.height = height
    /\ o.up = up
    /\ MaxOf(o.durSubH, Base) = dwmH /\ MaxOf(o.durSubD, Base) = dwmD
    /\ MaxOf(o.durIncl, Base) = dincl
    /\ up => /\ o.subH = wmH /\ o.subD = wmD /\ o.incl = incl
             /\ MarkHs(o) = markH
             /\ MarkDs(o) = markD
SObs == Is("Obs") /\ Adv /\ Same /\ ObsOK(e)

Quiet == {"Reset", "Restart", "Stop", "Crash", "StepEnd", "DASubmit", "KV", "ExecFinal", "Obs"}
SOther == l <= N /\ ~drifted /\ Ready /\ (e.ev \notin Quiet \/ ~OnSeq) /\ Adv /\ Same

Strict == SRestart \/ SStop \/ SCrash \/ SStepEnd \/ SSubmitH \/ SSubmitD \/ SLateSubmit \/ SSubmitNone \/ SKV \/ SFinal \/ SSilent \/ SObs \/ SOther

SDrift ==
    /\ l <= N /\ ~drifted /\ e.ev # "Reset" /\ ~ENABLED Strict
    /\ drifted' = TRUE /\ l' = l + 1 /\ run' = run
    /\ drift' = Append(drift, [l |-> l, run |-> run, ev |-> e.ev, pc |-> pcH \o "/" \o pcD \o "/" \o pcI, height |-> height])
    /\ Same
SSkip == l <= N /\ drifted /\ e.ev # "Reset" /\ l' = l + 1 /\ UNCHANGED <<run, drifted, drift>> /\ Same

SNext == SReset \/ Strict \/ SDrift \/ SSkip
SSpec == SInit /\ [][SNext]_svars
Finish == (l = N + 1) => ndJsonSerialize("drift.ndjson", drift)
Consumed == TLCGet("stats").diameter >= N + 1
==============================================================================
