SPECIFICATION Spec
CONSTANTS
  Contents = {1, 2}
  Bound = 2
  MaxOps = 5
  MaxCrashes = 1
  KeyBySeq = FALSE
  MaxFails = 1
  KeepOnFail = TRUE
INVARIANTS FifoNoCrash PendingExact Durable BoundRespected KeysUnique
CHECK_DEADLOCK FALSE
