SPECIFICATION Spec
INVARIANTS CountSound OnlySuccessCounts
CHECK_DEADLOCK FALSE
