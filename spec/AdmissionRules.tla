----------------------------- MODULE AdmissionRules ------------------------
(***************************************************************************)
(* Tier I for C03: who can put a header or transaction data into a full    *)
(* node, and what a node may execute.                                      *)
(*                                                                         *)
(* An offer is described by what the admission code looks at               *)
(* (types/signed_header.go ValidateBasic / Validate, block/manager.go      *)
(* isUsingExpectedSingleSequencer / isValidSignedData, block/retriever.go  *)
(* handlePotentialHeader / handlePotentialData, block/store.go polling     *)
(* loops, block/sync.go application):                                      *)
(*   addr   the proposer address written in the header                     *)
(*   sAddr  the address of the signer record carried beside it             *)
(*   key    the public key of the signer record ("none": absent)           *)
(*   sig    who made the signature, and over which bytes ("these": the     *)
(*          item's own signing payload; "other": some other payload, e.g.  *)
(*          a signature copied from the genuine item onto changed fields)  *)
(*   body   whether the signed content is the proposer's own content for   *)
(*          that height                                                    *)
(* The adversary owns key "A" and can write any field; it cannot produce a *)
(* signature of key "P" over bytes the proposer never signed (Possible).   *)
(*                                                                         *)
(* Deviation switches (each must make TLC fail):                           *)
(*   KeyBinding = FALSE   the pinned tree before the fix: the key carried  *)
(*                        in the item was not bound to the proposer        *)
(*                        address, so anybody could sign under it          *)
(*   SignerlessOK         a header without signer record passes the hook   *)
(*                        the P2P layer calls (seeded change C03e)         *)
(*   SkipIfSeen           the signature of a header whose hash was already *)
(*                        seen is not checked again (seeded change C03)    *)
(***************************************************************************)
EXTENDS Naturals, FiniteSets
CONSTANTS KeyBinding, SignerlessOK, SkipIfSeen

Who == {"P", "A"}
Keys == {"P", "A", "none"}
Sigs == [by : {"P", "A", "junk", "none"}, over : {"these", "other"}]
HOffers == [addr : Who, sAddr : Who \cup {"none"}, key : Keys, sig : Sigs, body : {"genuine", "other"}]
DOffers == [sAddr : Who \cup {"none"}, key : Keys, sig : Sigs, body : {"genuine", "other", "empty"}]

\* what can exist at all: the proposer signs only its own content, under its own address
PossibleH(o) == (o.sig.by = "P" /\ o.sig.over = "these") => (o.body = "genuine" /\ o.addr = "P")
PossibleD(o) == (o.sig.by = "P" /\ o.sig.over = "these") => o.body = "genuine"

\* ---- the checks, as the code makes them --------------------------------------------------------
SigVerifies(o) == o.key # "none" /\ o.sig.by = o.key /\ o.sig.over = "these"    \* PubKey.Verify(payload, signature)
HeaderBasic(o) ==                                                              \* SignedHeader.ValidateBasic
    /\ o.sig.by # "none"                                                       \* Signature.ValidateBasic: not empty
    /\ o.addr = o.sAddr                                                        \* ProposerAddress = Signer.Address
    /\ (KeyBinding => (o.key # "none" /\ o.key = o.sAddr))                     \* KeyAddress(Signer.PubKey) = Signer.Address
    /\ SigVerifies(o)
HeaderHook(o) == IF SignerlessOK /\ o.key = "none" THEN TRUE ELSE HeaderBasic(o)   \* SignedHeader.Validate (go-header's hook)
Expected(o) == o.addr = "P" /\ HeaderBasic(o)                                  \* isUsingExpectedSingleSequencer

AdmitDAWhen(o, seenGenuine) == IF SkipIfSeen /\ seenGenuine /\ o.body = "genuine" /\ o.addr = "P" THEN TRUE
              ELSE HeaderBasic(o) /\ Expected(o)                                \* handlePotentialHeader
AdmitP2P(o) == Expected(o)                                                     \* HeaderStoreRetrieveLoop
AdmitLight(o) == HeaderHook(o) /\ o.addr = "P"                                  \* the header sync service (light node): hook + proposer
AdmitData(o) ==                                                                \* handlePotentialData / isValidSignedData
    /\ o.body # "empty"
    /\ o.sAddr = "P"
    /\ (KeyBinding => o.key = "P")
    /\ SigVerifies(o)

\* ---- the adversary classes of the harness (drivers/adversary.go), as offers ---------------------
Sg(by, over) == [by |-> by, over |-> over]
ClassH == [
  A1same |-> [addr |-> "P", sAddr |-> "P", key |-> "A", sig |-> Sg("A", "these"), body |-> "genuine"],
  A1alt  |-> [addr |-> "P", sAddr |-> "P", key |-> "A", sig |-> Sg("A", "these"), body |-> "other"],
  A1time |-> [addr |-> "P", sAddr |-> "P", key |-> "A", sig |-> Sg("A", "these"), body |-> "other"],
  A3     |-> [addr |-> "P", sAddr |-> "P", key |-> "P", sig |-> Sg("P", "other"), body |-> "other"],
  A3g    |-> [addr |-> "P", sAddr |-> "P", key |-> "P", sig |-> Sg("junk", "these"), body |-> "genuine"],
  A4     |-> [addr |-> "P", sAddr |-> "P", key |-> "P", sig |-> Sg("none", "these"), body |-> "genuine"],
  A4ns   |-> [addr |-> "P", sAddr |-> "none", key |-> "none", sig |-> Sg("none", "these"), body |-> "genuine"],
  A5     |-> [addr |-> "P", sAddr |-> "P", key |-> "A", sig |-> Sg("A", "these"), body |-> "other"],
  A5own  |-> [addr |-> "A", sAddr |-> "A", key |-> "A", sig |-> Sg("A", "these"), body |-> "other"],
  A8adv  |-> [addr |-> "P", sAddr |-> "P", key |-> "A", sig |-> Sg("A", "these"), body |-> "other"],
  A8uns  |-> [addr |-> "P", sAddr |-> "P", key |-> "P", sig |-> Sg("none", "these"), body |-> "other"],
  A8gar  |-> [addr |-> "P", sAddr |-> "P", key |-> "P", sig |-> Sg("junk", "these"), body |-> "other"] ]
ClassD == [
  D1     |-> [sAddr |-> "P", key |-> "A", sig |-> Sg("A", "these"), body |-> "other"],
  D1same |-> [sAddr |-> "P", key |-> "A", sig |-> Sg("A", "these"), body |-> "genuine"],
  D3     |-> [sAddr |-> "P", key |-> "P", sig |-> Sg("P", "other"), body |-> "other"],
  D4     |-> [sAddr |-> "P", key |-> "P", sig |-> Sg("none", "these"), body |-> "genuine"] ]
=============================================================================
