---- MODULE Loops_TTrace_1790370389 ----
EXTENDS Sequences, TLCExt, Toolbox, Naturals, TLC, Loops

_expression ==
    LET Loops_TEExpression == INSTANCE Loops_TEExpression
    IN Loops_TEExpression!expression
----

_trace ==
    LET Loops_TETrace == INSTANCE Loops_TETrace
    IN Loops_TETrace!trace
----

_inv ==
    ~(
        TLCGet("level") = Len(_TETrace)
        /\
        pc = ([retrieve |-> "waiting", hstore |-> "waiting", includer |-> "waiting", sync |-> "waiting", aggregation |-> "delay"])
        /\
        cancelled = (TRUE)
        /\
        delayLeft = (1)
        /\
        chan = (0)
    )
----

_init ==
    /\ cancelled = _TETrace[1].cancelled
    /\ delayLeft = _TETrace[1].delayLeft
    /\ pc = _TETrace[1].pc
    /\ chan = _TETrace[1].chan
----

_next ==
    /\ \E i,j \in DOMAIN _TETrace:
        /\ \/ /\ j = i + 1
              /\ i = TLCGet("level")
        /\ cancelled  = _TETrace[i].cancelled
        /\ cancelled' = _TETrace[j].cancelled
        /\ delayLeft  = _TETrace[i].delayLeft
        /\ delayLeft' = _TETrace[j].delayLeft
        /\ pc  = _TETrace[i].pc
        /\ pc' = _TETrace[j].pc
        /\ chan  = _TETrace[i].chan
        /\ chan' = _TETrace[j].chan

\* Uncomment the ASSUME below to write the states of the error trace
\* to the given file in Json format. Note that you can pass any tuple
\* to `JsonSerialize`. For example, a sub-sequence of _TETrace.
    \* ASSUME
    \*     LET J == INSTANCE Json
    \*         IN J!JsonSerialize("Loops_TTrace_1790370389.json", _TETrace)

=============================================================================

 Note that you can extract this module `Loops_TEExpression`
  to a dedicated file to reuse `expression` (the module in the 
  dedicated `Loops_TEExpression.tla` file takes precedence 
  over the module `Loops_TEExpression` below).

---- MODULE Loops_TEExpression ----
EXTENDS Sequences, TLCExt, Toolbox, Naturals, TLC, Loops

expression == 
    [
        \* To hide variables of the `Loops` spec from the error trace,
        \* remove the variables below.  The trace will be written in the order
        \* of the fields of this record.
        cancelled |-> cancelled
        ,delayLeft |-> delayLeft
        ,pc |-> pc
        ,chan |-> chan
        
        \* Put additional constant-, state-, and action-level expressions here:
        \* ,_stateNumber |-> _TEPosition
        \* ,_cancelledUnchanged |-> cancelled = cancelled'
        
        \* Format the `cancelled` variable as Json value.
        \* ,_cancelledJson |->
        \*     LET J == INSTANCE Json
        \*     IN J!ToJson(cancelled)
        
        \* Lastly, you may build expressions over arbitrary sets of states by
        \* leveraging the _TETrace operator.  For example, this is how to
        \* count the number of times a spec variable changed up to the current
        \* state in the trace.
        \* ,_cancelledModCount |->
        \*     LET F[s \in DOMAIN _TETrace] ==
        \*         IF s = 1 THEN 0
        \*         ELSE IF _TETrace[s].cancelled # _TETrace[s-1].cancelled
        \*             THEN 1 + F[s-1] ELSE F[s-1]
        \*     IN F[_TEPosition - 1]
    ]

=============================================================================



Parsing and semantic processing can take forever if the trace below is long.
 In this case, it is advised to uncomment the module below to deserialize the
 trace from a generated binary file.

\*
\*---- MODULE Loops_TETrace ----
\*EXTENDS IOUtils, TLC, Loops
\*
\*trace == IODeserialize("Loops_TTrace_1790370389.bin", TRUE)
\*
\*=============================================================================
\*

---- MODULE Loops_TETrace ----
EXTENDS TLC, Loops

trace == 
    <<
    ([pc |-> [retrieve |-> "waiting", hstore |-> "waiting", includer |-> "waiting", sync |-> "waiting", aggregation |-> "delay"],cancelled |-> FALSE,delayLeft |-> 2,chan |-> 0]),
    ([pc |-> [retrieve |-> "waiting", hstore |-> "waiting", includer |-> "waiting", sync |-> "waiting", aggregation |-> "delay"],cancelled |-> TRUE,delayLeft |-> 2,chan |-> 0]),
    ([pc |-> [retrieve |-> "waiting", hstore |-> "waiting", includer |-> "waiting", sync |-> "waiting", aggregation |-> "delay"],cancelled |-> TRUE,delayLeft |-> 1,chan |-> 0])
    >>
----


=============================================================================

---- CONFIG Loops_TTrace_1790370389 ----
CONSTANTS
    Producers = { "retrieve" , "hstore" }
    Others = { "includer" }
    Cap = 1
    GenesisInFuture = TRUE
    DelayIgnoresCancel = FALSE
    SendIgnoresCancel = FALSE

INVARIANT
    _inv

CHECK_DEADLOCK
    \* CHECK_DEADLOCK off because of PROPERTY or INVARIANT above.
    FALSE

INIT
    _init

NEXT
    _next

CONSTANT
    _TETrace <- _trace

ALIAS
    _expression
=============================================================================
\* Generated on Fri Sep 25 21:06:30 UTC 2026