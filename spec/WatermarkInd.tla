---------------------------- MODULE WatermarkInd ----------------------------
(***************************************************************************)
(* Unbounded-safety companion of Submitter.tla / World.tla for Apalache:   *)
(* the acknowledged-watermark discipline of block/submitter.go +           *)
(* block/pending_base.go and the DA-inclusion counter of                   *)
(* block/da_includer.go, reduced to integers.  A pass offers the headers   *)
(* wm+1..height in order; the DA layer keeps a prefix of n of them (so the *)
(* set of heights it holds is 1..held); only an ACKNOWLEDGED acceptance    *)
(* moves the watermark, by exactly n; the durable copy follows the memory  *)
(* copy; a restart reloads the durable copy; the DA-included height        *)
(* advances one at a time and only below the watermark, persist-before-    *)
(* publish.  IndInv is inductive (checked by Apalache: Init => IndInv,     *)
(* IndInv /\ Next => IndInv'), hence the safety part of C06 / C07 holds    *)
(* for chains of ANY length and ANY reply / crash / restart sequence.      *)
(***************************************************************************)
EXTENDS Integers

VARIABLES
    \* @type: Int;
    height,
    \* @type: Int;
    wm,
    \* @type: Int;
    dwm,
    \* @type: Int;
    held,
    \* @type: Int;
    incl,
    \* @type: Int;
    dincl

Init == height = 0 /\ wm = 0 /\ dwm = 0 /\ held = 0 /\ incl = 0 /\ dincl = 0

Produce == height' = height + 1 /\ UNCHANGED <<wm, dwm, held, incl, dincl>>

Max(a, b) == IF a > b THEN a ELSE b

\* one attempt: the DA layer now holds 1 .. max(held, wm+n); ack = the node learns it
Attempt(n, ack) ==
    /\ n >= 0 /\ n <= height - wm
    /\ held' = Max(held, wm + n)
    /\ IF ack THEN wm' = wm + n ELSE wm' = wm
    /\ UNCHANGED <<height, dwm, incl, dincl>>

\* the durable watermark is written after the in-memory one
Persist == dwm' = wm /\ UNCHANGED <<height, wm, held, incl, dincl>>

\* DA inclusion: next height is below the watermark: finalize + persist, then publish
IncludePersist == /\ dincl = incl /\ incl + 1 <= wm /\ dincl' = incl + 1 /\ UNCHANGED <<height, wm, dwm, held, incl>>
IncludePublish == /\ dincl = incl + 1 /\ incl' = incl + 1 /\ UNCHANGED <<height, wm, dwm, held, dincl>>

\* crash + restart: memory copies are reloaded from the durable ones
Restart == wm' = dwm /\ incl' = dincl /\ UNCHANGED <<height, dwm, held, dincl>>

Next == \/ Produce \/ Persist \/ IncludePersist \/ IncludePublish \/ Restart
        \/ \E n \in 0 .. 64 : Attempt(n, TRUE) \/ Attempt(n, FALSE)

\* C06: the watermark never moves past a height the DA layer does not hold;  C07: neither does the DA-included height
WmSound == wm <= held /\ dwm <= held
InclSound == incl <= held /\ dincl <= held /\ incl <= height

IndInv ==
    /\ height >= 0 /\ wm >= 0 /\ dwm >= 0 /\ held >= 0 /\ incl >= 0 /\ dincl >= 0
    /\ dwm <= wm /\ wm <= held /\ held <= height
    /\ incl <= dincl /\ dincl <= incl + 1
    /\ dincl <= held
\* for the inductive step: an arbitrary state satisfying IndInv
IndInit == /\ height \in Int /\ wm \in Int /\ dwm \in Int /\ held \in Int /\ incl \in Int /\ dincl \in Int
           /\ IndInv
=============================================================================
