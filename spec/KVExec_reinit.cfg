SPECIFICATION Spec
CONSTANTS
  Keys = {"a", "b"}
  Vals = {"1", "2"}
  MaxOps = 3
  InitRecomputes = TRUE
  FinalInRoot = FALSE
  TrustPrevOnEmpty = FALSE
INVARIANTS EqualHistoriesEqualRoots InitIdempotent ReturnedIsCurrent
CHECK_DEADLOCK FALSE
