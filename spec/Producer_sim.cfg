SPECIFICATION Spec
CONSTANTS
  IH = 1
  MaxH = 5
  MaxReplies = 6
  MaxCrashes = 2
  TxLists <- MC_TxListsBig
  GuardEmpty = TRUE
  StateFirst = TRUE
  Rec = TRUE
INVARIANTS ChainValid BlocksFromBatches AgreeAtIdle PublishedCommitted Dump
CHECK_DEADLOCK FALSE
