---------------------------- MODULE KVExec ----------------------------
(***************************************************************************)
(* Tier I model of the reference key-value execution layer                 *)
(* (apps/testapp/kv/kvexecutor.go), two independently driven instances.    *)
(* A block is a sequence of transactions key=value (or malformed); a block *)
(* with a malformed transaction changes nothing; the state root is a       *)
(* function of the key-value map.                                          *)
(* Deviation of the pinned tree kept as a switch:                          *)
(*   FinalInRoot = TRUE  SetFinal writes its height into the keyspace the  *)
(*                       state root is computed over                       *)
(*   InitRecomputes = TRUE  a repeated InitChain returns the root of the   *)
(*                       current state instead of the recorded genesis root*)
(***************************************************************************)
EXTENDS Integers, Sequences, FiniteSets, TLC

CONSTANTS Keys, Vals, MaxOps, FinalInRoot, InitRecomputes
Inst == {1, 2}
TxSet == [k : Keys, v : Vals, bad : {FALSE}] \cup {[k |-> "?", v |-> "?", bad |-> TRUE]}
Blocks == {<<t>> : t \in TxSet} \cup {<<t, u>> : t \in TxSet, u \in TxSet} \cup {<<>>}

VARIABLES kv, fin, hist, genesis, ops,
          initRet      \* per instance: the sequence of roots InitChain has returned
vars == <<kv, fin, hist, genesis, ops, initRet>>

Init == /\ kv = [i \in Inst |-> <<>>] /\ fin = [i \in Inst |-> 0] /\ hist = [i \in Inst |-> <<>>]
        /\ genesis = [i \in Inst |-> <<>>] /\ ops = 0 /\ initRet = [i \in Inst |-> <<>>]

RECURSIVE Apply(_, _)
Apply(m, b) == IF b = <<>> THEN m ELSE Apply((Head(b).k :> Head(b).v) @@ m, Tail(b))
Bad(b) == \E i \in 1 .. Len(b) : b[i].bad
Root(i) == IF FinalInRoot THEN <<kv[i], fin[i]>> ELSE <<kv[i]>>

\* the first InitChain records the root of the state it finds (<<root>>); later ones return the recorded root
InitChain(i) == /\ genesis' = [genesis EXCEPT ![i] = IF @ = <<>> THEN <<Root(i)>> ELSE @]
                /\ initRet' = [initRet EXCEPT ![i] = Append(@, IF genesis[i] = <<>> \/ InitRecomputes THEN Root(i) ELSE genesis[i][1])]
                /\ UNCHANGED <<kv, fin, hist>>
Exec(i, b) == /\ IF Bad(b) THEN UNCHANGED <<kv, hist>>
                 ELSE kv' = [kv EXCEPT ![i] = Apply(@, b)] /\ hist' = [hist EXCEPT ![i] = Append(@, b)]
              /\ UNCHANGED <<fin, genesis, initRet>>
Final(i, h) == /\ fin' = [fin EXCEPT ![i] = h] /\ UNCHANGED <<kv, hist, genesis, initRet>>

Next == /\ ops < MaxOps /\ ops' = ops + 1
        /\ \E i \in Inst : InitChain(i) \/ (\E b \in Blocks : Exec(i, b)) \/ (\E h \in 1 .. 2 : Final(i, h))
Spec == Init /\ [][Next]_vars

\* C15: equal executed-transaction histories give equal roots, whatever was finalized when
EqualHistoriesEqualRoots == hist[1] = hist[2] => Root(1) = Root(2)
\* chain initialization is idempotent: every InitChain of an instance returns what its first one returned
InitIdempotent == \A i \in Inst : \A j \in 1 .. Len(initRet[i]) : initRet[i][j] = initRet[i][1]
==========================================================================
