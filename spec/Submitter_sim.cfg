SPECIFICATION Spec
CONSTANTS
  IH = 1
  MaxH = 5
  L = 0
  MaxReplies = 8
  MaxCrashes = 2
  TxKinds = {"a", "b"}
  SkipEmpty = TRUE
  BaseAtIH = TRUE
  Alias = FALSE
  MarksDurable = TRUE
  SeedDataFromHeader = FALSE
  Rec = TRUE
INVARIANTS WmSound InclBounds Dump
CHECK_DEADLOCK FALSE
