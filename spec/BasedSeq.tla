---------------------------- MODULE BasedSeq ----------------------------
(***************************************************************************)
(* Tier I model of the based sequencer (sequencers/based/sequencer.go      *)
(* GetNextBatch, persistent_pending_txs.go): transactions live on the DA   *)
(* layer; a call first pops the durable carry-over queue up to the size    *)
(* limit, then scans DA heights from the durable scan position, appending  *)
(* what fits and pushing the rest of a height back to the carry-over.      *)
(* A DA height may not exist yet (from the future) or fail transiently.    *)
(*                                                                         *)
(* Deviations of the pinned tree kept as switches (repaired = all TRUE):   *)
(*   AdvanceOnPushBack  the scan position moves past a height whose rest   *)
(*                      was pushed to the carry-over (else: rescanned ->   *)
(*                      duplicates)                                        *)
(*   StopOnFuture       a height from the future stops the scan (else it   *)
(*                      is treated as empty and skipped for good)          *)
(*   CarryBlocksScan    nothing from the DA layer is appended while older  *)
(*                      transactions still wait in the carry-over          *)
(***************************************************************************)
EXTENDS Integers, Sequences, FiniteSets, TLC

CONSTANTS DAContent,   \* sequence over DA heights 1..n of sequences of [id, size]
          Limits, MaxCalls, Drift,
          AdvanceOnPushBack, StopOnFuture, CarryBlocksScan

VARIABLES scan, carry, released, cur, calls, fails, sizesOk
vars == <<scan, carry, released, cur, calls, fails, sizesOk>>

NH == Len(DAContent)
RECURSIVE Flat(_)
Flat(ss) == IF ss = <<>> THEN <<>> ELSE Head(ss) \o Flat(Tail(ss))
Ideal == Flat(DAContent)
SizeOf(s) == IF s = <<>> THEN 0 ELSE LET RECURSIVE Sum(_) Sum(x) == IF x = <<>> THEN 0 ELSE Head(x).size + Sum(Tail(x)) IN Sum(s)

Init == scan = 1 /\ carry = <<>> /\ released = <<>> /\ cur = 0 /\ calls = 0 /\ fails = 0 /\ sizesOk = TRUE

\* the DA layer produces its next height
DAGrow == cur < NH /\ cur' = cur + 1 /\ UNCHANGED <<scan, carry, released, calls, fails, sizesOk>>

\* longest prefix of s that fits into room
RECURSIVE Fit(_, _)
Fit(s, room) == IF s = <<>> \/ Head(s).size > room THEN <<>> ELSE <<Head(s)>> \o Fit(Tail(s), room - Head(s).size)

\* scanning from height h with `room` left, `out` collected so far; result: [out, scan, carry]
RECURSIVE Scan(_, _, _, _, _)
Scan(h, room, out, cr, budget) ==
    IF room <= 0 \/ budget = 0 \/ (CarryBlocksScan /\ cr # <<>>) THEN [out |-> out, scan |-> h, carry |-> cr]
    ELSE IF h > cur THEN (IF StopOnFuture THEN [out |-> out, scan |-> h, carry |-> cr]
                          ELSE Scan(h + 1, room, out, cr, budget - 1))        \* treated as an empty height
    ELSE LET txs == DAContent[h]
             fit == Fit(txs, room - 1)                                          \* the code requires size+tx < limit
         IN IF Len(fit) = Len(txs) THEN Scan(h + 1, room - SizeOf(fit), out \o fit, cr, budget - 1)
            ELSE [out |-> out \o fit, scan |-> IF AdvanceOnPushBack THEN h + 1 ELSE h,
                  carry |-> cr \o SubSeq(txs, Len(fit) + 1, Len(txs))]

GetNext(limit) ==
    /\ calls < MaxCalls /\ calls' = calls + 1
    /\ LET popped == Fit(carry, limit)
           rest == SubSeq(carry, Len(popped) + 1, Len(carry))
           r == Scan(scan, limit - SizeOf(popped), popped, rest, Drift)
       IN /\ released' = released \o r.out /\ scan' = r.scan /\ carry' = r.carry
          /\ sizesOk' = (sizesOk /\ SizeOf(r.out) <= limit)
    /\ UNCHANGED <<cur, fails>>

Next == DAGrow \/ \E lim \in Limits : GetNext(lim)
Spec == Init /\ [][Next]_vars

\* C20: what was released is a prefix of the DA order (each transaction once, in order, none skipped)
IsPrefix(s, t) == Len(s) <= Len(t) /\ \A i \in 1 .. Len(s) : s[i] = t[i]
DAOrderExactlyOnce == IsPrefix(released, Ideal)
SizeBound == sizesOk
=========================================================================
