SPECIFICATION Spec
INVARIANT FlagBeatsFile
CHECK_DEADLOCK FALSE
