package drivers

import (
	"github.com/spf13/viper"
	"sort"
	"fmt"
	"os"
	"reflect"
	"strings"
	"time"

	"github.com/spf13/cobra"
	"github.com/spf13/pflag"

	"github.com/evstack/ev-node/pkg/config"
	"github.com/evstack/ev-node/pkg/genesis"

	"verif/harness/world"
)

type cfgLeaf struct {
	path  string // mapstructure path, dotted
	index [][]int
	kind  string
}

// leaves discovers every leaf option of config.Config by reflection (newly added ones are included).
func cfgLeaves(t reflect.Type, prefix string, idx [][]int, out *[]cfgLeaf) {
	for i := 0; i < t.NumField(); i++ {
		f := t.Field(i)
		if !f.IsExported() {
			continue
		}
		key := f.Tag.Get("mapstructure")
		if key == "-" {
			continue
		}
		if key == "" {
			key = strings.ToLower(f.Name)
		}
		p := key
		if prefix != "" {
			p = prefix + "." + key
		}
		ft := f.Type
		ni := append(append([][]int{}, idx...), f.Index)
		if ft.Kind() == reflect.Ptr {
			ft = ft.Elem()
		}
		if ft == reflect.TypeOf(config.DurationWrapper{}) {
			*out = append(*out, cfgLeaf{p, ni, "duration"})
			continue
		}
		switch ft.Kind() {
		case reflect.Struct:
			cfgLeaves(ft, p, ni, out)
		case reflect.String:
			*out = append(*out, cfgLeaf{p, ni, "string"})
		case reflect.Bool:
			*out = append(*out, cfgLeaf{p, ni, "bool"})
		case reflect.Uint64, reflect.Uint, reflect.Uint32:
			*out = append(*out, cfgLeaf{p, ni, "uint"})
		case reflect.Int, reflect.Int64:
			*out = append(*out, cfgLeaf{p, ni, "int"})
		case reflect.Float64:
			*out = append(*out, cfgLeaf{p, ni, "float"})
		default:
			*out = append(*out, cfgLeaf{p, ni, "other:" + ft.Kind().String()})
		}
	}
}

func leafValue(cfg *config.Config, l cfgLeaf) reflect.Value {
	v := reflect.ValueOf(cfg).Elem()
	for _, ix := range l.index {
		if v.Kind() == reflect.Ptr {
			if v.IsNil() {
				v.Set(reflect.New(v.Type().Elem()))
			}
			v = v.Elem()
		}
		v = v.FieldByIndex(ix)
	}
	if v.Kind() == reflect.Ptr {
		v = v.Elem()
	}
	return v
}

func leafString(cfg *config.Config, l cfgLeaf) string {
	v := leafValue(cfg, l)
	if l.kind == "duration" {
		return v.Interface().(config.DurationWrapper).Duration.String()
	}
	return fmt.Sprint(v.Interface())
}

// setLeaf sets a value class ("F" = file value, "L" = flag value, short / long variants) and returns its text.
func setLeaf(cfg *config.Config, l cfgLeaf, class string, def string) string {
	v := leafValue(cfg, l)
	n := map[string]int{"F": 1, "L": 2, "F2": 3}[class]
	if class == "Z" { // the zero value of the option's type
		v.Set(reflect.Zero(v.Type()))
		return leafString(cfg, l)
	}
	switch l.kind {
	case "string":
		s := []string{"", "file-value-that-is-rather-long-to-change-the-file-length", "flagval", "f2"}[n]
		v.SetString(s)
	case "bool":
		v.SetBool(def != "true") // the only non-default value
	case "uint":
		v.SetUint(uint64(100 + n))
	case "int":
		v.SetInt(int64(100 + n))
	case "float":
		v.SetFloat(float64(n) + 0.5)
	case "duration":
		v.Set(reflect.ValueOf(config.DurationWrapper{Duration: time.Duration(n) * 7 * time.Second}))
	}
	return leafString(cfg, l)
}

func newCmd() *cobra.Command {
	cmd := &cobra.Command{Use: "verif", Run: func(*cobra.Command, []string) {}}
	config.AddGlobalFlags(cmd, "verif")
	config.AddFlags(cmd)
	return cmd
}

// RunConfig (C18): for every leaf option of config.Config (by reflection) and every presence combination
// of default / file / flag, the value Load returns; every registered flag must reach the option it
// names; a saved configuration loads back equal; genesis save / load / validate.
func RunConfig(c *Ctx) error {
	c.Tr.Reset("config", world.F{"driver": "config", "ih": 1})
	var leaves []cfgLeaf
	cfgLeaves(reflect.TypeOf(config.Config{}), "", nil, &leaves)
	home, err := os.MkdirTemp("", "verif-cfg-")
	if err != nil {
		return err
	}
	defer os.RemoveAll(home)
	// which flag names a leaf
	flagOf := map[string]string{}
	var allFlags []string
	probe := newCmd()
	visit := func(f *pflag.Flag) {
		allFlags = append(allFlags, f.Name)
		flagOf[strings.TrimPrefix(f.Name, "rollkit.")] = f.Name
	}
	probe.Flags().VisitAll(visit)
	probe.PersistentFlags().VisitAll(visit)
	load := func(args []string) (config.Config, error) {
		cmd := newCmd()
		if err := cmd.ParseFlags(append([]string{"--home", home}, args...)); err != nil {
			return config.Config{}, err
		}
		return config.Load(cmd)
	}
	writeFile := func(cfg config.Config) error {
		cfg.RootDir = home
		return cfg.SaveAsYaml()
	}
	removeFile := func() { os.RemoveAll(home + "/config") }
	for _, l := range leaves {
		def := config.DefaultConfig
		defText := leafString(&def, l)
		flag, hasFlag := flagOf[l.path]
		for _, src := range []string{"default", "file", "file2", "flag", "file+flag", "default"} {
			removeFile()
			want := defText
			var args []string
			if strings.HasPrefix(src, "file") {
				fc := config.DefaultConfig
				if fc.Instrumentation != nil {
					cp := *fc.Instrumentation
					fc.Instrumentation = &cp
				}
				want = setLeaf(&fc, l, "F", defText)
				if err := writeFile(fc); err != nil {
					c.Tr.Emit("CfgCase", world.F{"field": l.path, "kind": l.kind, "src": src, "want": want, "got": "save-error", "hasflag": hasFlag})
					continue
				}
				if src == "file2" { // a second, shorter file written over the first one
					fc2 := config.DefaultConfig
					if fc2.Instrumentation != nil {
						cp := *fc2.Instrumentation
						fc2.Instrumentation = &cp
					}
					want = setLeaf(&fc2, l, "F2", defText)
					writeFile(fc2)
				}
			}
			if strings.HasSuffix(src, "flag") {
				if !hasFlag {
					continue
				}
				lc := config.DefaultConfig
				if lc.Instrumentation != nil {
					cp := *lc.Instrumentation
					lc.Instrumentation = &cp
				}
				want = setLeaf(&lc, l, "L", defText)
				args = []string{"--" + flag + "=" + want}
			}
			got := "load-error"
			cfg, err := load(args)
			if err == nil {
				got = leafString(&cfg, l)
			}
			c.Tr.Emit("CfgCase", world.F{"field": l.path, "kind": l.kind, "src": src, "want": want, "got": got, "hasflag": hasFlag})
			// the second entry point, LoadFromViper (an application that brings its own viper, bound to the same flags):
			// "the same precedence as Load"
			{
				cmd := newCmd()
				got2 := "load-error"
				if err := cmd.ParseFlags(append([]string{"--home", home}, args...)); err == nil {
					// the caller's viper holds the home directory and exactly the values it was given on the command
					// line (as in the package's own use of this entry point)
					v := viper.New()
					v.Set(config.FlagRootDir, home)
					cmd.Flags().Visit(func(f *pflag.Flag) {
						if f.Name != config.FlagRootDir {
							v.Set(f.Name, f.Value.String())
						}
					})
					if cfg2, err2 := config.LoadFromViper(v); err2 == nil {
						got2 = leafString(&cfg2, l)
					}
				}
				c.Tr.Emit("CfgCase", world.F{"field": l.path, "kind": l.kind, "src": src, "want": want, "got": got2, "hasflag": hasFlag, "via": "viper"})
			}
		}
	}
	// every registered flag reaches the option it names
	leafByPath := map[string]bool{}
	for _, l := range leaves {
		leafByPath[l.path] = true
	}
	for _, f := range allFlags {
		if f == config.FlagRootDir || f == config.FlagSignerPassphrase {
			continue // documented: not options of the configuration structure
		}
		c.Tr.Emit("CfgFlag", world.F{"flag": f, "reaches": leafByPath[strings.TrimPrefix(f, "rollkit.")]})
	}
	// save / load round trip of a configuration with every option changed
	removeFile()
	full := config.DefaultConfig
	if full.Instrumentation != nil {
		cp := *full.Instrumentation
		full.Instrumentation = &cp
	}
	for _, l := range leaves {
		d := config.DefaultConfig
		setLeaf(&full, l, "F", leafString(&d, l))
	}
	rtOK := writeFile(full) == nil
	diff := ""
	if rtOK {
		back, err := load(nil)
		rtOK = err == nil
		for _, l := range leaves {
			if rtOK && leafString(&back, l) != leafString(&full, l) {
				rtOK, diff = false, l.path
			}
		}
	}
	c.Tr.Emit("CfgRoundTrip", world.F{"ok": rtOK, "diff": diff})
	// ... and of configurations in which one option at a time holds the zero value of its type (0, "", false, 0s),
	// which differs from the default for most options: what was written must still be what is read
	for _, l := range leaves {
		removeFile()
		one := config.DefaultConfig
		if one.Instrumentation != nil {
			cp := *one.Instrumentation
			one.Instrumentation = &cp
		}
		d := config.DefaultConfig
		setLeaf(&one, l, "Z", leafString(&d, l))
		ok := writeFile(one) == nil
		diff := ""
		if ok {
			back, err := load(nil)
			ok = err == nil
			for _, l2 := range leaves {
				if ok && leafString(&back, l2) != leafString(&one, l2) {
					ok, diff = false, l2.path
				}
			}
		}
		c.Tr.Emit("CfgRoundTrip", world.F{"ok": ok, "diff": diff + " (zero value of " + l.path + ")"})
	}
	// ... and of configurations in which one option at a time holds a value at the edge of its type's range or
	// granularity (a nanosecond, a fraction of a millisecond, hours + nanoseconds; large and tiny numbers; text
	// that needs quoting in YAML)
	for _, l := range leaves {
		var vals []reflect.Value
		switch l.kind {
		case "duration":
			for _, d := range []time.Duration{1, 999 * time.Microsecond, 1500 * time.Microsecond, 333333333, time.Hour + time.Minute + time.Second + 1, 100*time.Millisecond + 1, 2562047 * time.Hour} {
				vals = append(vals, reflect.ValueOf(config.DurationWrapper{Duration: d}))
			}
		case "uint":
			for _, u := range []uint64{1, 1<<31 - 1, 1<<32 + 1} {
				vals = append(vals, reflect.ValueOf(u))
			}
		case "int":
			for _, i := range []int64{1, -1, 1<<31 - 1} {
				vals = append(vals, reflect.ValueOf(i))
			}
		case "float":
			for _, f := range []float64{0.1, 1e-9, 123456789.125, 1e18} {
				vals = append(vals, reflect.ValueOf(f))
			}
		case "string":
			for _, t := range []string{"a: b", "# not a comment", "'single' \"double\"", " leading and trailing ", "true", "0123", "null", "multi word value", "ünï/cødé:26657"} {
				vals = append(vals, reflect.ValueOf(t))
			}
		}
		for _, val := range vals {
			removeFile()
			one := config.DefaultConfig
			if one.Instrumentation != nil {
				cp := *one.Instrumentation
				one.Instrumentation = &cp
			}
			v := leafValue(&one, l)
			if !val.Type().ConvertibleTo(v.Type()) {
				continue
			}
			v.Set(val.Convert(v.Type()))
			ok := writeFile(one) == nil
			diff := ""
			if ok {
				back, err := load(nil)
				ok = err == nil
				for _, l2 := range leaves {
					if ok && leafString(&back, l2) != leafString(&one, l2) {
						ok, diff = false, l2.path
					}
				}
			}
			c.Tr.Emit("CfgRoundTrip", world.F{"ok": ok, "diff": diff + " (" + l.path + " = " + leafString(&one, l) + ")"})
		}
	}
	// ... and of configurations in which TWO options at a time differ from their defaults, in both value orders (what is
	// done to one option because of another one - a clamp, a derived default - shows only in pairs)
	{
		nbad, npairs, first := 0, 0, ""
		for i := range leaves {
			for j := i + 1; j < len(leaves); j++ {
				for _, classes := range [][2]string{{"F", "F2"}, {"F2", "F"}} {
					removeFile()
					two := config.DefaultConfig
					if two.Instrumentation != nil {
						cp := *two.Instrumentation
						two.Instrumentation = &cp
					}
					d := config.DefaultConfig
					setLeaf(&two, leaves[i], classes[0], leafString(&d, leaves[i]))
					setLeaf(&two, leaves[j], classes[1], leafString(&d, leaves[j]))
					npairs++
					ok := writeFile(two) == nil
					diff := ""
					if ok {
						back, err := load(nil)
						ok = err == nil
						for _, l2 := range leaves {
							if ok && leafString(&back, l2) != leafString(&two, l2) {
								ok, diff = false, l2.path
							}
						}
					}
					if !ok {
						nbad++
						if first == "" {
							first = fmt.Sprintf("%s (with %s = %s, %s = %s)", diff, leaves[i].path, leafString(&two, leaves[i]), leaves[j].path, leafString(&two, leaves[j]))
						}
					}
				}
			}
		}
		c.Tr.Emit("CfgRoundTrip", world.F{"ok": nbad == 0, "diff": fmt.Sprintf("%d of %d option pairs; first: %s", nbad, npairs, first)})
		// ... and a mode switch together with two quantities of the same kind in either order (a relation between
		// two values that only matters in one mode)
		nbad, npairs, first = 0, 0, ""
		for _, b := range leaves {
			if b.kind != "bool" {
				continue
			}
			for i := range leaves {
				for j := i + 1; j < len(leaves); j++ {
					if leaves[i].kind != leaves[j].kind || leaves[i].kind == "bool" || leaves[i].kind == "string" {
						continue
					}
					for _, classes := range [][2]string{{"F", "F2"}, {"F2", "F"}} {
						removeFile()
						three := config.DefaultConfig
						if three.Instrumentation != nil {
							cp := *three.Instrumentation
							three.Instrumentation = &cp
						}
						d := config.DefaultConfig
						setLeaf(&three, b, "F", leafString(&d, b))
						setLeaf(&three, leaves[i], classes[0], leafString(&d, leaves[i]))
						setLeaf(&three, leaves[j], classes[1], leafString(&d, leaves[j]))
						npairs++
						ok := writeFile(three) == nil
						diff := ""
						if ok {
							back, err := load(nil)
							ok = err == nil
							for _, l2 := range leaves {
								if ok && leafString(&back, l2) != leafString(&three, l2) {
									ok, diff = false, l2.path
								}
							}
						}
						if !ok {
							nbad++
							if first == "" {
								first = fmt.Sprintf("%s (with %s = %s, %s = %s, %s = %s)", diff, b.path, leafString(&three, b), leaves[i].path, leafString(&three, leaves[i]), leaves[j].path, leafString(&three, leaves[j]))
							}
						}
					}
				}
			}
		}
		c.Tr.Emit("CfgRoundTrip", world.F{"ok": nbad == 0, "diff": fmt.Sprintf("%d of %d (switch, quantity, quantity) triples; first: %s", nbad, npairs, first)})
	}
	removeFile()
	// the same command object loads, the file is rewritten (every option changed), the same command loads again:
	// the second result is what the second file says (a node that re-reads its configuration, an init followed by
	// a start inside one process)
	{
		cmd := newCmd()
		ok := cmd.ParseFlags([]string{"--home", home}) == nil
		first := config.DefaultConfig
		if first.Instrumentation != nil {
			cp := *first.Instrumentation
			first.Instrumentation = &cp
		}
		for _, l := range leaves {
			d := config.DefaultConfig
			setLeaf(&first, l, "L", leafString(&d, l))
		}
		diff := ""
		if ok && writeFile(first) == nil {
			if _, err := config.Load(cmd); err != nil {
				ok = false
			}
			if ok && writeFile(full) == nil {
				back, err := config.Load(cmd)
				ok = err == nil
				for _, l := range leaves {
					if ok && leafString(&back, l) != leafString(&full, l) {
						ok, diff = false, l.path
					}
				}
			} else {
				ok = false
			}
		} else {
			ok = false
		}
		c.Tr.Emit("CfgRoundTrip", world.F{"ok": ok, "diff": diff + " (second load on the same command)"})
	}
	removeFile()
	// genesis
	g := genesis.NewGenesis("chain-x", 7, time.Unix(1700000000, 0).UTC(), []byte{1, 2, 3, 4})
	gp := home + "/genesis.json"
	gok := g.Save(gp) == nil
	if gok {
		back, err := genesis.LoadGenesis(gp)
		gok = err == nil && back.ChainID == g.ChainID && back.InitialHeight == g.InitialHeight && back.GenesisDAStartTime.Equal(g.GenesisDAStartTime) && string(back.ProposerAddress) == string(g.ProposerAddress)
	}
	c.Tr.Emit("GenRoundTrip", world.F{"ok": gok})
	for i, bad := range []genesis.Genesis{
		genesis.NewGenesis("", 1, time.Now(), []byte{1}),
		genesis.NewGenesis("c", 0, time.Now(), []byte{1}),
		genesis.NewGenesis("c", 1, time.Time{}, []byte{1}),
		genesis.NewGenesis("c", 1, time.Now(), nil),
	} {
		p := fmt.Sprintf("%s/bad%d.json", home, i)
		refused := bad.Validate() != nil
		if bad.Save(p) == nil {
			if _, err := genesis.LoadGenesis(p); err == nil {
				refused = false
			}
		}
		c.Tr.Emit("GenInvalid", world.F{"case": i, "refused": refused})
	}
	// invalid at the file level: every damaged version of a genesis file the node wrote itself
	if good, err := os.ReadFile(gp); err == nil && len(good) > 4 {
		other := genesis.NewGenesis("chain-y", 9, time.Unix(1700000001, 0).UTC(), []byte{9})
		op := home + "/other.json"
		other.Save(op)
		second, _ := os.ReadFile(op)
		cat := func(a []byte, b ...[]byte) []byte {
			out := append([]byte(nil), a...)
			for _, x := range b {
				out = append(out, x...)
			}
			return out
		}
		damaged := map[string][]byte{
			"empty":          {},
			"truncated-half": good[:len(good)/2],
			"truncated-last": good[:len(good)-2],
			"trailing-brace": cat(good, []byte("}")),
			"trailing-text":  cat(good, []byte("\n<<<<<<< HEAD\n")),
			"two-objects":    cat(good, []byte("\n"), second),
			"tail-of-longer": cat(good, second[len(second)/2:]),
			"array":          []byte("[]"),
			"null":           []byte("null"),
			"not-json":       []byte("chain_id = \"chain-x\"\n"),
		}
		names := make([]string, 0, len(damaged))
		for k := range damaged {
			names = append(names, k)
		}
		sort.Strings(names)
		for i, k := range names {
			p := fmt.Sprintf("%s/damaged-%s.json", home, k)
			refused := true
			if os.WriteFile(p, damaged[k], 0o600) == nil {
				if _, err := genesis.LoadGenesis(p); err == nil {
					refused = false
				}
			}
			c.Tr.Emit("GenInvalid", world.F{"case": 100 + i, "name": k, "refused": refused})
		}
	}
	c.Count("options", len(leaves))
	c.Count("flags", len(allFlags))
	return nil
}
