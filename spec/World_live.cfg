SPECIFICATION LiveSpec
CONSTANTS
  MaxH = 2
  MaxDA = 4
  Kinds = {"a"}
PROPERTIES EndToEnd
CHECK_DEADLOCK FALSE
