---- MODULE MCSubmitter_TTrace_1790365677 ----
EXTENDS Sequences, TLCExt, Toolbox, Naturals, TLC, MCSubmitter

_expression ==
    LET MCSubmitter_TEExpression == INSTANCE MCSubmitter_TEExpression
    IN MCSubmitter_TEExpression!expression
----

_trace ==
    LET MCSubmitter_TETrace == INSTANCE MCSubmitter_TETrace
    IN MCSubmitter_TETrace!trace
----

_prop ==
    ~<>[](
        dincl = (2)
        /\
        fileH = ({})
        /\
        fileD = ({})
        /\
        finalLog = (<<1, 2>>)
        /\
        accH = ({1, 2})
        /\
        crashes = (0)
        /\
        accD = ({})
        /\
        hist = (<<>>)
        /\
        remH = (<<>>)
        /\
        up = (TRUE)
        /\
        height = (2)
        /\
        remD = (<<>>)
        /\
        dwmH = (2)
        /\
        refused = (2)
        /\
        dwmD = (0)
        /\
        txk = (<<"none", "none", "none">>)
        /\
        wmD = (0)
        /\
        pcD = ("idle")
        /\
        wmH = (2)
        /\
        pcH = ("idle")
        /\
        replies = (1)
        /\
        markH = ({1, 2})
        /\
        pcI = ("idle")
        /\
        markD = ({})
        /\
        incl = (2)
    )
----

_init ==
    /\ txk = _TETrace[1].txk
    /\ height = _TETrace[1].height
    /\ pcD = _TETrace[1].pcD
    /\ finalLog = _TETrace[1].finalLog
    /\ pcH = _TETrace[1].pcH
    /\ pcI = _TETrace[1].pcI
    /\ fileD = _TETrace[1].fileD
    /\ fileH = _TETrace[1].fileH
    /\ hist = _TETrace[1].hist
    /\ incl = _TETrace[1].incl
    /\ accD = _TETrace[1].accD
    /\ accH = _TETrace[1].accH
    /\ wmD = _TETrace[1].wmD
    /\ markD = _TETrace[1].markD
    /\ wmH = _TETrace[1].wmH
    /\ markH = _TETrace[1].markH
    /\ replies = _TETrace[1].replies
    /\ crashes = _TETrace[1].crashes
    /\ remD = _TETrace[1].remD
    /\ remH = _TETrace[1].remH
    /\ dincl = _TETrace[1].dincl
    /\ up = _TETrace[1].up
    /\ dwmD = _TETrace[1].dwmD
    /\ dwmH = _TETrace[1].dwmH
    /\ refused = _TETrace[1].refused
----

_next ==
    /\ \E i,j \in DOMAIN _TETrace:
        /\ \/ /\ j = i + 1
              /\ i = TLCGet("level")
        /\ txk  = _TETrace[i].txk
        /\ txk' = _TETrace[j].txk
        /\ height  = _TETrace[i].height
        /\ height' = _TETrace[j].height
        /\ pcD  = _TETrace[i].pcD
        /\ pcD' = _TETrace[j].pcD
        /\ finalLog  = _TETrace[i].finalLog
        /\ finalLog' = _TETrace[j].finalLog
        /\ pcH  = _TETrace[i].pcH
        /\ pcH' = _TETrace[j].pcH
        /\ pcI  = _TETrace[i].pcI
        /\ pcI' = _TETrace[j].pcI
        /\ fileD  = _TETrace[i].fileD
        /\ fileD' = _TETrace[j].fileD
        /\ fileH  = _TETrace[i].fileH
        /\ fileH' = _TETrace[j].fileH
        /\ hist  = _TETrace[i].hist
        /\ hist' = _TETrace[j].hist
        /\ incl  = _TETrace[i].incl
        /\ incl' = _TETrace[j].incl
        /\ accD  = _TETrace[i].accD
        /\ accD' = _TETrace[j].accD
        /\ accH  = _TETrace[i].accH
        /\ accH' = _TETrace[j].accH
        /\ wmD  = _TETrace[i].wmD
        /\ wmD' = _TETrace[j].wmD
        /\ markD  = _TETrace[i].markD
        /\ markD' = _TETrace[j].markD
        /\ wmH  = _TETrace[i].wmH
        /\ wmH' = _TETrace[j].wmH
        /\ markH  = _TETrace[i].markH
        /\ markH' = _TETrace[j].markH
        /\ replies  = _TETrace[i].replies
        /\ replies' = _TETrace[j].replies
        /\ crashes  = _TETrace[i].crashes
        /\ crashes' = _TETrace[j].crashes
        /\ remD  = _TETrace[i].remD
        /\ remD' = _TETrace[j].remD
        /\ remH  = _TETrace[i].remH
        /\ remH' = _TETrace[j].remH
        /\ dincl  = _TETrace[i].dincl
        /\ dincl' = _TETrace[j].dincl
        /\ up  = _TETrace[i].up
        /\ up' = _TETrace[j].up
        /\ dwmD  = _TETrace[i].dwmD
        /\ dwmD' = _TETrace[j].dwmD
        /\ dwmH  = _TETrace[i].dwmH
        /\ dwmH' = _TETrace[j].dwmH
        /\ refused  = _TETrace[i].refused
        /\ refused' = _TETrace[j].refused

\* Uncomment the ASSUME below to write the states of the error trace
\* to the given file in Json format. Note that you can pass any tuple
\* to `JsonSerialize`. For example, a sub-sequence of _TETrace.
    \* ASSUME
    \*     LET J == INSTANCE Json
    \*         IN J!JsonSerialize("MCSubmitter_TTrace_1790365677.json", _TETrace)

=============================================================================

 Note that you can extract this module `MCSubmitter_TEExpression`
  to a dedicated file to reuse `expression` (the module in the 
  dedicated `MCSubmitter_TEExpression.tla` file takes precedence 
  over the module `MCSubmitter_TEExpression` below).

---- MODULE MCSubmitter_TEExpression ----
EXTENDS Sequences, TLCExt, Toolbox, Naturals, TLC, MCSubmitter

expression == 
    [
        \* To hide variables of the `MCSubmitter` spec from the error trace,
        \* remove the variables below.  The trace will be written in the order
        \* of the fields of this record.
        txk |-> txk
        ,height |-> height
        ,pcD |-> pcD
        ,finalLog |-> finalLog
        ,pcH |-> pcH
        ,pcI |-> pcI
        ,fileD |-> fileD
        ,fileH |-> fileH
        ,hist |-> hist
        ,incl |-> incl
        ,accD |-> accD
        ,accH |-> accH
        ,wmD |-> wmD
        ,markD |-> markD
        ,wmH |-> wmH
        ,markH |-> markH
        ,replies |-> replies
        ,crashes |-> crashes
        ,remD |-> remD
        ,remH |-> remH
        ,dincl |-> dincl
        ,up |-> up
        ,dwmD |-> dwmD
        ,dwmH |-> dwmH
        ,refused |-> refused
        
        \* Put additional constant-, state-, and action-level expressions here:
        \* ,_stateNumber |-> _TEPosition
        \* ,_txkUnchanged |-> txk = txk'
        
        \* Format the `txk` variable as Json value.
        \* ,_txkJson |->
        \*     LET J == INSTANCE Json
        \*     IN J!ToJson(txk)
        
        \* Lastly, you may build expressions over arbitrary sets of states by
        \* leveraging the _TETrace operator.  For example, this is how to
        \* count the number of times a spec variable changed up to the current
        \* state in the trace.
        \* ,_txkModCount |->
        \*     LET F[s \in DOMAIN _TETrace] ==
        \*         IF s = 1 THEN 0
        \*         ELSE IF _TETrace[s].txk # _TETrace[s-1].txk
        \*             THEN 1 + F[s-1] ELSE F[s-1]
        \*     IN F[_TEPosition - 1]
    ]

=============================================================================



Parsing and semantic processing can take forever if the trace below is long.
 In this case, it is advised to uncomment the module below to deserialize the
 trace from a generated binary file.

\*
\*---- MODULE MCSubmitter_TETrace ----
\*EXTENDS IOUtils, TLC, MCSubmitter
\*
\*trace == IODeserialize("MCSubmitter_TTrace_1790365677.bin", TRUE)
\*
\*=============================================================================
\*

---- MODULE MCSubmitter_TETrace ----
EXTENDS TLC, MCSubmitter

trace == 
    <<
    ([dincl |-> 0,fileH |-> {},fileD |-> {},finalLog |-> <<>>,accH |-> {},crashes |-> 0,accD |-> {},hist |-> <<>>,remH |-> <<>>,up |-> TRUE,height |-> 0,remD |-> <<>>,dwmH |-> 0,refused |-> 0,dwmD |-> 0,txk |-> <<"none", "none", "none">>,wmD |-> 0,pcD |-> "idle",wmH |-> 0,pcH |-> "idle",replies |-> 0,markH |-> {},pcI |-> "idle",markD |-> {},incl |-> 0]),
    ([dincl |-> 0,fileH |-> {},fileD |-> {},finalLog |-> <<>>,accH |-> {},crashes |-> 0,accD |-> {},hist |-> <<>>,remH |-> <<>>,up |-> TRUE,height |-> 1,remD |-> <<>>,dwmH |-> 0,refused |-> 0,dwmD |-> 0,txk |-> <<"none", "none", "none">>,wmD |-> 0,pcD |-> "idle",wmH |-> 0,pcH |-> "idle",replies |-> 0,markH |-> {},pcI |-> "idle",markD |-> {},incl |-> 0]),
    ([dincl |-> 0,fileH |-> {},fileD |-> {},finalLog |-> <<>>,accH |-> {},crashes |-> 0,accD |-> {},hist |-> <<>>,remH |-> <<>>,up |-> TRUE,height |-> 2,remD |-> <<>>,dwmH |-> 0,refused |-> 0,dwmD |-> 0,txk |-> <<"none", "none", "none">>,wmD |-> 0,pcD |-> "idle",wmH |-> 0,pcH |-> "idle",replies |-> 0,markH |-> {},pcI |-> "idle",markD |-> {},incl |-> 0]),
    ([dincl |-> 0,fileH |-> {},fileD |-> {},finalLog |-> <<>>,accH |-> {},crashes |-> 0,accD |-> {},hist |-> <<>>,remH |-> <<1, 2>>,up |-> TRUE,height |-> 2,remD |-> <<>>,dwmH |-> 0,refused |-> 0,dwmD |-> 0,txk |-> <<"none", "none", "none">>,wmD |-> 0,pcD |-> "idle",wmH |-> 0,pcH |-> "try",replies |-> 0,markH |-> {},pcI |-> "idle",markD |-> {},incl |-> 0]),
    ([dincl |-> 0,fileH |-> {},fileD |-> {},finalLog |-> <<>>,accH |-> {1, 2},crashes |-> 0,accD |-> {},hist |-> <<>>,remH |-> <<>>,up |-> TRUE,height |-> 2,remD |-> <<>>,dwmH |-> 2,refused |-> 0,dwmD |-> 0,txk |-> <<"none", "none", "none">>,wmD |-> 0,pcD |-> "idle",wmH |-> 2,pcH |-> "idle",replies |-> 1,markH |-> {1, 2},pcI |-> "idle",markD |-> {},incl |-> 0]),
    ([dincl |-> 0,fileH |-> {},fileD |-> {},finalLog |-> <<>>,accH |-> {1, 2},crashes |-> 0,accD |-> {},hist |-> <<>>,remH |-> <<>>,up |-> TRUE,height |-> 2,remD |-> <<>>,dwmH |-> 2,refused |-> 1,dwmD |-> 0,txk |-> <<"none", "none", "none">>,wmD |-> 0,pcD |-> "idle",wmH |-> 2,pcH |-> "idle",replies |-> 1,markH |-> {1, 2},pcI |-> "idle",markD |-> {},incl |-> 0]),
    ([dincl |-> 0,fileH |-> {},fileD |-> {},finalLog |-> <<>>,accH |-> {1, 2},crashes |-> 0,accD |-> {},hist |-> <<>>,remH |-> <<>>,up |-> TRUE,height |-> 2,remD |-> <<>>,dwmH |-> 2,refused |-> 2,dwmD |-> 0,txk |-> <<"none", "none", "none">>,wmD |-> 0,pcD |-> "idle",wmH |-> 2,pcH |-> "idle",replies |-> 1,markH |-> {1, 2},pcI |-> "idle",markD |-> {},incl |-> 0]),
    ([dincl |-> 0,fileH |-> {},fileD |-> {},finalLog |-> <<1>>,accH |-> {1, 2},crashes |-> 0,accD |-> {},hist |-> <<>>,remH |-> <<>>,up |-> TRUE,height |-> 2,remD |-> <<>>,dwmH |-> 2,refused |-> 2,dwmD |-> 0,txk |-> <<"none", "none", "none">>,wmD |-> 0,pcD |-> "idle",wmH |-> 2,pcH |-> "idle",replies |-> 1,markH |-> {1, 2},pcI |-> "finalized",markD |-> {},incl |-> 0]),
    ([dincl |-> 1,fileH |-> {},fileD |-> {},finalLog |-> <<1>>,accH |-> {1, 2},crashes |-> 0,accD |-> {},hist |-> <<>>,remH |-> <<>>,up |-> TRUE,height |-> 2,remD |-> <<>>,dwmH |-> 2,refused |-> 2,dwmD |-> 0,txk |-> <<"none", "none", "none">>,wmD |-> 0,pcD |-> "idle",wmH |-> 2,pcH |-> "idle",replies |-> 1,markH |-> {1, 2},pcI |-> "persisted",markD |-> {},incl |-> 0]),
    ([dincl |-> 1,fileH |-> {},fileD |-> {},finalLog |-> <<1>>,accH |-> {1, 2},crashes |-> 0,accD |-> {},hist |-> <<>>,remH |-> <<>>,up |-> TRUE,height |-> 2,remD |-> <<>>,dwmH |-> 2,refused |-> 2,dwmD |-> 0,txk |-> <<"none", "none", "none">>,wmD |-> 0,pcD |-> "idle",wmH |-> 2,pcH |-> "idle",replies |-> 1,markH |-> {1, 2},pcI |-> "idle",markD |-> {},incl |-> 1]),
    ([dincl |-> 1,fileH |-> {},fileD |-> {},finalLog |-> <<1, 2>>,accH |-> {1, 2},crashes |-> 0,accD |-> {},hist |-> <<>>,remH |-> <<>>,up |-> TRUE,height |-> 2,remD |-> <<>>,dwmH |-> 2,refused |-> 2,dwmD |-> 0,txk |-> <<"none", "none", "none">>,wmD |-> 0,pcD |-> "idle",wmH |-> 2,pcH |-> "idle",replies |-> 1,markH |-> {1, 2},pcI |-> "finalized",markD |-> {},incl |-> 1]),
    ([dincl |-> 2,fileH |-> {},fileD |-> {},finalLog |-> <<1, 2>>,accH |-> {1, 2},crashes |-> 0,accD |-> {},hist |-> <<>>,remH |-> <<>>,up |-> TRUE,height |-> 2,remD |-> <<>>,dwmH |-> 2,refused |-> 2,dwmD |-> 0,txk |-> <<"none", "none", "none">>,wmD |-> 0,pcD |-> "idle",wmH |-> 2,pcH |-> "idle",replies |-> 1,markH |-> {1, 2},pcI |-> "persisted",markD |-> {},incl |-> 1]),
    ([dincl |-> 2,fileH |-> {},fileD |-> {},finalLog |-> <<1, 2>>,accH |-> {1, 2},crashes |-> 0,accD |-> {},hist |-> <<>>,remH |-> <<>>,up |-> TRUE,height |-> 2,remD |-> <<>>,dwmH |-> 2,refused |-> 2,dwmD |-> 0,txk |-> <<"none", "none", "none">>,wmD |-> 0,pcD |-> "idle",wmH |-> 2,pcH |-> "idle",replies |-> 1,markH |-> {1, 2},pcI |-> "idle",markD |-> {},incl |-> 2])
    >>
----


=============================================================================

---- CONFIG MCSubmitter_TTrace_1790365677 ----
CONSTANTS
    IH = 1
    MaxH = 3
    L = 2
    MaxReplies = 5
    MaxCrashes = 0
    TxKinds = { "a" }
    SkipEmpty = FALSE
    BaseAtIH = TRUE
    Alias = FALSE
    MarksDurable = TRUE
    Rec = FALSE

PROPERTY
    _prop

CHECK_DEADLOCK
    \* CHECK_DEADLOCK off because of PROPERTY or INVARIANT above.
    FALSE

INIT
    _init

NEXT
    _next

CONSTANT
    _TETrace <- _trace

ALIAS
    _expression
=============================================================================
\* Generated on Fri Sep 25 19:48:02 UTC 2026