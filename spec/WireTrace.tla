---------------------------- MODULE WireTrace ----------------------------
(***************************************************************************)
(* Tier M monitor for C12: WCase{type, shape, path, eq, hasheq, sigok,     *)
(* res} is one shape of one wire type taken through one path of the real   *)
(* code (eq = equal up to Wire.tla's normal form and a re-encoding         *)
(* fixpoint; hasheq = hash and commitment unchanged; sigok = validation    *)
(* verdict unchanged / signature still valid); WCommit = commitment        *)
(* properties; WGolden = byte-exact golden vectors of the pinned tree;     *)
(* WMut = a mutated input on which a decoder neither failed cleanly nor    *)
(* produced a re-encoding fixpoint.                                        *)
(***************************************************************************)
EXTENDS Wire, TraceLib
VARIABLES l, run, viol
tvars == <<case, l, run, viol>>
TInit == case = [b |-> "nil", i |-> "zero", t |-> "nil", p |-> "binary"] /\ l = 1 /\ run = "" /\ viol = <<>>
e == Trace[l]
Is(name) == l <= N /\ e.ev = name
Adv == l' = l + 1
TReset == Is("Reset") /\ Adv /\ run' = e.run /\ UNCHANGED <<case, viol>>
TCase == /\ Is("WCase") /\ Adv
         /\ viol' = viol \o Failed(<<
               <<"C12.RoundTrip", e.res = "ok" /\ e.eq, "decode(encode(v)) is not v (up to the normal form), or re-encoding is not a fixpoint">>,
               <<"C12.HashStable", e.res = "ok" => e.hasheq, "hash or data commitment changed across a hop">>,
               <<"C12.SignatureStable", e.res = "ok" => e.sigok, "the signature / validation verdict changed across a hop">>,
               <<"C12.KnownPath", e.path \in Paths, "unknown path">>
               >>, l, run)
         /\ UNCHANGED <<case, run>>
TFlag == /\ (Is("WCommit") \/ Is("WGolden")) /\ Adv
         /\ viol' = viol \o Failed(<<
               <<"C12.Commitment", e.ev = "WCommit" => e.ok, "the data commitment does not depend on exactly the ordered transaction list">>,
               <<"C12.Golden", e.ev = "WGolden" => e.ok, "a fixed value no longer has the bytes / hash it has in the pinned tree">>
               >>, l, run)
         /\ UNCHANGED <<case, run>>
TMut == /\ (Is("WMut") \/ Is("Panic")) /\ Adv
        /\ viol' = viol \o Failed(<< <<"C12.DecoderTotal", FALSE, "a decoder panicked, or accepted bytes whose value does not re-encode and decode to itself">> >>, l, run)
        /\ UNCHANGED <<case, run>>
TOther == l <= N /\ Adv /\ e.ev \notin {"Reset", "WCase", "WCommit", "WGolden", "WMut", "Panic"} /\ UNCHANGED <<case, run, viol>>
TNext == TReset \/ TCase \/ TFlag \/ TMut \/ TOther
TSpec == TInit /\ [][TNext]_tvars
Finish == (l = N + 1) => ndJsonSerialize("viol.ndjson", viol)
Consumed == TLCGet("stats").diameter = N + 1
===========================================================================
