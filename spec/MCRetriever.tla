---------------------------- MODULE MCRetriever ----------------------------
EXTENDS Retriever
MC_Content == [h \in 1 .. 4 |->
    CASE h = 1 -> {[kind |-> "junk", h |-> 0]}
      [] h = 2 -> {}
      [] h = 3 -> {[kind |-> "hdr", h |-> 2], [kind |-> "junk", h |-> 0], [kind |-> "data", h |-> 1]}
      [] h = 4 -> {[kind |-> "hdr", h |-> 1], [kind |-> "data", h |-> 2]}]
\* thorough tier: six DA heights, the two halves of three blocks spread over them, a height with two junk classes
MC_ContentBig == [h \in 1 .. 6 |->
    CASE h = 1 -> {[kind |-> "junk", h |-> 0]}
      [] h = 2 -> {}
      [] h = 3 -> {[kind |-> "hdr", h |-> 2], [kind |-> "junk", h |-> 0], [kind |-> "data", h |-> 1]}
      [] h = 4 -> {[kind |-> "hdr", h |-> 1], [kind |-> "data", h |-> 2]}
      [] h = 5 -> {[kind |-> "junk", h |-> 0], [kind |-> "junk", h |-> 1]}
      [] h = 6 -> {[kind |-> "data", h |-> 3], [kind |-> "hdr", h |-> 3]}]
============================================================================
