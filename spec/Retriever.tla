---------------------------- MODULE Retriever ----------------------------
(***************************************************************************)
(* Tier I model of the DA scan of a syncing node: block/retriever.go       *)
(* (RetrieveLoop, processNextDAHeaderAndData with its bounded retries and  *)
(* the future-height short cut, blob classification) and the listing +     *)
(* chunked fetch of types/da.go RetrieveWithHelpers.                       *)
(* The environment chooses, per fetch attempt on a DA height, one of the   *)
(* outcomes the DA interface allows: the height does not exist yet, the    *)
(* listing fails, an id chunk fails, or the blobs come back.  A height     *)
(* holds a bag of blob classes (genuine header/data of a block, junk).     *)
(***************************************************************************)
EXTENDS Integers, Sequences, FiniteSets, TLC

CONSTANTS Start, Last, MaxFails, Retries, Content   \* Content[h] = set of blob classes at DA height h ({} = nothing)

VARIABLES cursor, attempt, fails, emitted, examined, waiting, last

vars == <<cursor, attempt, fails, emitted, examined, waiting, last>>

Heights == Start .. Last
Genuine(b) == b.kind \in {"hdr", "data"}

Init ==
    /\ cursor = Start /\ attempt = 0 /\ fails = [h \in Heights |-> 0]
    /\ emitted = {} /\ examined = {} /\ waiting = TRUE /\ last = <<0, "none">>

\* a signal (DA ticker, or "blobs found" self-signal) starts processing the cursor height
Signal == /\ waiting /\ cursor <= Last + 1 /\ waiting' = FALSE /\ attempt' = 0
          /\ UNCHANGED <<cursor, fails, emitted, examined, last>>

\* the height is not produced yet: return at once, keep the cursor, wait for the next signal
FetchFuture ==
    /\ ~waiting /\ cursor > Last
    /\ waiting' = TRUE /\ last' = <<cursor, "future">>
    /\ UNCHANGED <<cursor, attempt, fails, emitted, examined>>

\* a transient failure (listing or an id chunk): retry the same height, give up after Retries attempts
FetchFail ==
    /\ ~waiting /\ cursor <= Last /\ fails[cursor] < MaxFails
    /\ fails' = [fails EXCEPT ![cursor] = @ + 1]
    /\ last' = <<cursor, "fail">>
    /\ IF attempt + 1 >= Retries THEN waiting' = TRUE /\ attempt' = 0 ELSE waiting' = FALSE /\ attempt' = attempt + 1
    /\ UNCHANGED <<cursor, emitted, examined>>

\* success: nothing at this height, or every blob is classified (junk is skipped) and the cursor moves on
FetchOk ==
    /\ ~waiting /\ cursor <= Last
    /\ emitted' = emitted \cup {b \in Content[cursor] : Genuine(b)}
    /\ examined' = examined \cup {cursor}
    /\ cursor' = cursor + 1
    /\ last' = <<cursor, "ok">>
    /\ attempt' = 0 /\ waiting' = FALSE        \* blobsFoundCh: go straight on to the next height
    /\ UNCHANGED fails

Next == Signal \/ FetchFuture \/ FetchFail \/ FetchOk
Spec == Init /\ [][Next]_vars
LiveSpec == Spec /\ WF_vars(Signal) /\ WF_vars(FetchOk) /\ WF_vars(FetchFuture)

\* C09
CursorStepsByOne == [][cursor' \in {cursor, cursor + 1}]_vars
AdvanceOnlyAfterOk == [][cursor' = cursor + 1 => (cursor \in examined')]_vars
NoSkip == \A h \in Heights : h < cursor => h \in examined
AllGenuineEmitted == \A h \in examined : \A b \in Content[h] : Genuine(b) => b \in emitted
RetrySame == [][(last[2] \in {"fail", "future"} /\ last' # last) => last'[1] = last[1]]_vars
EventuallyAll == <>(cursor = Last + 1)
==========================================================================
