---------------------------- MODULE StorePoll ----------------------------
(***************************************************************************)
(* Tier I model of a full node's P2P ingress (block/store.go               *)
(* HeaderStoreRetrieveLoop / DataStoreRetrieveLoop): the sync service      *)
(* fills a height-contiguous store starting at the chain's initial height; *)
(* the loop is woken by a ticker or a signal, compares the store's height  *)
(* with its cursor, reads the range cursor+1 .. height item by item and    *)
(* hands it to SyncLoop.  A read may fail transiently; a height below the  *)
(* store's first one can never be read.                                    *)
(*                                                                         *)
(* Deviations kept as switches:                                            *)
(*   MonotoneCursor = FALSE  the cursor is set to the store's height on    *)
(*                    every poll, also when the store is behind it (pinned *)
(*                    tree: the first poll of the still empty store moves  *)
(*                    the cursor from IH-1 to 0; for IH > 1 every later    *)
(*                    range starts below the store's first height)         *)
(*   RetryOnError = FALSE    a failed read still advances the cursor       *)
(*   RestartAtTop = TRUE     a restarted node starts its cursor at the     *)
(*                    store's height instead of its own chain height: what *)
(*                    was handed over but not yet applied when the process *)
(*                    died is never read again                             *)
(*                                                                         *)
(* SyncLoop applies handed heights in order (Apply); a crash + restart     *)
(* (Restart, at most MaxRestarts) forgets what was handed over but not     *)
(* applied - it lived in channels and caches - while the P2P store and the *)
(* chain are durable; the new loop starts its cursor at the chain height.  *)
(***************************************************************************)
EXTENDS Integers, FiniteSets, TLC

CONSTANTS IH, MaxH, MaxFails, MonotoneCursor, RetryOnError, RestartAtTop, MaxRestarts

VARIABLES top,      \* height of the store (0 = empty); it holds IH .. top
          cursor,   \* last height handed to sync
          handed,   \* heights handed to sync
          fails,
          applied,  \* chain height of the node (durable)
          restarts
vars == <<top, cursor, handed, fails, applied, restarts>>

Init == top = 0 /\ cursor = IH - 1 /\ handed = {} /\ fails = 0 /\ applied = IH - 1 /\ restarts = 0

\* the sync service appends the next item
Append == /\ top < MaxH
          /\ top' = IF top = 0 THEN IH ELSE top + 1
          /\ UNCHANGED <<cursor, handed, fails, applied, restarts>>

Readable == cursor + 1 >= IH           \* the store never holds a height below the initial one

\* one wake-up of the loop
PollNothing == /\ top <= cursor
               /\ cursor' = IF MonotoneCursor THEN cursor ELSE top
               /\ UNCHANGED <<top, handed, fails, applied, restarts>>
PollOk == /\ top > cursor /\ Readable
          /\ handed' = handed \cup (cursor + 1) .. top
          /\ cursor' = top
          /\ UNCHANGED <<top, fails, applied, restarts>>
PollFail == /\ top > cursor /\ (~Readable \/ fails < MaxFails)
            /\ fails' = IF Readable THEN fails + 1 ELSE fails
            /\ cursor' = IF RetryOnError THEN cursor ELSE top
            /\ UNCHANGED <<top, handed, applied, restarts>>

\* SyncLoop applies the next height once it was handed over
Apply == /\ applied + 1 \in handed
         /\ applied' = applied + 1
         /\ UNCHANGED <<top, cursor, handed, fails, restarts>>

\* the process dies and starts again: handed-but-unapplied events are gone, the cursor restarts at the chain height
Restart == /\ restarts < MaxRestarts
           /\ restarts' = restarts + 1
           /\ handed' = IH .. applied
           /\ cursor' = IF RestartAtTop THEN (IF top > applied THEN top ELSE applied) ELSE applied
           /\ UNCHANGED <<top, fails, applied>>

Next == Append \/ PollNothing \/ PollOk \/ PollFail \/ Apply \/ Restart
Spec == Init /\ [][Next]_vars
LiveSpec == Spec /\ WF_vars(Append) /\ WF_vars(PollOk) /\ WF_vars(PollNothing) /\ WF_vars(PollFail) /\ WF_vars(Apply)

\* C02 (P2P ingress): the cursor never falls below the chain's base, everything in the store is handed over
CursorAboveBase == cursor >= IH - 1
HandedContiguous == handed = IH .. cursor \/ (handed = {} /\ cursor <= IH - 1)
NothingSkipped == \A h \in IH .. cursor : h \in handed
AllHandedEventually == <>[](handed = IH .. MaxH)
AppliedOnlyHanded == applied <= cursor
AllAppliedEventually == <>[](applied = MaxH)
=============================================================================
