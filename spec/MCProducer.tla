---------------------------- MODULE MCProducer ----------------------------
EXTENDS Producer, Json, IOUtils
MC_TxLists == {<<"a">>, <<"a", "b">>}
MC_TxLists1 == {<<"a">>}
MC_TxListsBig == {<<"a">>, <<"b">>, <<"a", "b">>, <<"c", "a">>}
\* simulation: every state rewrites the behaviour file of the current trace, so the last
\* write of a trace holds its complete list of environment choices
Dump == Rec => ndJsonSerialize(IOEnv.VERIF_BEH_DIR \o "/b_" \o ToString(TLCGet("stats").traces) \o ".ndjson", hist)
\* liveness is checked without cutting cycles: bound only the environment's budget
============================================================================
