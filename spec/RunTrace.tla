---------------------------- MODULE RunTrace ----------------------------
(***************************************************************************)
(* Tier M monitor for the shutdown of a whole node (C13): the real         *)
(* node.FullNode.Run (worker fan-out, error channel, join, service         *)
(* shutdown of node/full.go; tier I: Loops.tla, RunReturns) is asked to    *)
(* stop, or one of its workers is made to fail, while chosen workers wait  *)
(* inside the execution layer.  Records:                                   *)
(*   NodeRun{node, mode}   Run was started                                 *)
(*   NodeGate{node, which, call}  a worker waits inside ExecuteTxs/SetFinal*)
(*   NodeStop{node, how}   stop requested (cancel) / a worker fails        *)
(*   NodeRet{node, ms, hung, boundms}  Run returned after ms, or did not   *)
(*                         return within boundms                           *)
(*   NodeQuiesce{node, h0, height, incl}  a restarted node after running   *)
(*                         for a while: chain height at the restart, now,  *)
(*                         and the DA-included height                      *)
(***************************************************************************)
EXTENDS TraceLib

VARIABLES l, run, started, gates, stopping, viol
vars == <<l, run, started, gates, stopping, viol>>

Init == l = 1 /\ run = "" /\ started = {} /\ gates = {} /\ stopping = {} /\ viol = <<>>
e == Trace[l]
Is(name) == l <= N /\ e.ev = name
Adv == l' = l + 1

TReset == Is("Reset") /\ Adv /\ run' = e.run /\ started' = {} /\ gates' = {} /\ stopping' = {} /\ UNCHANGED viol
TRun == Is("NodeRun") /\ Adv /\ started' = started \cup {e.node} /\ UNCHANGED <<run, gates, stopping, viol>>
TGate == Is("NodeGate") /\ Adv /\ gates' = gates \cup {<<e.node, e.which>>} /\ UNCHANGED <<run, started, stopping, viol>>
TStop == Is("NodeStop") /\ Adv /\ stopping' = stopping \cup {e.node} /\ UNCHANGED <<run, started, gates, viol>>
TRet ==
    /\ Is("NodeRet") /\ Adv
    /\ viol' = viol \o Failed(<<
          <<"C13.NodeShutsDown", (e.node \in stopping) => ~e.hung,
            "the node did not shut down after a stop request / fatal worker error (Run never returned)">>,
          <<"C13.NodeShutsDownPromptly", (e.node \in stopping /\ ~e.hung) => e.ms <= e.boundms,
            "the node took longer than the bound to shut down">>,
          <<"C13.EveryActivityReturned", (~e.hung /\ "inflight" \in DOMAIN e) => e.inflight = 0,
            "Run returned while a call of one of the node's activities into the execution layer was still running (an activity that was not waited for)">> >>, l, run)
    /\ started' = started \ {e.node} /\ stopping' = stopping \ {e.node}
    /\ gates' = {g \in gates : g[1] # e.node}
    /\ UNCHANGED run
\* a node restarted after an orderly stop (during which a DA submission was accepted), left running with an
\* accepting DA layer: the DA-included height must get past every block that existed at the restart (C07)
TQuiesce ==
    /\ Is("NodeQuiesce") /\ Adv
    /\ viol' = viol \o Failed(<<
          <<"C07.InclusionResumesAfterCleanRestart", e.incl >= e.h0,
            "every block that existed at the restart is on the DA layer, but the DA-included height stays below them after an orderly stop and restart">> >>, l, run)
    /\ UNCHANGED <<run, started, gates, stopping>>
TPanic == Is("Panic") /\ Adv /\ viol' = viol \o Failed(<< <<"C13.Panic", FALSE, "panic inside node code">> >>, l, run)
          /\ UNCHANGED <<run, started, gates, stopping>>
TOther == /\ l <= N /\ Adv /\ e.ev \notin {"Reset", "NodeRun", "NodeGate", "NodeStop", "NodeRet", "NodeQuiesce", "Panic"}
          /\ UNCHANGED <<run, started, gates, stopping, viol>>

Next == TReset \/ TRun \/ TGate \/ TStop \/ TRet \/ TQuiesce \/ TPanic \/ TOther
Spec == Init /\ [][Next]_vars
Finish == (l = N + 1) => ndJsonSerialize("viol.ndjson", viol)
Consumed == TLCGet("stats").diameter = N + 1
==========================================================================
