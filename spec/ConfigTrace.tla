---------------------------- MODULE ConfigTrace ----------------------------
(***************************************************************************)
(* Tier M monitor for C18.  CfgCase{field, kind, src, want, got}: one real *)
(* config.Load for one option of config.Config (all options discovered by  *)
(* reflection) in one presence combination; `want` is the text of the      *)
(* value of the source Config.tla's Winner(src) names.  CfgFlag{flag,      *)
(* reaches}: a registered flag and whether an option with the path it      *)
(* names exists.  CfgRoundTrip, GenRoundTrip, GenInvalid.                  *)
(***************************************************************************)
EXTENDS Config, TraceLib
VARIABLES l, run, viol
tvars == <<case, l, run, viol>>
TInit == case = [kind |-> "string", src |-> "default"] /\ l = 1 /\ run = "" /\ viol = <<>>
e == Trace[l]
Is(name) == l <= N /\ e.ev = name
Adv == l' = l + 1
TReset == Is("Reset") /\ Adv /\ run' = e.run /\ UNCHANGED <<case, viol>>
TCase == /\ Is("CfgCase") /\ Adv
         /\ viol' = viol \o Failed(<<
               <<"C18.Precedence", e.got = e.want, "Load did not return the value of the winning source (flag > file > default) for this option">>,
               <<"C18.KnownKind", e.kind \in Kinds, "an option of a kind the check has no value generator for">>
               >>, l, run)
         /\ UNCHANGED <<case, run>>
SignerFlag(f) == f \in {"rollkit.signer.type", "rollkit.signer.path"}
TFlag == /\ Is("CfgFlag") /\ Adv
         /\ viol' = viol \o Failed(<<
               <<"C18.FlagReachesOption", e.reaches \/ SignerFlag(e.flag), "a registered flag names no option of the configuration structure: it is silently ignored">>,
               <<"C18.FlagReachesOption.signer", e.reaches \/ ~SignerFlag(e.flag), "the signer flags (rollkit.signer.type / rollkit.signer.path) strip to signer.type / signer.path but the options are keyed signer_type / signer_path: the flags are silently ignored">>
               >>, l, run)
         /\ UNCHANGED <<case, run>>
TRT == /\ (Is("CfgRoundTrip") \/ Is("GenRoundTrip")) /\ Adv
       /\ viol' = viol \o Failed(<< <<"C18.SaveLoadRoundTrip", e.ok, "a configuration / genesis written to disk did not load back equal">> >>, l, run)
       /\ UNCHANGED <<case, run>>
TGenBad == /\ Is("GenInvalid") /\ Adv
           /\ viol' = viol \o Failed(<< <<"C18.InvalidGenesisRefused", e.refused, "an invalid genesis was accepted">> >>, l, run)
           /\ UNCHANGED <<case, run>>
TOther == l <= N /\ Adv /\ e.ev \notin {"Reset", "CfgCase", "CfgFlag", "CfgRoundTrip", "GenRoundTrip", "GenInvalid"} /\ UNCHANGED <<case, run, viol>>
TNext == TReset \/ TCase \/ TFlag \/ TRT \/ TGenBad \/ TOther
TSpec == TInit /\ [][TNext]_tvars
Finish == (l = N + 1) => ndJsonSerialize("viol.ndjson", viol)
Consumed == TLCGet("stats").diameter = N + 1
=============================================================================
