package drivers

import (
	"encoding/hex"
	"context"
	"errors"
	"fmt"
	mrand "math/rand"
	"sync"
	"time"

	logging "github.com/ipfs/go-log/v2"

	coresequencer "github.com/evstack/ev-node/core/sequencer"
	"github.com/evstack/ev-node/sequencers/single"

	"verif/harness/world"
)

// queueRun drives the real single.Sequencer (and its BatchQueue) on the crash-injecting datastore (C10).
type queueRun struct {
	c     *Ctx
	kv    *world.CrashKV
	seq   *single.Sequencer
	bound int
	ids   *world.TxIDs
	uniq  int
	// prepared holds pre-built batch contents (so that building them does not delay a racing submitter)
	prepared map[string][][]byte
}

func newQueueRun(c *Ctx, run string, bound int) *queueRun {
	c.Tr.Reset(run, world.F{"driver": "queue", "ih": 1, "bound": bound})
	q := &queueRun{c: c, bound: bound, ids: world.NewTxIDs()}
	q.kv = world.NewCrashKV(c.Tr, "seq")
	q.restart(-1)
	return q
}

func (q *queueRun) guard(what string, f func()) (crashed bool) {
	defer func() {
		if r := recover(); r != nil {
			if cs, ok := r.(world.CrashSentinel); ok {
				q.c.Tr.Emit("Crash", world.F{"node": "seq", "at": cs.At, "during": what})
				q.seq = nil
				crashed = true
				return
			}
			q.c.Tr.Emit("Panic", world.F{"node": "seq", "where": what, "msg": fmt.Sprint(r)})
			q.seq = nil
			crashed = true
		}
	}()
	f()
	return false
}

func (q *queueRun) restart(fuse int) {
	q.kv.Disarm()
	if fuse >= 0 {
		q.kv.Arm(fuse)
	}
	var err error
	crashed := q.guard("restart", func() {
		q.seq, err = single.NewSequencerWithQueueSize(context.Background(), logging.Logger("verif-seq"), q.kv, nil, []byte(world.ChainID), time.Second, nil, true, q.bound)
	})
	q.kv.Disarm()
	if crashed {
		return
	}
	q.c.Tr.Emit("QRestart", world.F{"node": "seq", "ok": err == nil, "bound": q.bound})
	if err != nil {
		q.seq = nil
	}
}

func (q *queueRun) content(name string) [][]byte {
	if name == "" {
		return nil
	}
	if pre, ok := q.prepared[name]; ok {
		return pre
	}
	if len(name) > 3 && name[:3] == "big" { // a batch that takes long to hash and encode
		b := make([]byte, 24<<20)
		copy(b, name)
		q.ids.Name(b, name)
		return [][]byte{b, []byte("second-tx-of-" + name)}
	}
	b := []byte("batch-content-" + name)
	q.ids.Name(b, name)
	return [][]byte{b, []byte("second-tx-of-" + name)}
}

// submit offers one batch. who identifies the submitter, grp > 0 marks a concurrent phase.
// refuseWrite as a fuse value: the datastore refuses the operation's write with an error instead of dying.
const refuseWrite = -2

func (q *queueRun) submit(who int, name string, chain string, fuse int, grp int) {
	if q.seq == nil {
		return
	}
	wf := fuse == refuseWrite
	if wf {
		fuse = -1
		q.kv.FailWrite(1)
		defer q.kv.FailWrite(0)
	}
	if fuse >= 0 {
		q.kv.Arm(fuse)
	}
	var err error
	crashed := q.guard("submit", func() {
		_, err = q.seq.SubmitBatchTxs(context.Background(), coresequencer.SubmitBatchTxsRequest{Id: []byte(chain), Batch: &coresequencer.Batch{Transactions: q.content(name)}})
	})
	if fuse >= 0 {
		q.kv.Disarm()
	}
	res := "ok"
	switch {
	case crashed:
		res = "crash"
	case errors.Is(err, single.ErrInvalidId):
		res = "badid"
	case errors.Is(err, single.ErrQueueFull):
		res = "full"
	case err != nil:
		res = "err"
	case name == "":
		res = "empty"
	}
	q.c.Tr.Emit("QSubmit", world.F{"node": "seq", "who": who, "c": name, "k": batchHash(q.content(name)), "res": res, "grp": grp, "wf": wf})
}

func (q *queueRun) next(fuse int) {
	if q.seq == nil {
		return
	}
	wf := fuse == refuseWrite
	if wf { // the datastore refuses the next write (the delete of the record) with an error; no crash
		fuse = -1
		q.kv.FailWrite(1)
		defer q.kv.FailWrite(0)
	}
	if fuse >= 0 {
		q.kv.Arm(fuse)
	}
	var res *coresequencer.GetNextBatchResponse
	var err error
	crashed := q.guard("next", func() {
		res, err = q.seq.GetNextBatch(context.Background(), coresequencer.GetNextBatchRequest{Id: []byte(world.ChainID)})
	})
	if fuse >= 0 {
		q.kv.Disarm()
	}
	c, r, k := "", "ok", ""
	switch {
	case crashed:
		r = "crash"
	case err != nil:
		r = "err"
	case res != nil && res.Batch != nil && len(res.Batch.Transactions) > 0:
		c = q.ids.ID(res.Batch.Transactions[0])
		if len(res.Batch.Transactions) != 2 {
			c = c + "?"
		}
		k = batchHash(res.Batch.Transactions)
	}
	q.c.Tr.Emit("QNext", world.F{"node": "seq", "c": c, "k": k, "res": r, "wf": wf})
}

func (q *queueRun) drain() {
	if q.seq == nil {
		q.restart(-1)
	}
	q.c.Tr.Emit("QDrain", world.F{"node": "seq"})
	for i := 0; i < 12; i++ {
		q.next(-1)
	}
	q.c.Tr.Emit("QEnd", world.F{"node": "seq"})
}

var queueOps = []string{"Sx", "Sy", "Sx", "Sz", "N", "N", "R", "Se", "Sf"}

func (q *queueRun) apply(op string, fuse int) {
	switch op {
	case "N":
		q.next(fuse)
	case "R":
		if fuse == refuseWrite {
			fuse = -1
		}
		q.restart(fuse)
	case "Se":
		q.submit(1, "", world.ChainID, fuse, 0)
	case "Sf":
		q.submit(1, "x", "foreign-chain", fuse, 0)
	default:
		name := op[1:]
		if fuse >= 0 || fuse == refuseWrite { // a submission that may crash / be refused gets unique contents, so that "did it survive" is observable
			q.uniq++
			name = fmt.Sprintf("%s#%d", name, q.uniq)
		}
		q.submit(1, name, world.ChainID, fuse, 0)
	}
	if q.seq == nil {
		q.restart(-1)
	}
}

// RunQueue: all operation sequences up to a length (exhaustive for short ones), a crash at every
// durable-write boundary of sampled sequences, and concurrent submitters.
func RunQueue(c *Ctx) {
	rng := mrand.New(mrand.NewSource(c.Seed + 3))
	alphabet := []string{"Sx", "Sy", "Sz", "N", "R"}
	maxLen := 4
	if c.Thorough() {
		maxLen = 6
	}
	var seqs [][]string
	var gen func(prefix []string)
	gen = func(prefix []string) {
		if len(prefix) > 0 {
			cp := append([]string{}, prefix...)
			seqs = append(seqs, cp)
		}
		if len(prefix) == maxLen {
			return
		}
		for _, a := range alphabet {
			gen(append(prefix, a))
		}
	}
	gen(nil)
	for i, ops := range seqs {
		if len(ops) < maxLen && len(ops) > 2 { // keep all maximal and all very short sequences
			continue
		}
		bound := []int{0, 2, 3}[i%3]
		q := newQueueRun(c, fmt.Sprintf("seq/%d", i), bound)
		for _, op := range ops {
			q.apply(op, -1)
		}
		q.drain()
		c.Count("sequences", 1)
	}
	// crash points: random longer sequences, fuse at every write position of one chosen op
	n := 150
	if c.Thorough() {
		n = 1500
	}
	for r := 0; r < n; r++ {
		l := 3 + rng.Intn(6)
		ops := make([]string, l)
		for i := range ops {
			ops[i] = queueOps[rng.Intn(len(queueOps))]
		}
		at := rng.Intn(l)
		for k := 0; k <= 2; k++ {
			q := newQueueRun(c, fmt.Sprintf("crash/%d/k%d", r, k), []int{0, 2, 4}[r%3])
			for i, op := range ops {
				f := -1
				if i == at {
					f = k
				}
				q.apply(op, f)
			}
			q.drain()
			c.Count("crashruns", 1)
		}
	}
	// refused writes (the datastore returns an error for one write, the process lives on): a take whose record
	// cannot be deleted, a submission whose record cannot be written; then more operations and a restart
	nw := 120
	if c.Thorough() {
		nw = 1200
	}
	for r := 0; r < nw; r++ {
		l := 3 + rng.Intn(6)
		ops := make([]string, l)
		for i := range ops {
			ops[i] = queueOps[rng.Intn(len(queueOps))]
		}
		at := rng.Intn(l)
		if r%2 == 0 { // make sure a take of a non-empty queue is hit often
			ops[0], ops[1] = "Sx", "Sy"
			at = 2 + rng.Intn(l-2)
			ops[at] = "N"
		}
		q := newQueueRun(c, fmt.Sprintf("wfail/%d", r), []int{0, 2, 4}[r%3])
		for i, op := range ops {
			f := -1
			if i == at {
				f = refuseWrite
			}
			q.apply(op, f)
		}
		if r%3 != 0 {
			q.restart(-1)
		}
		q.drain()
		c.Count("wfailruns", 1)
	}
	// a restart with another queue bound than the one the waiting batches were accepted under (an operator changes the
	// setting): smaller than the backlog, equal to it, larger, unlimited
	for bi, b0 := range []int{0, 6, 4} {
		for _, b1 := range []int{1, 2, 3, 5, 0} {
			for _, backlog := range []int{3, 5} {
				if b0 != 0 && backlog > b0 {
					continue
				}
				q := newQueueRun(c, fmt.Sprintf("rebound/%d/b%d-b%d/n%d", bi, b0, b1, backlog), b0)
				q.c.Tr.Emit("QCfg", world.F{"src": "rebound"})
				for i := 0; i < backlog; i++ {
					q.submit(1, fmt.Sprintf("r%d", i), world.ChainID, -1, 0)
				}
				if backlog == 5 {
					q.next(-1)
				}
				q.bound = b1
				q.restart(-1)
				q.submit(1, "after", world.ChainID, -1, 0)
				q.next(-1)
				q.submit(1, "after2", world.ChainID, -1, 0)
				q.drain()
				c.Count("reboundruns", 1)
			}
		}
	}
	// submitters racing for the last slot of a bounded queue, then a restart
	for r := 0; r < 8; r++ {
		q := newQueueRun(c, fmt.Sprintf("race/%d", r), 1+r%2)
		if r%2 == 1 {
			q.submit(1, "pre", world.ChainID, -1, 0)
		}
		bigName, smallName := fmt.Sprintf("big%d", r), fmt.Sprintf("small%d", r)
		q.prepared = map[string][][]byte{bigName: q.content(bigName), smallName: q.content(smallName)}
		var wg sync.WaitGroup
		for who := 1; who <= 2; who++ {
			wg.Add(1)
			go func(who int) {
				defer wg.Done()
				if who == 1 {
					q.submit(who, bigName, world.ChainID, -1, 1)
				} else {
					time.Sleep(3 * time.Millisecond) // the big batch is being hashed / encoded now
					q.submit(who, smallName, world.ChainID, -1, 1)
				}
			}(who)
		}
		wg.Wait()
		q.restart(-1)
		q.drain()
		c.Count("races", 1)
	}
	// concurrent submitters: each submits its own distinct batches in order
	for r := 0; r < 30; r++ {
		q := newQueueRun(c, fmt.Sprintf("conc/%d", r), 0)
		q.submit(1, "pre", world.ChainID, -1, 0)
		var wg sync.WaitGroup
		for who := 1; who <= 3; who++ {
			wg.Add(1)
			go func(who int) {
				defer wg.Done()
				for k := 0; k < 4; k++ {
					q.submit(who, fmt.Sprintf("w%dk%d", who, k), world.ChainID, -1, 1)
				}
			}(who)
		}
		wg.Wait()
		if r%2 == 0 {
			q.restart(-1)
		}
		q.submit(1, "post", world.ChainID, -1, 0)
		q.drain()
		c.Count("concurrent", 1)
	}
}

// batchHash is the content identity the queue itself uses in its database keys (first 10 hex digits).
func batchHash(txs [][]byte) string {
	if len(txs) == 0 {
		return ""
	}
	b := coresequencer.Batch{Transactions: txs}
	h, err := b.Hash()
	if err != nil {
		return "?"
	}
	s := hex.EncodeToString(h)
	if len(s) > 10 {
		s = s[:10]
	}
	return s
}
