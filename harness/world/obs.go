package world

import (
	coreexecutor "github.com/evstack/ev-node/core/execution"
	"bytes"
	"context"
	"encoding/binary"
	"fmt"

	"google.golang.org/protobuf/proto"

	"github.com/evstack/ev-node/pkg/store"
	"github.com/evstack/ev-node/types"
	pb "github.com/evstack/ev-node/types/pb/evnode/v1"
)

// EmptyDataHash is the data hash the node uses for blocks without transactions.
var EmptyDataHash = []byte{110, 52, 11, 156, 255, 179, 122, 152, 156, 165, 68, 230, 187, 120, 10, 44, 120, 144, 29, 63, 179, 55, 56, 118, 133, 17, 163, 6, 23, 175, 160, 29}

// SigClass classifies a header signature with the harness's own copy of the proposer key:
// "P" = made by the genesis proposer's private key over this header, embedded key and
// addresses are the proposer's; "none" = empty; "other" = anything else.
func (w *World) SigClass(h *types.SignedHeader, sig []byte) string {
	if len(sig) == 0 {
		return "none"
	}
	payload, err := types.DefaultSignaturePayloadProvider(&h.Header)
	if err != nil {
		return "other"
	}
	ok, err := w.PropPub.Verify(payload, sig)
	if err != nil || !ok {
		return "other"
	}
	if h.Signer.PubKey == nil || !h.Signer.PubKey.Equals(w.PropPub) {
		return "other"
	}
	if !bytes.Equal(h.ProposerAddress, w.PropAddr) || !bytes.Equal(h.Signer.Address, w.PropAddr) {
		return "other"
	}
	return "P"
}

// DataSigClass classifies a SignedData signature likewise.
func (w *World) DataSigClass(sd *types.SignedData) string {
	if len(sd.Signature) == 0 {
		return "none"
	}
	bz, err := sd.Data.MarshalBinary()
	if err != nil {
		return "other"
	}
	ok, err := w.PropPub.Verify(bz, sd.Signature)
	if err != nil || !ok {
		return "other"
	}
	if sd.Signer.PubKey == nil || !sd.Signer.PubKey.Equals(w.PropPub) || !bytes.Equal(sd.Signer.Address, w.PropAddr) {
		return "other"
	}
	return "P"
}

// ClassifyBlob decodes a DA blob the way a reader that knows the proposer's key would.
func (w *World) ClassifyBlob(b []byte) (rec F) {
	rec = F{"kind": "junk", "h": 0, "hash": "", "sig": "none", "ntx": 0, "txs": []string{}}
	// the classification uses the repository's own decoders; if one of them panics on this blob that is for the node
	// under observation to show, not for the observer to die of
	defer func() {
		if recover() != nil {
			rec = F{"kind": "junk", "h": 0, "hash": "", "sig": "none", "ntx": 0, "txs": []string{}}
		}
	}()
	if len(b) == 0 {
		rec["kind"] = "emptyblob"
		return rec
	}
	var hp pb.SignedHeader
	if proto.Unmarshal(b, &hp) == nil {
		var sh types.SignedHeader
		if sh.FromProto(&hp) == nil && len(sh.ProposerAddress) > 0 && hp.Header != nil {
			rec["kind"] = "hdr"
			rec["h"] = clampInt(sh.Height())
			rec["hash"] = short(sh.Hash().String())
			rec["sig"] = w.SigClass(&sh, sh.Signature)
			return rec
		}
	}
	var sd types.SignedData
	if sd.UnmarshalBinary(b) == nil && (sd.Metadata != nil || len(sd.Txs) > 0) {
		rec["kind"] = "data"
		if sd.Metadata != nil {
			rec["h"] = clampInt(sd.Metadata.Height)
		}
		rec["hash"] = short(sd.Data.DACommitment().String())
		rec["sig"] = w.DataSigClass(&sd)
		rec["ntx"] = len(sd.Txs)
		rec["txs"] = Strs(w.IDs.IDs(txsBytes(sd.Txs)))
		return rec
	}
	return rec
}

func clampInt(v uint64) int {
	if v > 1<<30 {
		return 1 << 30
	}
	return int(v)
}

func txsBytes(t types.Txs) [][]byte {
	out := make([][]byte, len(t))
	for i := range t {
		out[i] = t[i]
	}
	return out
}

func metaU64(st store.Store, key string) int {
	v, err := st.GetMetadata(context.Background(), key)
	if err != nil || len(v) != 8 {
		return 0
	}
	return clampInt(binary.LittleEndian.Uint64(v))
}

// BlockRec projects one stored block.
func (n *Node) BlockRec(h uint64, sh *types.SignedHeader, d *types.Data, storeSig []byte) F {
	w := n.W
	app, appok := n.Exec.RootIDs(sh.AppHash)
	dh := false
	if len(d.Txs) == 0 {
		dh = bytes.Equal(sh.DataHash, EmptyDataHash)
	} else {
		dd := types.Data{Txs: d.Txs}
		dh = bytes.Equal(sh.DataHash, dd.DACommitment())
	}
	meta := "none"
	if d.Metadata != nil {
		if d.Metadata.Height == sh.Height() && d.Metadata.ChainID == sh.ChainID() && d.Metadata.Time == sh.BaseHeader.Time {
			meta = "ok"
		} else {
			meta = "bad"
		}
	}
	ssig := "none"
	if len(storeSig) > 0 {
		if bytes.Equal(storeSig, sh.Signature) {
			ssig = w.SigClass(sh, storeSig)
		} else {
			ssig = "other"
		}
	}
	return F{
		"h": int(h), "hh": clampInt(sh.Height()), "hash": short(sh.Hash().String()), "prev": short(sh.LastHeaderHash.String()),
		"t": Ms(sh.Time()), "txs": Strs(w.IDs.IDs(txsBytes(d.Txs))), "app": Strs(app), "appok": appok, "dh": dh,
		"sig": w.SigClass(sh, sh.Signature), "ssig": ssig, "meta": meta, "cid": sh.ChainID() == ChainID,
		"dc": short(types.Hash(dcommit(d)).String()),
	}
}

func dcommit(d *types.Data) []byte {
	dd := types.Data{Txs: d.Txs}
	return dd.DACommitment()
}

// Obs logs the projection of the node's durable and volatile state through its public API
// (plus the verif accessors). lo..hi bound the block window that is written out in full.
func (n *Node) Obs(tag string) {
	ctx := context.Background()
	w := n.W
	w.Tr.Mute()
	st := n.Store
	if st == nil {
		st = store.New(n.KV)
	}
	height, _ := st.Height(ctx)
	rec := F{"node": n.Opts.Name, "tag": tag, "up": n.M != nil, "height": int(height), "ih": int(w.Genesis.InitialHeight)}
	s, err := st.GetState(ctx)
	if err != nil {
		rec["stOk"] = false
		rec["stH"] = 0
		rec["stRoot"] = []string{}
		rec["stRootOk"] = false
		rec["stT"] = 0
	} else {
		ids, ok := n.Exec.RootIDs(s.AppHash)
		rec["stOk"] = true
		rec["stH"] = int(s.LastBlockHeight)
		rec["stRoot"] = Strs(ids)
		rec["stRootOk"] = ok
		rec["stT"] = Ms(s.LastBlockTime)
	}
	// blocks: every height from InitialHeight up to max(height, highest stored)+0
	blocks := []F{}
	missing := []int{}
	top := height
	for h := height + 1; h <= height+3; h++ {
		if _, _, e := st.GetBlockData(ctx, h); e == nil {
			top = h
		}
	}
	// replay of the stored chain into a fresh instance of the execution layer (when the node runs on a real one)
	var replay coreexecutor.Executor
	var replayRoot []byte
	replayOK := false
	if n.Exec.Fresh != nil {
		replay = n.Exec.Fresh()
		if r, _, e := replay.InitChain(ctx, w.Genesis.GenesisDAStartTime, w.Genesis.InitialHeight, w.Genesis.ChainID); e == nil {
			replayRoot, replayOK = r, true
		}
	}
	var prevData *types.Data
	for h := w.Genesis.InitialHeight; h <= top; h++ {
		sh, d, e := st.GetBlockData(ctx, h)
		if e != nil {
			missing = append(missing, int(h))
			replayOK = false
			prevData = nil
			continue
		}
		var ssig []byte
		if sg, e2 := st.GetSignature(ctx, h); e2 == nil && sg != nil {
			ssig = *sg
		}
		br := n.BlockRec(h, sh, d, ssig)
		// the data's metadata links to the data of the block before it (nothing for the first block)
		br["ldh"] = true
		if d.Metadata != nil {
			if prevData != nil {
				br["ldh"] = bytes.Equal(d.Metadata.LastDataHash, prevData.Hash())
			} else {
				br["ldh"] = len(d.Metadata.LastDataHash) == 0 || h > w.Genesis.InitialHeight
			}
		}
		prevData = d
		// the header's state root is the root a fresh execution layer reports after replaying all earlier blocks
		br["replay"] = "none"
		if replay != nil && replayOK {
			if bytes.Equal(sh.AppHash, replayRoot) {
				br["replay"] = "ok"
			} else {
				br["replay"] = "bad"
			}
			if r, _, e := replay.ExecuteTxs(ctx, txsBytes(d.Txs), h, sh.Time(), replayRoot); e == nil {
				replayRoot = r
			} else {
				replayOK = false
			}
		}
		// hash index consistency
		ih, _, e3 := st.GetBlockByHash(ctx, sh.Hash())
		br["idx"] = e3 == nil && ih != nil && ih.Height() == h
		blocks = append(blocks, br)
	}
	rec["blocks"] = blocks
	rec["missing"] = Ints(missing)
	rec["durSubH"] = metaU64(st, store.LastSubmittedHeaderHeightKey)
	rec["durSubD"] = metaU64(st, "last-submitted-data-height")
	rec["durIncl"] = metaU64(st, store.DAIncludedHeightKey)
	rhb := []F{}
	for h := w.Genesis.InitialHeight; h <= top; h++ {
		hk, e1 := st.GetMetadata(ctx, fmt.Sprintf("%s/%d/h", store.RollkitHeightToDAHeightKey, h))
		dk, e2 := st.GetMetadata(ctx, fmt.Sprintf("%s/%d/d", store.RollkitHeightToDAHeightKey, h))
		if e1 == nil && e2 == nil && len(hk) == 8 && len(dk) == 8 {
			rhb = append(rhb, F{"h": int(h), "hd": clampInt(binary.LittleEndian.Uint64(hk)), "dd": clampInt(binary.LittleEndian.Uint64(dk))})
		}
	}
	rec["rhb"] = rhb
	if n.M != nil {
		sh, sd := n.M.VerifLastSubmitted()
		ph, pd := n.M.VerifPendingCounts()
		rec["subH"], rec["subD"] = clampInt(sh), clampInt(sd)
		rec["pendH"], rec["pendD"] = clampInt(ph), clampInt(pd)
		rec["incl"] = clampInt(n.M.GetDAIncludedHeight())
		rec["daCur"] = clampInt(n.M.VerifDAHeight())
		ls := n.M.GetLastState()
		rec["memH"] = clampInt(ls.LastBlockHeight)
		mh, md := []F{}, []F{}
		for _, b := range blocks {
			hh := uint64(b["h"].(int))
			sh, d, e := st.GetBlockData(ctx, hh)
			if e != nil {
				continue
			}
			if dah, ok := n.M.HeaderCache().GetDAIncludedHeight(sh.Hash().String()); ok {
				mh = append(mh, F{"h": int(hh), "dah": clampInt(dah)})
			}
			if dah, ok := n.M.DataCache().GetDAIncludedHeight(types.Hash(dcommit(d)).String()); ok && len(d.Txs) > 0 {
				md = append(md, F{"h": int(hh), "dah": clampInt(dah)})
			}
		}
		rec["mH"], rec["mD"] = mh, md
		ch, cd := []int{}, []int{}
		for h := height + 1; h <= height+12; h++ {
			if n.M.HeaderCache().GetItem(h) != nil {
				ch = append(ch, int(h))
			}
			if n.M.DataCache().GetItem(h) != nil {
				cd = append(cd, int(h))
			}
		}
		rec["cH"], rec["cD"] = ch, cd
	} else {
		rec["subH"], rec["subD"], rec["pendH"], rec["pendD"], rec["incl"], rec["daCur"], rec["memH"] = 0, 0, 0, 0, 0, 0, 0
		rec["mH"], rec["mD"] = []F{}, []F{}
		rec["cH"], rec["cD"] = []int{}, []int{}
	}
	w.Tr.Unmute()
	w.Tr.Emit("Obs", rec)
}
