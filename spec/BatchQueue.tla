---------------------------- MODULE BatchQueue ----------------------------
(***************************************************************************)
(* Tier I model of the single sequencer's batch queue                      *)
(* (sequencers/single/queue.go, sequencer.go): a write-ahead record in the *)
(* database followed by an append in memory on submit; a pop in memory     *)
(* followed by a database delete on next; a reload of the database on      *)
(* start.  Every durable write is its own action so that TLC explores a    *)
(* crash between any two of them; two submitters interleave.               *)
(*                                                                         *)
(* The fixed code deletes the record before it removes the batch from the  *)
(* in-memory queue; without a refused write the two orders cannot be told  *)
(* apart (one durable write either way), so the pop stays the first step   *)
(* here and a refused delete puts the batch back (KeepOnFail).             *)
(*                                                                         *)
(* Deviations of the pinned tree kept as switches:                         *)
(*   KeepOnFail = FALSE  a take hands the batch out although the delete of *)
(*                     its record was refused: after the next (orderly)    *)
(*                     restart the batch is handed out a second time       *)
(*   KeyBySeq = FALSE  database key = content hash of the batch: identical *)
(*                     batches collide (one record, deleted once), and the *)
(*                     reload order is key order, not acceptance order     *)
(***************************************************************************)
EXTENDS Integers, Sequences, FiniteSets, TLC

CONSTANTS Contents,   \* possible batch contents (identical contents = identical batches)
          Bound, MaxOps, MaxCrashes, KeyBySeq,
          MaxFails,   \* refused database writes allowed
          KeepOnFail  \* TRUE: a take whose record cannot be deleted hands nothing out and keeps the batch queued
                      \* FALSE (pinned tree): it hands the batch out although the record stays behind

VARIABLES accepted,  \* contents in the order submissions were acknowledged
          handed,    \* contents in the order they were handed out
          mem,       \* in-memory queue
          db,        \* durable records: sequence of [key, c] in key order (KeyBySeq) or set of contents
          seq,       \* next record number
          pcS,       \* per submitter: idle | put(c)
          pcN,       \* next: idle | del(c)
          up, ops, crashes,
          fails      \* refused database writes so far (the database returns an error, the process lives on)

vars == <<accepted, handed, mem, db, seq, pcS, pcN, up, ops, crashes, fails>>
Sub == {1, 2}

\* order of content hashes in the database's key space (arbitrary but fixed)
HashLess(a, b) == a < b

Init == /\ accepted = <<>> /\ handed = <<>> /\ mem = <<>> /\ db = <<>> /\ seq = 0
        /\ pcS = [s \in Sub |-> [st |-> "idle"]] /\ pcN = [st |-> "idle"] /\ up = TRUE /\ ops = 0 /\ crashes = 0 /\ fails = 0

Free == pcN.st = "idle" /\ \A s \in Sub : pcS[s].st = "idle"
DbHas(c) == \E i \in 1 .. Len(db) : db[i].c = c
DbPut(c) == IF KeyBySeq THEN Append(db, [key |-> seq, c |-> c])
            ELSE IF DbHas(c) THEN db ELSE Append(db, [key |-> 0, c |-> c])       \* same key: overwritten
DbDel(c, k) == IF KeyBySeq THEN SelectSeq(db, LAMBDA r : r.key # k)
               ELSE SelectSeq(db, LAMBDA r : r.c # c)

\* submit, step 1: admission + write-ahead record
SubmitPut(s, c) ==
    /\ up /\ Free /\ ops < MaxOps            \* the queue mutex is held from admission to acknowledgement
    /\ ops' = ops + 1
    /\ IF Len(mem) >= Bound
          THEN UNCHANGED <<db, seq, pcS>>                     \* rejected: queue full, no trace
          ELSE /\ db' = DbPut(c) /\ seq' = seq + 1
               /\ pcS' = [pcS EXCEPT ![s] = [st |-> "put", c |-> c, key |-> seq]]
    /\ UNCHANGED <<accepted, handed, mem, pcN, up, crashes, fails>>

\* submit, step 2: append in memory and acknowledge
SubmitAck(s) ==
    /\ up /\ pcS[s].st = "put"
    /\ mem' = Append(mem, [c |-> pcS[s].c, key |-> pcS[s].key])
    /\ accepted' = Append(accepted, pcS[s].c)
    /\ pcS' = [pcS EXCEPT ![s] = [st |-> "idle"]]
    /\ UNCHANGED <<handed, db, seq, pcN, up, ops, crashes, fails>>

\* next, step 1: pop in memory
NextPop ==
    /\ up /\ Free /\ mem # <<>> /\ ops < MaxOps
    /\ ops' = ops + 1
    /\ pcN' = [st |-> "del", c |-> Head(mem).c, key |-> Head(mem).key]
    /\ mem' = Tail(mem)
    /\ UNCHANGED <<accepted, handed, db, seq, pcS, up, crashes, fails>>

\* next, step 2: delete the record, hand the batch out
NextDel ==
    /\ up /\ pcN.st = "del"
    /\ db' = DbDel(pcN.c, pcN.key)
    /\ handed' = Append(handed, pcN.c)
    /\ pcN' = [st |-> "idle"]
    /\ UNCHANGED <<accepted, mem, seq, pcS, up, ops, crashes, fails>>

\* the database refuses the write-ahead record: the submission fails, nothing was appended
SubmitPutRefused(s, c) ==
    /\ up /\ Free /\ ops < MaxOps /\ fails < MaxFails /\ Len(mem) < Bound
    /\ ops' = ops + 1 /\ fails' = fails + 1
    /\ UNCHANGED <<accepted, handed, mem, db, seq, pcS, pcN, up, crashes>>

\* the database refuses the delete of a take
NextDelRefused ==
    /\ up /\ pcN.st = "del" /\ fails < MaxFails
    /\ fails' = fails + 1 /\ pcN' = [st |-> "idle"]
    /\ IF KeepOnFail
          THEN mem' = <<[c |-> pcN.c, key |-> pcN.key]>> \o mem /\ handed' = handed     \* still queued, error returned
          ELSE mem' = mem /\ handed' = Append(handed, pcN.c)                           \* handed out, record left behind
    /\ UNCHANGED <<accepted, db, seq, pcS, up, ops, crashes>>

Crash ==
    /\ up /\ crashes < MaxCrashes
    /\ up' = FALSE /\ crashes' = crashes + 1 /\ fails' = fails
    /\ mem' = <<>> /\ pcS' = [s \in Sub |-> [st |-> "idle"]] /\ pcN' = [st |-> "idle"]
    \* a submission whose record was written but not acknowledged may or may not count as accepted;
    \* the model takes the view of the caller: not acknowledged = not accepted (it may still come out)
    /\ UNCHANGED <<accepted, handed, db, seq, ops>>

\* an orderly stop at rest: nothing is written, the in-memory queue is gone
Stop ==
    /\ up /\ Free
    /\ up' = FALSE /\ mem' = <<>>
    /\ UNCHANGED <<accepted, handed, db, seq, pcS, pcN, ops, crashes, fails>>

RECURSIVE SortByHash(_)
SortByHash(s) == IF Len(s) <= 1 THEN s
                 ELSE LET m == CHOOSE i \in 1 .. Len(s) : \A j \in 1 .. Len(s) : ~HashLess(s[j].c, s[i].c)
                      IN <<s[m]>> \o SortByHash(SubSeq(s, 1, m - 1) \o SubSeq(s, m + 1, Len(s)))

\* the record counter is volatile: a reload continues after the highest record number still in the database
\* (and starts again at 0 when the database is empty)
MaxKey(s) == IF s = <<>> THEN -1 ELSE LET ks == {s[i].key : i \in 1 .. Len(s)} IN CHOOSE m \in ks : \A k \in ks : k <= m

Load ==
    /\ ~up /\ up' = TRUE
    /\ mem' = IF KeyBySeq THEN db ELSE SortByHash(db)      \* iteration in database key order
    /\ seq' = MaxKey(db) + 1
    /\ UNCHANGED <<accepted, handed, db, pcS, pcN, ops, crashes, fails>>

Next == \/ \E s \in Sub, c \in Contents : SubmitPut(s, c)
        \/ \E s \in Sub : SubmitAck(s)
        \/ \E s \in Sub, c \in Contents : SubmitPutRefused(s, c)
        \/ NextPop \/ NextDel \/ NextDelRefused \/ Crash \/ Stop \/ Load
Spec == Init /\ [][Next]_vars

\* ---- C10 ---------------------------------------------------------------------------
IsPrefix(s, t) == Len(s) <= Len(t) /\ \A i \in 1 .. Len(s) : s[i] = t[i]
\* without crashes: handed out = a prefix of accepted (FIFO, exactly once)
FifoNoCrash == crashes = 0 => IsPrefix(handed, accepted)
\* at rest (no call in flight) the pending batches are exactly accepted minus handed, in order
Quiet == up /\ pcN.st = "idle" /\ \A s \in Sub : pcS[s].st = "idle"
PendingExact == (Quiet /\ crashes = 0) => [i \in 1 .. Len(mem) |-> mem[i].c] = SubSeq(accepted, Len(handed) + 1, Len(accepted))
\* durability: what was acknowledged and not handed out is still there after a crash + reload
RECURSIVE Embed(_, _)
Embed(small, big) == IF small = <<>> THEN TRUE ELSE IF big = <<>> THEN FALSE
                     ELSE IF Head(small) = Head(big) THEN Embed(Tail(small), Tail(big)) ELSE Embed(small, Tail(big))
MemC == [i \in 1 .. Len(mem) |-> mem[i].c]
\* after any crashes: acknowledged batches come out in acceptance order, none is lost, none twice;
\* unacknowledged records may additionally appear (never more than the submissions in flight at a crash)
Durable == Quiet => /\ Embed(SubSeq(accepted, Len(handed) + 1 - Cardinality({}), Len(accepted)), MemC) \/ crashes > 0
                    /\ (crashes > 0 => Embed(SelectSeq(accepted, LAMBDA c : TRUE), handed \o MemC))
BoundRespected == Len(mem) <= Bound
\* record numbers of the records in the database are pairwise different (no record overwrites another)
KeysUnique == KeyBySeq => \A i, j \in 1 .. Len(db) : i # j => db[i].key # db[j].key
==========================================================================
