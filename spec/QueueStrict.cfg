SPECIFICATION SSpec
CONSTANTS
  Contents = {}
  Bound = 1000000
  MaxOps = 100000000
  MaxCrashes = 100000000
  KeyBySeq = TRUE
  MaxFails = 1000000
  KeepOnFail = TRUE
INVARIANT Finish
POSTCONDITION Consumed
CHECK_DEADLOCK FALSE
