---- MODULE BatchQueue_TTrace_1790368626 ----
EXTENDS Sequences, TLCExt, BatchQueue, Toolbox, Naturals, TLC

_expression ==
    LET BatchQueue_TEExpression == INSTANCE BatchQueue_TEExpression
    IN BatchQueue_TEExpression!expression
----

_trace ==
    LET BatchQueue_TETrace == INSTANCE BatchQueue_TETrace
    IN BatchQueue_TETrace!trace
----

_inv ==
    ~(
        TLCGet("level") = Len(_TETrace)
        /\
        pcS = (<<[st |-> "idle"], [st |-> "idle"]>>)
        /\
        ops = (3)
        /\
        mem = (<<[c |-> 2, key |-> 1], [c |-> 1, key |-> 3], [c |-> 1, key |-> 2]>>)
        /\
        accepted = (<<2, 1, 1>>)
        /\
        pcN = ([st |-> "idle"])
        /\
        crashes = (0)
        /\
        up = (TRUE)
        /\
        handed = (<<>>)
        /\
        seq = (4)
        /\
        db = (<<[c |-> 2, key |-> 0], [c |-> 1, key |-> 0]>>)
    )
----

_init ==
    /\ seq = _TETrace[1].seq
    /\ handed = _TETrace[1].handed
    /\ pcN = _TETrace[1].pcN
    /\ pcS = _TETrace[1].pcS
    /\ accepted = _TETrace[1].accepted
    /\ db = _TETrace[1].db
    /\ crashes = _TETrace[1].crashes
    /\ up = _TETrace[1].up
    /\ ops = _TETrace[1].ops
    /\ mem = _TETrace[1].mem
----

_next ==
    /\ \E i,j \in DOMAIN _TETrace:
        /\ \/ /\ j = i + 1
              /\ i = TLCGet("level")
        /\ seq  = _TETrace[i].seq
        /\ seq' = _TETrace[j].seq
        /\ handed  = _TETrace[i].handed
        /\ handed' = _TETrace[j].handed
        /\ pcN  = _TETrace[i].pcN
        /\ pcN' = _TETrace[j].pcN
        /\ pcS  = _TETrace[i].pcS
        /\ pcS' = _TETrace[j].pcS
        /\ accepted  = _TETrace[i].accepted
        /\ accepted' = _TETrace[j].accepted
        /\ db  = _TETrace[i].db
        /\ db' = _TETrace[j].db
        /\ crashes  = _TETrace[i].crashes
        /\ crashes' = _TETrace[j].crashes
        /\ up  = _TETrace[i].up
        /\ up' = _TETrace[j].up
        /\ ops  = _TETrace[i].ops
        /\ ops' = _TETrace[j].ops
        /\ mem  = _TETrace[i].mem
        /\ mem' = _TETrace[j].mem

\* Uncomment the ASSUME below to write the states of the error trace
\* to the given file in Json format. Note that you can pass any tuple
\* to `JsonSerialize`. For example, a sub-sequence of _TETrace.
    \* ASSUME
    \*     LET J == INSTANCE Json
    \*         IN J!JsonSerialize("BatchQueue_TTrace_1790368626.json", _TETrace)

=============================================================================

 Note that you can extract this module `BatchQueue_TEExpression`
  to a dedicated file to reuse `expression` (the module in the 
  dedicated `BatchQueue_TEExpression.tla` file takes precedence 
  over the module `BatchQueue_TEExpression` below).

---- MODULE BatchQueue_TEExpression ----
EXTENDS Sequences, TLCExt, BatchQueue, Toolbox, Naturals, TLC

expression == 
    [
        \* To hide variables of the `BatchQueue` spec from the error trace,
        \* remove the variables below.  The trace will be written in the order
        \* of the fields of this record.
        seq |-> seq
        ,handed |-> handed
        ,pcN |-> pcN
        ,pcS |-> pcS
        ,accepted |-> accepted
        ,db |-> db
        ,crashes |-> crashes
        ,up |-> up
        ,ops |-> ops
        ,mem |-> mem
        
        \* Put additional constant-, state-, and action-level expressions here:
        \* ,_stateNumber |-> _TEPosition
        \* ,_seqUnchanged |-> seq = seq'
        
        \* Format the `seq` variable as Json value.
        \* ,_seqJson |->
        \*     LET J == INSTANCE Json
        \*     IN J!ToJson(seq)
        
        \* Lastly, you may build expressions over arbitrary sets of states by
        \* leveraging the _TETrace operator.  For example, this is how to
        \* count the number of times a spec variable changed up to the current
        \* state in the trace.
        \* ,_seqModCount |->
        \*     LET F[s \in DOMAIN _TETrace] ==
        \*         IF s = 1 THEN 0
        \*         ELSE IF _TETrace[s].seq # _TETrace[s-1].seq
        \*             THEN 1 + F[s-1] ELSE F[s-1]
        \*     IN F[_TEPosition - 1]
    ]

=============================================================================



Parsing and semantic processing can take forever if the trace below is long.
 In this case, it is advised to uncomment the module below to deserialize the
 trace from a generated binary file.

\*
\*---- MODULE BatchQueue_TETrace ----
\*EXTENDS IOUtils, BatchQueue, TLC
\*
\*trace == IODeserialize("BatchQueue_TTrace_1790368626.bin", TRUE)
\*
\*=============================================================================
\*

---- MODULE BatchQueue_TETrace ----
EXTENDS BatchQueue, TLC

trace == 
    <<
    ([pcS |-> <<[st |-> "idle"], [st |-> "idle"]>>,ops |-> 0,mem |-> <<>>,accepted |-> <<>>,pcN |-> [st |-> "idle"],crashes |-> 0,up |-> TRUE,handed |-> <<>>,seq |-> 1,db |-> <<>>]),
    ([pcS |-> <<[st |-> "put", c |-> 2, key |-> 1], [st |-> "idle"]>>,ops |-> 1,mem |-> <<>>,accepted |-> <<>>,pcN |-> [st |-> "idle"],crashes |-> 0,up |-> TRUE,handed |-> <<>>,seq |-> 2,db |-> <<[c |-> 2, key |-> 0]>>]),
    ([pcS |-> <<[st |-> "put", c |-> 2, key |-> 1], [st |-> "put", c |-> 1, key |-> 2]>>,ops |-> 2,mem |-> <<>>,accepted |-> <<>>,pcN |-> [st |-> "idle"],crashes |-> 0,up |-> TRUE,handed |-> <<>>,seq |-> 3,db |-> <<[c |-> 2, key |-> 0], [c |-> 1, key |-> 0]>>]),
    ([pcS |-> <<[st |-> "idle"], [st |-> "put", c |-> 1, key |-> 2]>>,ops |-> 2,mem |-> <<[c |-> 2, key |-> 1]>>,accepted |-> <<2>>,pcN |-> [st |-> "idle"],crashes |-> 0,up |-> TRUE,handed |-> <<>>,seq |-> 3,db |-> <<[c |-> 2, key |-> 0], [c |-> 1, key |-> 0]>>]),
    ([pcS |-> <<[st |-> "put", c |-> 1, key |-> 3], [st |-> "put", c |-> 1, key |-> 2]>>,ops |-> 3,mem |-> <<[c |-> 2, key |-> 1]>>,accepted |-> <<2>>,pcN |-> [st |-> "idle"],crashes |-> 0,up |-> TRUE,handed |-> <<>>,seq |-> 4,db |-> <<[c |-> 2, key |-> 0], [c |-> 1, key |-> 0]>>]),
    ([pcS |-> <<[st |-> "idle"], [st |-> "put", c |-> 1, key |-> 2]>>,ops |-> 3,mem |-> <<[c |-> 2, key |-> 1], [c |-> 1, key |-> 3]>>,accepted |-> <<2, 1>>,pcN |-> [st |-> "idle"],crashes |-> 0,up |-> TRUE,handed |-> <<>>,seq |-> 4,db |-> <<[c |-> 2, key |-> 0], [c |-> 1, key |-> 0]>>]),
    ([pcS |-> <<[st |-> "idle"], [st |-> "idle"]>>,ops |-> 3,mem |-> <<[c |-> 2, key |-> 1], [c |-> 1, key |-> 3], [c |-> 1, key |-> 2]>>,accepted |-> <<2, 1, 1>>,pcN |-> [st |-> "idle"],crashes |-> 0,up |-> TRUE,handed |-> <<>>,seq |-> 4,db |-> <<[c |-> 2, key |-> 0], [c |-> 1, key |-> 0]>>])
    >>
----


=============================================================================

---- CONFIG BatchQueue_TTrace_1790368626 ----
CONSTANTS
    Contents = { 1 , 2 }
    Bound = 2
    MaxOps = 5
    MaxCrashes = 1
    KeyBySeq = FALSE

INVARIANT
    _inv

CHECK_DEADLOCK
    \* CHECK_DEADLOCK off because of PROPERTY or INVARIANT above.
    FALSE

INIT
    _init

NEXT
    _next

CONSTANT
    _TETrace <- _trace

ALIAS
    _expression
=============================================================================
\* Generated on Fri Sep 25 20:37:08 UTC 2026