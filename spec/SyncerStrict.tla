---------------------------- MODULE SyncerStrict ----------------------------
(***************************************************************************)
(* Step-level trace validation of the tier-I module Syncer against the     *)
(* real SyncLoop / RetrieveLoop / store-polling loops of a full node.      *)
(* Every record is consumed by one step; the steps that change the model   *)
(* state are actions of Syncer.tla with their parameters bound to the      *)
(* logged fields.  What the hand-over channels hold (inq) and what lies on *)
(* the DA layer (onDA, with the scan's fetch history) is kept beside the   *)
(* model: an event enters the node when it is pushed into a channel, or    *)
(* when the scan has fetched its DA height completely.                     *)
(*                                                                         *)
(*   Deliver chan | queued | p2p      the event waits in a channel (inq)   *)
(*   Deliver da ; DAGetIDs / DAGet    it waits once its height is fetched  *)
(*   (no record)                      RecvHeader / RecvData: the loop takes*)
(*                                    the oldest waiting event as soon as  *)
(*                                    it is idle; TryNext that finds       *)
(*                                    nothing to apply                     *)
(*   ExecTxs h                        TryNext (both parts of h cached)     *)
(*   KV block / state / height        Write1 / Write2 / SetHeightEvict     *)
(*   Crash, Stop (unclean)            Crash                                *)
(*   KVFail                           WriteFail (refused write, orderly    *)
(*                                    shutdown with the caches saved)      *)
(*   Stop clean ; Restart             CleanRestart                         *)
(*   Restart after a crash            Recover                              *)
(*   Obs                              projection of the real node = model  *)
(*                                                                         *)
(* The real loop picks among its two channels with Go's select; the order  *)
(* is not logged.  Taking the oldest event first is sound here because     *)
(* receptions commute (they only insert into caches) and application is    *)
(* by height: the sequence of records (ExecTxs, writes) is the same for    *)
(* every reception order.                                                  *)
(***************************************************************************)
EXTENDS MCSyncer, AdmissionRules      \* Syncer + the named shapes; Json / IOUtils come with it (TraceLib's N would clash with Syncer's)

Trace == ndJsonDeserialize("trace.ndjson")
TN == Len(Trace)

CONSTANT ShapeName      \* the name under which runs log this Shape

VARIABLES l, run, drifted, drift,
          inq,        \* events waiting in the hand-over channels, oldest first
          onDA,       \* genuine blobs on the DA layer: [kind, h, dah]
          cur, chunks, \* the scan: next DA height to examine, id chunks still to fetch of it
          stopped,    \* "no" | "inflight" (stop requested) | "clean" (caches saved, waiting for the restart)
          ps, lp,     \* the P2P stores: height of each store; the polling loops' cursors (volatile)
          fs          \* heights of the P2P header store that hold an adversary's header
xvars == <<l, run, drifted, drift, inq, onDA, cur, chunks, stopped, ps, lp, fs>>
svars == <<vars, xvars>>

e == Trace[l]
Full == ("node" \in DOMAIN e) => e.node = "full"
Ev(kind, h) == [kind |-> kind, h |-> h]

\* silent steps come first: the loop takes a waiting event as soon as it is idle, and gives up a TryNext at once
CanApply == Nxt \in hc /\ Nxt \in dc
\* (after a stop request the loop takes no further event and starts no further block; and a loop that the harness holds
\* inside its last durable write -- the stop request that follows says so -- has not come back to its select yet)
RECURSIVE NextCtl(_)
NextCtl(j) == IF j > TN THEN 0 ELSE IF Trace[j].ev \in {"Deliver", "DAGetIDs", "DAGet", "P2PReadFault", "Inject"} THEN NextCtl(j + 1) ELSE j
Parked == LET j == NextCtl(l) IN j # 0 /\ Trace[j].ev = "StopInFlight" /\ Trace[j].paused
SilentEnabled == stopped # "inflight" /\ ((pc = "idle" /\ inq # <<>>) \/ (pc = "try" /\ ~CanApply)) /\ ~Parked
Is(name) == l <= TN /\ ~drifted /\ ~SilentEnabled /\ e.ev = name
Adv == l' = l + 1 /\ UNCHANGED <<run, drifted, drift>>
Same == UNCHANGED vars
Keep == UNCHANGED <<inq, onDA, cur, chunks, stopped, ps, lp, fs>>
P2P == UNCHANGED <<ps, lp, fs>>

AllowedSrc == {"model", "stopqueued", "handover", "p2pidle", "crashenum", "retrieve", "writeerr", "adversary"}

SInit == Init /\ l = 1 /\ run = "" /\ drifted = FALSE /\ drift = <<>> /\ inq = <<>> /\ onDA = {} /\ cur = 1 /\ chunks = 0 /\ stopped = "no"
         /\ ps = [hdr |-> 0, data |-> 0] /\ lp = [hdr |-> 0, data |-> 0] /\ fs = {}

SReset ==
    /\ l <= TN /\ e.ev = "Reset"
    /\ l' = l + 1 /\ run' = e.run /\ drift' = drift
    /\ drifted' = ~(e.ih = IH /\ e.shape = ShapeName /\ e.src \in AllowedSrc)
    /\ inq' = <<>> /\ onDA' = {} /\ cur' = (IF "dastart" \in DOMAIN e THEN e.dastart ELSE 1) /\ chunks' = 0 /\ stopped' = "no"
    /\ ps' = [hdr |-> e.ih - 1, data |-> e.ih - 1] /\ lp' = [hdr |-> e.ih - 1, data |-> e.ih - 1] /\ fs' = {}
    /\ left' = [x \in Events |-> 1 + MaxDup] /\ got' = {}
    /\ kv' = [height |-> IH - 1, stateH |-> IH - 1, blocks |-> {}]
    /\ hc' = {} /\ dc' = {} /\ seenH' = {} /\ seenD' = {} /\ files' = NoFiles
    /\ pc' = "down" /\ curEv' = NoEv /\ execLog' = <<>> /\ crashes' = 0 /\ restarts' = 0 /\ wc' = 0 /\ hist' = hist

\* ---------------------------------------------------------------- events enter the node
InChain(kind, h) == h \in Hts /\ (kind = "hdr" \/ ~IsEmpty(h))
\* what a polling loop hands over when it finds its store above its cursor: every height in between, in order
\* (block/store.go; the cursor is volatile and starts at the chain height, the store outlives the process)
Range(kind, a, b) == IF b < a THEN <<>>
                     ELSE SelectSeq([j \in 1 .. (b - a + 1) |-> Ev(kind, a + j - 1)],
                                    LAMBDA x : InChain(x.kind, x.h) /\ ~(x.kind = "hdr" /\ x.h \in fs))
PollAll(q) == q \o Range("hdr", lp.hdr + 1, ps.hdr) \o Range("data", lp.data + 1, ps.data)
Polled == [hdr |-> IF ps.hdr > lp.hdr THEN ps.hdr ELSE lp.hdr, data |-> IF ps.data > lp.data THEN ps.data ELSE lp.data]
SDeliver ==
    /\ Is("Deliver") /\ Adv /\ Same
    /\ CASE e.via \in {"chan", "queued"} ->
              /\ inq' = IF InChain(e.kind, e.h) /\ pc # "down" THEN Append(inq, Ev(e.kind, e.h)) ELSE inq
              \* "queued": the blob also lies on the DA layer at that height (the scan of a later process finds it again)
              /\ onDA' = IF e.via = "queued" THEN onDA \cup {[kind |-> e.kind, h |-> e.h, dah |-> e.dah]} ELSE onDA
              /\ UNCHANGED <<cur, chunks, stopped, ps, lp, fs>>
         [] e.via = "p2p" ->      \* appended to the store (in height order); the store's signal makes the loop poll
              /\ ps' = [ps EXCEPT ![e.kind] = e.h]
              /\ IF pc # "down" /\ e.h > lp[e.kind]
                    THEN inq' = inq \o Range(e.kind, lp[e.kind] + 1, e.h) /\ lp' = [lp EXCEPT ![e.kind] = e.h]
                    ELSE inq' = inq /\ lp' = lp
              /\ UNCHANGED <<onDA, cur, chunks, stopped, fs>>
         [] e.via = "da" -> onDA' = onDA \cup {[kind |-> e.kind, h |-> e.h, dah |-> e.dah]} /\ UNCHANGED <<inq, cur, chunks, stopped, ps, lp, fs>>
         [] OTHER -> Keep
\* time passes (a failed store read is retried on the next tick) or the harness fires the polling signals: both stores are polled
SPollAll ==
    /\ (Is("P2PReadFault") \/ Is("Signal")) /\ Adv /\ Same
    /\ IF pc # "down" THEN inq' = PollAll(inq) /\ lp' = Polled ELSE inq' = inq /\ lp' = lp
    /\ UNCHANGED <<onDA, cur, chunks, stopped, ps, fs>>

\* ---------------------------------------------------------------- adversarial offers (C03)
\* The offer's class is translated into what the admission code looks at (AdmissionRules.ClassH / ClassD); the step is
\* explained only if the tier-I admission rule REFUSES it - then nothing enters the node. On the P2P path the item
\* occupies its slot of the header store for good (fs): every later poll of that slot is refused again.
Uncovered == {"P1", "P1parked", "P1split"}     \* unsigned P2P data of the adversary's choosing: stops the node (not modelled in Syncer)
SInject ==
    /\ Is("Inject") /\ e.class \notin Uncovered /\ Adv /\ Same
    /\ (e.class \in DOMAIN ClassH => IF e.via = "p2p" THEN ~AdmitP2P(ClassH[e.class]) ELSE ~AdmitDAWhen(ClassH[e.class], TRUE))
    /\ (e.class \in DOMAIN ClassD => ~AdmitData(ClassD[e.class]))
    /\ IF e.via = "p2p"
          THEN /\ ps' = [ps EXCEPT !.hdr = e.h] /\ fs' = fs \cup {e.h}
               /\ IF pc # "down" /\ e.h > lp.hdr
                     THEN inq' = inq \o Range("hdr", lp.hdr + 1, e.h - 1) /\ lp' = [lp EXCEPT !.hdr = e.h]
                     ELSE inq' = inq /\ lp' = lp
          ELSE inq' = inq /\ UNCHANGED <<ps, lp, fs>>
    /\ UNCHANGED <<onDA, cur, chunks, stopped>>
SInjectSkip ==
    /\ Is("Inject") /\ e.class \in Uncovered
    /\ l' = l + 1 /\ drifted' = TRUE /\ UNCHANGED <<run, drift>> /\ Keep /\ Same

\* the blobs of a DA height, in a fixed order (headers first, by height)
RECURSIVE BlobSeq(_)
BlobSeq(S) == IF S = {} THEN <<>>
            ELSE LET x == CHOOSE y \in S : \A z \in S : (y.kind = "hdr" /\ z.kind = "data") \/ (y.kind = z.kind /\ y.h <= z.h)
                 IN <<Ev(x.kind, x.h)>> \o BlobSeq(S \ {x})
Fetched(d) == IF pc = "down" THEN inq ELSE inq \o BlobSeq({x \in onDA : x.dah = d /\ InChain(x.kind, x.h)})

SGetIDs ==
    /\ Is("DAGetIDs") /\ Adv /\ Same
    /\ IF e.dah = cur /\ e.res = "notfound" THEN cur' = cur + 1 ELSE cur' = cur
    /\ chunks' = IF e.res \in {"ok", "okchunkerr"} THEN (e.nids + 99) \div 100 ELSE 0
    /\ UNCHANGED <<inq, onDA, stopped>> /\ P2P
SGet ==
    /\ Is("DAGet") /\ Adv /\ Same
    /\ chunks' = IF e.res = "ok" /\ chunks > 0 THEN chunks - 1 ELSE 0
    /\ IF e.res = "ok" /\ chunks = 1 /\ e.dah = cur
          THEN cur' = cur + 1 /\ inq' = Fetched(cur)
          ELSE cur' = cur /\ inq' = inq
    /\ UNCHANGED <<onDA, stopped>> /\ P2P

\* ---------------------------------------------------------------- the sync loop
SSilent ==
    /\ l <= TN /\ ~drifted /\ UNCHANGED <<l, run, drifted, drift, onDA, cur, chunks, stopped, ps, lp, fs>>
    /\ SilentEnabled
    /\ \/ /\ pc = "idle" /\ inq # <<>>
          /\ inq' = Tail(inq)
          /\ IF Head(inq).kind = "hdr" THEN RecvHeader(Head(inq)) ELSE RecvData(Head(inq))
       \/ /\ pc = "try" /\ ~CanApply /\ inq' = inq
          /\ TryNext

SExec ==
    /\ Is("ExecTxs") /\ Full /\ Adv /\ Keep
    /\ IF pc = "down" THEN Same       \* a late call of the dying process (its writes no longer reach the disk)
       ELSE IF e.ok THEN pc = "try" /\ CanApply /\ e.h = Nxt /\ TryNext ELSE Same

SKV ==
    /\ Is("KV") /\ Full /\ Adv /\ Keep
    /\ \/ e.kind = "block" /\ pc = "w1" /\ e.h = Nxt /\ Write1
       \/ e.kind = "state" /\ pc = "w2" /\ e.h = Nxt /\ Write2
       \/ e.kind = "height" /\ pc = "w3" /\ e.h = Nxt /\ SetHeightEvict
       \/ e.kind = "block" /\ pc \in {"down", "idle"} /\ Same        \* the pre-built first block written at start-up
       \/ e.kind = "height" /\ pc = "down" /\ Same                     \* start-up: height raised to the state's height
       \/ e.kind \notin {"block", "state", "height"} /\ Same

\* a durable write is refused: the write the loop was about to make is the one that fails; the node reports the
\* error and shuts down in an orderly way (WriteFail saves the caches); what waits in the channels is lost
SKVFail ==
    /\ Is("KVFail") /\ Full /\ Adv /\ UNCHANGED <<onDA, cur, chunks>> /\ P2P
    /\ IF e.kind \in {"block", "state", "height"}
          THEN /\ \/ e.kind = "block" /\ pc = "w1"
                  \/ e.kind = "state" /\ pc = "w2"
                  \/ e.kind = "height" /\ pc = "w3"
               /\ e.h = Nxt /\ WriteFail /\ inq' = <<>> /\ stopped' = stopped
          ELSE \* a write of another loop (DA-inclusion bookkeeping): that loop reports the error, the node shuts down in
               \* an orderly way; the sync loop finishes the block it is applying and takes nothing more
               /\ Same /\ inq' = inq /\ stopped' = (IF pc = "down" THEN stopped ELSE "inflight")

\* ---------------------------------------------------------------- process life cycle
Down == /\ pc' = "down" /\ curEv' = NoEv /\ crashes' = crashes + 1
        /\ UNCHANGED <<left, got, kv, hc, dc, seenH, seenD, files, execLog, restarts, wc, hist>>
SCrash ==
    /\ Is("Crash") /\ Full /\ Adv /\ UNCHANGED <<onDA, cur, chunks, stopped>> /\ P2P /\ inq' = <<>>
    /\ IF pc = "down" THEN Same ELSE Down
\* StopInFlight: the stop request arrives while a block is being applied; the application finishes, the caches are
\* saved, the events still waiting in the channels are lost
SStopInFlight == Is("StopInFlight") /\ Adv /\ Same /\ stopped' = "inflight" /\ UNCHANGED <<inq, onDA, cur, chunks>> /\ P2P
SStop ==
    /\ Is("Stop") /\ Full /\ Adv /\ UNCHANGED <<onDA, cur, chunks>> /\ P2P /\ inq' = <<>>
    /\ IF pc = "down" THEN Same /\ stopped' = stopped
       ELSE IF e.clean \/ stopped = "inflight"
               THEN /\ pc \in {"idle", "try"} /\ stopped' = "clean"
                    /\ pc' = "idle" /\ curEv' = NoEv      \* a TryNext the stop request cut short is abandoned
                    /\ UNCHANGED <<left, got, kv, hc, dc, seenH, seenD, files, execLog, crashes, restarts, wc, hist>>
               ELSE Down /\ stopped' = "no"
SRestart ==
    /\ Is("Restart") /\ Full /\ e.ok /\ Adv /\ UNCHANGED <<onDA, chunks>> /\ inq' = <<>> /\ stopped' = "no"
    /\ cur' = cur /\ ps' = ps /\ fs' = fs
    /\ IF stopped = "clean" THEN CleanRestart ELSE pc = "down" /\ Recover
    /\ lp' = [hdr |-> kv'.height, data |-> kv'.height]

\* ---------------------------------------------------------------- projection
SetOf(s) == {s[i] : i \in 1 .. Len(s)}
ObsOK(o) ==
    /\ o.height = kv.height
    /\ (o.stOk => o.stH = kv.stateH) /\ (~o.stOk => kv.stateH = IH - 1)
    /\ o.up = (pc = "idle" /\ stopped = "no")
    /\ pc \in {"idle", "down"}
    \* (the projection lists cached parts above the chain height only; a part left behind at or below it is never used)
    /\ o.up => SetOf(o.cH) = {x \in hc : x > kv.height} /\ SetOf(o.cD) = {x \in dc : x > kv.height}
SObs ==
    /\ Is("Obs") /\ Full /\ Adv /\ Same /\ UNCHANGED <<inq, onDA, chunks, stopped>> /\ P2P
    /\ ObsOK(e)
    /\ cur' = IF e.tag = "restart" THEN e.daCur ELSE cur

Consumed0 == {"Reset", "Deliver", "DAGetIDs", "DAGet", "StopInFlight", "P2PReadFault", "Signal", "Inject"}
FullEvs == {"ExecTxs", "KV", "KVFail", "Crash", "Stop", "Restart", "Obs"}
SOther == /\ l <= TN /\ ~drifted /\ ~SilentEnabled /\ Adv /\ Same /\ Keep
          /\ e.ev \notin Consumed0 /\ ~(e.ev \in FullEvs /\ Full)

Strict == SDeliver \/ SInject \/ SInjectSkip \/ SPollAll \/ SGetIDs \/ SGet \/ SSilent \/ SExec \/ SKV \/ SKVFail \/ SCrash \/ SStopInFlight \/ SStop \/ SRestart \/ SObs \/ SOther

SDrift ==
    /\ l <= TN /\ ~drifted /\ e.ev # "Reset" /\ ~ENABLED Strict
    /\ drifted' = TRUE /\ l' = l + 1 /\ run' = run /\ Keep
    /\ drift' = Append(drift, [l |-> l, run |-> run, ev |-> e.ev, pc |-> pc, height |-> kv.height])
    /\ Same
SSkip == l <= TN /\ drifted /\ e.ev # "Reset" /\ l' = l + 1 /\ UNCHANGED <<run, drifted, drift>> /\ Keep /\ Same

SNext == SReset \/ Strict \/ SDrift \/ SSkip
SSpec == SInit /\ [][SNext]_svars
Finish == (l = TN + 1) => ndJsonSerialize("drift.ndjson", drift)
Consumed == TLCGet("stats").diameter >= TN + 1
==============================================================================
