SPECIFICATION Spec
CONSTANTS
  KeyBinding = TRUE
  SignerlessOK = FALSE
  SkipIfSeen = FALSE
INVARIANTS NeverHalts
CHECK_DEADLOCK FALSE
