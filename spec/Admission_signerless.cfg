SPECIFICATION Spec
CONSTANTS
  KeyBinding = TRUE
  SignerlessOK = TRUE
  SkipIfSeen = FALSE
INVARIANTS OnlyProposersHeaders OnlyProposersData ExecutedOnlyProposers
CHECK_DEADLOCK FALSE
