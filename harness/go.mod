module verif/harness

go 1.24.1

require (
	github.com/celestiaorg/go-header v0.6.6
	github.com/evstack/ev-node v0.0.0
	github.com/evstack/ev-node/apps/testapp v0.0.0
	github.com/evstack/ev-node/core v0.0.0
	github.com/evstack/ev-node/da v0.0.0
	github.com/evstack/ev-node/sequencers/based v0.0.0
	github.com/evstack/ev-node/sequencers/single v0.0.0
	github.com/ipfs/go-datastore v0.8.2
	github.com/ipfs/go-log/v2 v2.6.0
	github.com/libp2p/go-libp2p v0.41.1
	github.com/spf13/cobra v1.9.1
	github.com/spf13/pflag v1.0.6
	google.golang.org/protobuf v1.36.6
)

require (
	connectrpc.com/connect v1.18.1 // indirect
	connectrpc.com/grpcreflect v1.3.0 // indirect
	github.com/benbjohnson/clock v1.3.5 // indirect
	github.com/beorn7/perks v1.0.1 // indirect
	github.com/celestiaorg/go-libp2p-messenger v0.2.2 // indirect
	github.com/celestiaorg/go-square/v2 v2.2.0 // indirect
	github.com/cespare/xxhash/v2 v2.3.0 // indirect
	github.com/containerd/cgroups v1.1.0 // indirect
	github.com/coreos/go-systemd/v22 v22.5.0 // indirect
	github.com/davecgh/go-spew v1.1.2-0.20180830191138-d8f796af33cc // indirect
	github.com/davidlazar/go-crypto v0.0.0-20200604182044-b73af7476f6c // indirect
	github.com/decred/dcrd/dcrec/secp256k1/v4 v4.4.0 // indirect
	github.com/dgraph-io/badger/v4 v4.5.1 // indirect
	github.com/dgraph-io/ristretto/v2 v2.1.0 // indirect
	github.com/docker/go-units v0.5.0 // indirect
	github.com/dustin/go-humanize v1.0.1 // indirect
	github.com/elastic/gosigar v0.14.3 // indirect
	github.com/filecoin-project/go-jsonrpc v0.7.1 // indirect
	github.com/flynn/noise v1.1.0 // indirect
	github.com/francoispqt/gojay v1.2.13 // indirect
	github.com/fsnotify/fsnotify v1.8.0 // indirect
	github.com/go-kit/kit v0.13.0 // indirect
	github.com/go-logr/logr v1.4.2 // indirect
	github.com/go-logr/stdr v1.2.2 // indirect
	github.com/go-viper/mapstructure/v2 v2.3.0 // indirect
	github.com/goccy/go-yaml v1.18.0 // indirect
	github.com/godbus/dbus/v5 v5.1.0 // indirect
	github.com/gogo/protobuf v1.3.2 // indirect
	github.com/golang/groupcache v0.0.0-20241129210726-2c02b8208cf8 // indirect
	github.com/google/flatbuffers v24.12.23+incompatible // indirect
	github.com/google/gopacket v1.1.19 // indirect
	github.com/google/uuid v1.6.0 // indirect
	github.com/gorilla/websocket v1.5.3 // indirect
	github.com/hashicorp/golang-lru v1.0.2 // indirect
	github.com/hashicorp/golang-lru/v2 v2.0.7 // indirect
	github.com/huin/goupnp v1.3.0 // indirect
	github.com/ipfs/boxo v0.30.0 // indirect
	github.com/ipfs/go-cid v0.5.0 // indirect
	github.com/ipfs/go-ds-badger4 v0.1.8 // indirect
	github.com/ipld/go-ipld-prime v0.21.0 // indirect
	github.com/jackpal/go-nat-pmp v1.0.2 // indirect
	github.com/jbenet/go-temp-err-catcher v0.1.0 // indirect
	github.com/klauspost/compress v1.18.0 // indirect
	github.com/klauspost/cpuid/v2 v2.2.10 // indirect
	github.com/koron/go-ssdp v0.0.5 // indirect
	github.com/libp2p/go-buffer-pool v0.1.0 // indirect
	github.com/libp2p/go-cidranger v1.1.0 // indirect
	github.com/libp2p/go-flow-metrics v0.2.0 // indirect
	github.com/libp2p/go-libp2p-asn-util v0.4.1 // indirect
	github.com/libp2p/go-libp2p-kad-dht v0.33.1 // indirect
	github.com/libp2p/go-libp2p-kbucket v0.7.0 // indirect
	github.com/libp2p/go-libp2p-pubsub v0.14.1 // indirect
	github.com/libp2p/go-libp2p-record v0.3.1 // indirect
	github.com/libp2p/go-libp2p-routing-helpers v0.7.5 // indirect
	github.com/libp2p/go-msgio v0.3.0 // indirect
	github.com/libp2p/go-netroute v0.2.2 // indirect
	github.com/libp2p/go-reuseport v0.4.0 // indirect
	github.com/libp2p/go-yamux/v5 v5.0.0 // indirect
	github.com/marten-seemann/tcp v0.0.0-20210406111302-dfbc87cc63fd // indirect
	github.com/mattn/go-isatty v0.0.20 // indirect
	github.com/miekg/dns v1.1.66 // indirect
	github.com/mikioh/tcpinfo v0.0.0-20190314235526-30a79bb1804b // indirect
	github.com/mikioh/tcpopt v0.0.0-20190314235656-172688c1accc // indirect
	github.com/minio/sha256-simd v1.0.1 // indirect
	github.com/mitchellh/mapstructure v1.5.0 // indirect
	github.com/mr-tron/base58 v1.2.0 // indirect
	github.com/multiformats/go-base32 v0.1.0 // indirect
	github.com/multiformats/go-base36 v0.2.0 // indirect
	github.com/multiformats/go-multiaddr v0.16.0 // indirect
	github.com/multiformats/go-multiaddr-dns v0.4.1 // indirect
	github.com/multiformats/go-multiaddr-fmt v0.1.0 // indirect
	github.com/multiformats/go-multibase v0.2.0 // indirect
	github.com/multiformats/go-multicodec v0.9.0 // indirect
	github.com/multiformats/go-multihash v0.2.3 // indirect
	github.com/multiformats/go-multistream v0.6.0 // indirect
	github.com/multiformats/go-varint v0.0.7 // indirect
	github.com/munnerz/goautoneg v0.0.0-20191010083416-a7dc8b61c822 // indirect
	github.com/opencontainers/runtime-spec v1.2.1 // indirect
	github.com/pbnjay/memory v0.0.0-20210728143218-7b4eea64cf58 // indirect
	github.com/pelletier/go-toml/v2 v2.2.3 // indirect
	github.com/pion/datachannel v1.5.10 // indirect
	github.com/pion/dtls/v2 v2.2.12 // indirect
	github.com/pion/dtls/v3 v3.0.5 // indirect
	github.com/pion/ice/v4 v4.0.8 // indirect
	github.com/pion/interceptor v0.1.39 // indirect
	github.com/pion/logging v0.2.3 // indirect
	github.com/pion/randutil v0.1.0 // indirect
	github.com/pion/rtcp v1.2.15 // indirect
	github.com/pion/rtp v1.8.18 // indirect
	github.com/pion/sctp v1.8.37 // indirect
	github.com/pion/sdp/v3 v3.0.11 // indirect
	github.com/pion/srtp/v3 v3.0.4 // indirect
	github.com/pion/stun v0.6.1 // indirect
	github.com/pion/stun/v3 v3.0.0 // indirect
	github.com/pion/transport/v2 v2.2.10 // indirect
	github.com/pion/transport/v3 v3.0.7 // indirect
	github.com/pion/turn/v4 v4.0.0 // indirect
	github.com/pion/webrtc/v4 v4.0.14 // indirect
	github.com/pkg/errors v0.9.1 // indirect
	github.com/pmezard/go-difflib v1.0.1-0.20181226105442-5d4384ee4fb2 // indirect
	github.com/polydawn/refmt v0.89.0 // indirect
	github.com/prometheus/client_golang v1.22.0 // indirect
	github.com/prometheus/client_model v0.6.2 // indirect
	github.com/prometheus/common v0.63.0 // indirect
	github.com/prometheus/procfs v0.16.1 // indirect
	github.com/quic-go/qpack v0.5.1 // indirect
	github.com/quic-go/quic-go v0.50.1 // indirect
	github.com/quic-go/webtransport-go v0.8.1-0.20241018022711-4ac2c9250e66 // indirect
	github.com/raulk/go-watchdog v1.3.0 // indirect
	github.com/sagikazarmark/locafero v0.7.0 // indirect
	github.com/sourcegraph/conc v0.3.0 // indirect
	github.com/spaolacci/murmur3 v1.1.0 // indirect
	github.com/spf13/afero v1.12.0 // indirect
	github.com/spf13/cast v1.7.1 // indirect
	github.com/spf13/viper v1.20.1
	github.com/stretchr/objx v0.5.2 // indirect
	github.com/stretchr/testify v1.10.0 // indirect
	github.com/subosito/gotenv v1.6.0 // indirect
	github.com/whyrusleeping/go-keyspace v0.0.0-20160322163242-5b898ac5add1 // indirect
	github.com/wlynxg/anet v0.0.5 // indirect
	go.opencensus.io v0.24.0 // indirect
	go.opentelemetry.io/auto/sdk v1.1.0 // indirect
	go.opentelemetry.io/otel v1.35.0 // indirect
	go.opentelemetry.io/otel/metric v1.35.0 // indirect
	go.opentelemetry.io/otel/trace v1.35.0 // indirect
	go.uber.org/dig v1.18.1 // indirect
	go.uber.org/fx v1.23.0 // indirect
	go.uber.org/multierr v1.11.0 // indirect
	go.uber.org/zap v1.27.0 // indirect
	golang.org/x/crypto v0.40.0 // indirect
	golang.org/x/exp v0.0.0-20250506013437-ce4c2cf36ca6 // indirect
	golang.org/x/net v0.42.0 // indirect
	golang.org/x/sync v0.16.0 // indirect
	golang.org/x/sys v0.34.0 // indirect
	golang.org/x/text v0.27.0 // indirect
	golang.org/x/xerrors v0.0.0-20240903120638-7835f813f4da // indirect
	gonum.org/v1/gonum v0.16.0 // indirect
	gopkg.in/yaml.v3 v3.0.1 // indirect
	lukechampine.com/blake3 v1.4.1 // indirect
)

replace (
	github.com/evstack/ev-node => /repo
	github.com/evstack/ev-node/apps/testapp => /repo/apps/testapp
	github.com/evstack/ev-node/core => /repo/core
	github.com/evstack/ev-node/da => /repo/da
	github.com/evstack/ev-node/sequencers/based => /repo/sequencers/based
	github.com/evstack/ev-node/sequencers/single => /repo/sequencers/single
)

require (
	github.com/celestiaorg/utils v0.1.0 // indirect
	github.com/go-task/slim-sprig/v3 v3.0.0 // indirect
	github.com/google/pprof v0.0.0-20250317173921-a4b03ec1a45e // indirect
	github.com/gopherjs/gopherjs v0.0.0-20190812055157-5d271430af9f // indirect
	github.com/inconshreveable/mousetrap v1.1.0 // indirect
	github.com/onsi/ginkgo/v2 v2.23.3 // indirect
	github.com/pion/mdns/v2 v2.0.7 // indirect
	go.uber.org/mock v0.5.0 // indirect
	golang.org/x/mod v0.25.0 // indirect
	golang.org/x/time v0.9.0 // indirect
	golang.org/x/tools v0.34.0 // indirect
)
