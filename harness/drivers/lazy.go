package drivers

import (
	"context"
	"fmt"
	mrand "math/rand"
	"sync"
	"testing/synctest"
	"time"

	"verif/harness/world"
)

const lazyTick = 10 * time.Millisecond

// lazyScenario runs the real AggregationLoop in virtual time with the production function replaced
// by a recorder (the seam the package's own tests use). Times are logged in ms since loop start.
func lazyScenario(c *Ctx, run string, lazy bool, bt, lz int, durs []int, notifyAt []int, horizon int) {
	lazyScenarioResume(c, run, lazy, bt, lz, durs, notifyAt, horizon, -1)
}

// resumeAge >= 0: the loop starts on an existing chain whose last block is that many ticks old (a restarted node).
func lazyScenarioResume(c *Ctx, run string, lazy bool, bt, lz int, durs []int, notifyAt []int, horizon int, resumeAge int) {
	synctest.Run(func() {
		c.Tr.Reset(run, world.F{"driver": "lazy", "ih": 1})
		w := world.NewWorld(c.Tr, 1, time.Now().Add(-time.Hour))
		defer w.Close()
		n := w.NewNode(world.NodeOpts{Name: "seq", Aggregator: true, Lazy: lazy, BlockTime: time.Duration(bt) * lazyTick, LazyInterval: time.Duration(lz) * lazyTick})
		n.KV.Quiet = true
		if err := n.Start(context.Background()); err != nil {
			return
		}
		if resumeAge >= 0 {
			// two real blocks first: the block at the initial height, and one stamped resumeAge ticks ago
			c.Tr.Mute()
			err := n.Step(context.Background())
			if err == nil {
				n.SeqD.Script = append(n.SeqD.Script, world.SeqReply{Kind: "empty", TsMs: world.Ms(time.Now().Add(-time.Duration(resumeAge) * lazyTick))})
				err = n.Step(context.Background())
			}
			c.Tr.Unmute()
			if err != nil {
				c.Tr.Emit("LazySetupErr", world.F{"msg": err.Error()})
				return
			}
		}
		t0 := time.Now()
		ms := func() int { return int(time.Since(t0) / time.Millisecond) }
		var mu sync.Mutex
		k := 0
		n.M.VerifSetPublishBlock(func(ctx context.Context) error {
			mu.Lock()
			d := durs[k%len(durs)]
			k++
			idx := k
			mu.Unlock()
			c.Tr.Emit("ProdStart", world.F{"t": ms(), "k": idx})
			if d > 0 {
				select {
				case <-time.After(time.Duration(d) * lazyTick):
				case <-ctx.Done():
				}
			}
			c.Tr.Emit("ProdEnd", world.F{"t": ms(), "k": idx})
			return nil
		})
		c.Tr.Emit("LazyCfg", world.F{"lazy": lazy, "bt": bt * 10, "lz": lz * 10})
		ctx, cancel := context.WithCancel(context.Background())
		errCh := make(chan error, 1)
		done := make(chan struct{})
		go func() {
			defer close(done)
			n.M.AggregationLoop(ctx, errCh)
		}()
		for _, at := range notifyAt {
			if d := time.Duration(at)*lazyTick - time.Since(t0); d > 0 {
				time.Sleep(d)
			}
			synctest.Wait()
			c.Tr.Emit("Notify", world.F{"t": ms()})
			n.M.NotifyNewTransactions()
			synctest.Wait()
		}
		if d := time.Duration(horizon)*lazyTick - time.Since(t0); d > 0 {
			time.Sleep(d)
		}
		synctest.Wait()
		c.Tr.Emit("LazyEnd", world.F{"t": ms()})
		cancel()
		<-done
	})
}

// RunLazy enumerates block/idle interval ratios, production durations shorter and longer than the
// block interval, and notification instants (including inside a production) in lazy and normal mode.
func RunLazy(c *Ctx) {
	rng := mrand.New(mrand.NewSource(c.Seed + 77))
	durSets := [][]int{{0}, {1}, {3}, {5}, {4, 0}, {0, 4}, {2, 7, 0}}
	type cfg struct{ bt, lz int }
	cfgs := []cfg{{2, 5}, {3, 6}, {2, 2}, {3, 7}, {2, 9}, {3, 1}, {4, 2}}
	// a restarted node (existing chain, last block a tick or two old) that is notified right after its start
	for _, lazy := range []bool{true, false} {
		for _, cf := range cfgs {
			for _, age := range []int{0, 1, cf.bt} {
				for _, at := range []int{0, 1} {
					lazyScenarioResume(c, fmt.Sprintf("lazy/%v/bt%d-lz%d/resume%d/n%d", lazy, cf.bt, cf.lz, age, at), lazy, cf.bt, cf.lz, []int{0}, []int{at}, 40, age)
					c.Count("lazyruns", 1)
				}
			}
		}
	}
	for _, lazy := range []bool{true, false} {
		for _, cf := range cfgs {
			for di, durs := range durSets {
				// no notification at all: idle behaviour
				lazyScenario(c, fmt.Sprintf("lazy/%v/bt%d-lz%d/d%d/none", lazy, cf.bt, cf.lz, di), lazy, cf.bt, cf.lz, durs, nil, 30)
				c.Count("lazyruns", 1)
				for at := 0; at <= 14; at++ {
					if !c.Thorough() && rng.Intn(3) != 0 {
						continue
					}
					lazyScenario(c, fmt.Sprintf("lazy/%v/bt%d-lz%d/d%d/n%d", lazy, cf.bt, cf.lz, di, at), lazy, cf.bt, cf.lz, durs, []int{at}, 40)
					c.Count("lazyruns", 1)
					at2 := at + 1 + rng.Intn(6)
					lazyScenario(c, fmt.Sprintf("lazy/%v/bt%d-lz%d/d%d/n%d-%d", lazy, cf.bt, cf.lz, di, at, at2), lazy, cf.bt, cf.lz, durs, []int{at, at2}, 45)
					c.Count("lazyruns", 1)
				}
			}
		}
	}
}
