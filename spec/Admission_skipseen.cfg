SPECIFICATION Spec
CONSTANTS
  KeyBinding = TRUE
  SignerlessOK = FALSE
  SkipIfSeen = TRUE
INVARIANTS OnlyProposersHeaders OnlyProposersData ExecutedOnlyProposers
CHECK_DEADLOCK FALSE
