---------------------------- MODULE SyncTrace ----------------------------
(***************************************************************************)
(* Tier M monitor for a full node following the proposer (C02, C05, and    *)
(* the full-node side of C03).  The reference chain is produced by the     *)
(* real sequencer node and logged once (Chain).  Events: deliveries of     *)
(* genuine (Deliver) or adversarial (Inject) items over DA, P2P or the     *)
(* sync channels, calls received by the full node's execution layer,       *)
(* crashes / restarts, and the projection of the full node's store after   *)
(* every delivery (Obs).                                                   *)
(***************************************************************************)
EXTENDS TraceLib

VARIABLES l, run, ih, chain, top, phase, got, lastH, nextExec, fresh, maxExec, onDA, finals, cur, chunks, cleanStop, lastIncl, pf, viol

vars == <<l, run, ih, chain, top, phase, got, lastH, nextExec, fresh, maxExec, onDA, finals, cur, chunks, cleanStop, lastIncl, pf, viol>>

NoB == [h |-> 0, hh |-> 0, hash |-> "?", prev |-> "?", t |-> 0, txs |-> <<>>, app |-> <<>>, appok |-> FALSE,
        dh |-> FALSE, sig |-> "none", ssig |-> "none", meta |-> "none", cid |-> FALSE, idx |-> FALSE, dc |-> "?"]
HasBlock(bs, h) == \E i \in 1 .. Len(bs) : bs[i].h = h
BlockAt(bs, h) == IF HasBlock(bs, h) THEN bs[CHOOSE i \in 1 .. Len(bs) : bs[i].h = h] ELSE NoB
C(h) == BlockAt(chain, h)
ChainRootBefore(h) == FlatSeq([i \in 1 .. (h - ih) |-> C(ih + i - 1).txs])
IsEmptyBlk(h) == C(h).txs = <<>>
Complete(g, h) == \A x \in ih .. h : <<"hdr", x>> \in g /\ (IsEmptyBlk(x) \/ <<"data", x>> \in g)

\* Signature of the known finding C02-alias: the node is stuck below a non-empty block whose
\* transaction list is identical to that of another block of the chain (items are remembered as
\* "seen" by data commitment, so the second one is dropped).
AliasStall(hgt) == LET s == hgt + 1 IN s <= top /\ ~IsEmptyBlk(s) /\ \E x \in ih .. top : x # s /\ C(x).txs = C(s).txs

\* data of a block whose tx list equals another block's may be dropped as seen (known finding C02-alias)
AliasSeen(d) == d.kind = "data" /\ \E x \in ih .. top : x # d.h /\ C(x).txs = C(d.h).txs

Same(b, c) == b.hash = c.hash /\ b.txs = c.txs /\ b.app = c.app /\ b.appok /\ b.t = c.t /\ b.hh = c.hh

\* what the node has received at an observation: what was pushed to it directly, plus every genuine
\* blob at a DA height its scan has moved past
Rcvd(o) == got \cup {<<d.kind, d.h>> : d \in {x \in onDA : x.dah < o.daCur}}

ObsChecks(o) == <<
    <<"C09.CursorMatches", (o.up /\ o.tag # "restart") => o.daCur = cur, "the DA scan cursor is not where the fetch history puts it (moved past a height that was not fetched successfully, or failed to move)">>,
    <<"C09.HandedToSync", o.up => \A d \in onDA : (d.dah < o.daCur /\ d.h > o.height /\ d.h <= o.height + 12 /\ ~AliasSeen(d)) =>
          IF d.kind = "hdr" THEN \E i \in 1 .. Len(o.cH) : o.cH[i] = d.h ELSE \E i \in 1 .. Len(o.cD) : o.cD[i] = d.h,
        "a genuine blob at a DA height the scan has moved past was not handed to sync">>,
    <<"C02.Prefix", \A h \in ih .. o.height : HasBlock(o.blocks, h) /\ Same(BlockAt(o.blocks, h), C(h)), "a height up to the node's chain height does not hold the proposer's block">>,
    <<"C05.BlocksPresent", \A h \in ih .. o.height : HasBlock(o.blocks, h) /\ Same(BlockAt(o.blocks, h), C(h)) /\ BlockAt(o.blocks, h).idx, "a height up to the recorded chain height has no retrievable block identical to the proposer's">>,
    <<"C03.OnlyGenuine", \A h \in ih .. o.height : BlockAt(o.blocks, h).sig = "P" /\ BlockAt(o.blocks, h).ssig = "P", "a block in the node's chain is not signed by the genesis proposer's key">>,
    <<"C03.StoredOnlyProposersData", \A h \in ih .. MinOf(o.height, top) : HasBlock(o.blocks, h) => BlockAt(o.blocks, h).txs = C(h).txs /\ BlockAt(o.blocks, h).dh,
        "a block in the node's chain holds transaction data the proposer did not sign for that height">>,
    <<"C03.NothingBeyondProposer", o.height <= top /\ o.stH <= top,
        "the node's chain or state goes beyond the last block the proposer signed">>,
    <<"C03.InclSound", \A h \in ih .. MaxOf(o.incl, o.durIncl) : h <= top =>
          /\ (\E d \in onDA : d.kind = "hdr" /\ d.h = h)
          /\ (IsEmptyBlk(h) \/ (\E d \in onDA : d.kind = "data" /\ d.h = h) \/ (\E d \in onDA : d.kind = "data" /\ C(d.h).txs = C(h).txs)),
        "a block was reported DA-included although the proposer's header / data for it is not on the DA layer">>,
    <<"C03.MarkSound", /\ \A i \in 1 .. Len(o.mH) : \E d \in onDA : d.kind = "hdr" /\ d.h = o.mH[i].h /\ d.dah = o.mH[i].dah
                      /\ \A i \in 1 .. Len(o.mD) : \E d \in onDA : d.kind = "data" /\ d.dah = o.mD[i].dah /\ C(d.h).txs = C(o.mD[i].h).txs,
        "an item was marked as seen on the DA layer at a DA height where no blob signed by the proposer is">>,
    <<"C03.FinalizedGenuine", \A h \in finals : h <= top /\ \E d \in onDA : d.kind = "hdr" /\ d.h = h,
        "the execution layer was asked to finalize a block whose genuine header is not on the DA layer">>,
    \* C07 on a full node (the same facts as C03.InclSound / MarkSound / FinalizedGenuine, under the C07 clauses)
    <<"C07.FullInclBounds", MaxOf(o.incl, o.durIncl) <= o.height \/ ~o.up, "a full node reports a DA-included height above its chain height">>,
    <<"C07.FullInclMonotone", o.up => o.incl >= lastIncl, "the DA-included height a full node reports decreased (also across restarts)">>,
    <<"C07.FullInclSound", \A h \in ih .. MaxOf(o.incl, o.durIncl) : h <= top =>
          /\ (\E d \in onDA : d.kind = "hdr" /\ d.h = h)
          /\ (IsEmptyBlk(h) \/ (\E d \in onDA : d.kind = "data" /\ C(d.h).txs = C(h).txs)),
        "a full node reports a block DA-included although its header / data was not observed on the DA layer">>,
    <<"C07.FullFinalizeBeforeReport", \A h \in ih .. o.incl : h \in finals,
        "a full node reports a DA-included height the execution layer was not asked to finalize first">>,
    <<"C07.FullRecordedDAHeights", /\ \A i \in 1 .. Len(o.mH) : \E d \in onDA : d.kind = "hdr" /\ d.h = o.mH[i].h /\ d.dah = o.mH[i].dah
                                  /\ \A i \in 1 .. Len(o.mD) : \E d \in onDA : d.kind = "data" /\ d.dah = o.mD[i].dah /\ C(d.h).txs = C(o.mD[i].h).txs,
        "the DA height recorded for a block is not a height at which its blob is">>,
    <<"C02.HeightMonotone", o.height >= lastH, "chain height decreased">>,
    <<"C02.NoOvershoot", o.height <= top, "chain height beyond the proposer's chain">>,
    <<"C02.AppliedWhatArrived", (o.up /\ o.tag \in {"deliver", "settled"}) => (AliasStall(o.height) \/ \A h \in ih .. top : Complete(Rcvd(o), h) => o.height >= h),
        "both parts of all blocks up to h were received but the node has not applied h">>,
    <<"C02.AppliedWhatArrived.alias", (o.up /\ o.tag \in {"deliver", "settled"}) => (~AliasStall(o.height) \/ \A h \in ih .. top : Complete(Rcvd(o), h) => o.height >= h),
        "stuck below a block whose tx list equals another block's (data de-duplicated by commitment)">>,
    <<"C05.StateMatches", (o.up /\ o.tag \in {"deliver", "settled", "restart"}) =>
          /\ (o.stOk => o.stH = o.height /\ o.stRootOk /\ o.stRoot = ChainRootBefore(o.height + 1))
          /\ (~o.stOk => o.height = ih - 1), "recorded state does not correspond to the recorded chain height">>
    >>

Init ==
    /\ l = 1 /\ run = "" /\ ih = 1 /\ chain = <<>> /\ top = 0 /\ phase = "" /\ got = {} /\ lastH = 0
    /\ nextExec = 1 /\ fresh = FALSE /\ maxExec = 0 /\ onDA = {} /\ finals = {} /\ cur = 1 /\ chunks = 0 /\ cleanStop = FALSE /\ lastIncl = 0 /\ pf = FALSE /\ viol = <<>>

e == Trace[l]
Is(name) == l <= N /\ e.ev = name
Adv == l' = l + 1
Full == "node" \in DOMAIN e /\ e.node = "full"

TReset ==
    /\ Is("Reset") /\ Adv
    /\ run' = e.run /\ ih' = e.ih /\ chain' = <<>> /\ top' = 0 /\ phase' = "" /\ got' = {} /\ lastH' = 0
    /\ nextExec' = e.ih /\ fresh' = FALSE /\ maxExec' = e.ih - 1 /\ onDA' = {} /\ finals' = {} /\ cur' = (IF "dastart" \in DOMAIN e THEN e.dastart ELSE 1) /\ chunks' = 0 /\ cleanStop' = FALSE /\ lastIncl' = 0 /\ pf' = FALSE
    /\ UNCHANGED viol

TChain ==
    /\ Is("Chain") /\ Adv
    /\ chain' = e.blocks /\ top' = e.top
    /\ UNCHANGED <<pf, run, ih, phase, got, lastH, nextExec, fresh, maxExec, onDA, finals, cur, chunks, cleanStop, lastIncl, viol>>

TPhase ==
    /\ Is("Phase") /\ Adv /\ phase' = e.name
    /\ UNCHANGED <<pf, run, ih, chain, top, got, lastH, nextExec, fresh, maxExec, onDA, finals, cur, chunks, cleanStop, lastIncl, viol>>

TDeliver ==
    /\ Is("Deliver") /\ Adv
    /\ got' = IF e.via \in {"chan", "p2p", "queued", "persistent-p2p"} THEN got \cup {<<e.kind, e.h>>} ELSE got
    /\ onDA' = IF e.via \in {"da", "queued"} THEN onDA \cup {[kind |-> e.kind, h |-> e.h, dah |-> e.dah]} ELSE onDA
    /\ UNCHANGED <<pf, run, ih, chain, top, phase, lastH, nextExec, fresh, maxExec, finals, cur, chunks, cleanStop, lastIncl, viol>>

TObs ==
    /\ Is("Obs") /\ Full /\ Adv
    /\ viol' = viol \o Failed(ObsChecks(e), l, run)
    /\ lastH' = MaxOf(lastH, e.height)
    /\ lastIncl' = (IF e.up THEN e.incl ELSE lastIncl)
    /\ cur' = IF e.tag = "restart" THEN e.daCur ELSE cur
    /\ chunks' = IF e.tag = "restart" THEN 0 ELSE chunks
    /\ UNCHANGED <<pf, run, ih, chain, top, phase, got, nextExec, fresh, maxExec, onDA, finals, cleanStop>>

TExec ==
    /\ Is("ExecTxs") /\ Full /\ Adv
    /\ viol' = viol \o Failed(<<
          <<"C02.AppliedInOrder", e.ok => IF fresh THEN e.h >= ih /\ e.h <= maxExec + 1 ELSE e.h = nextExec,
              "execution layer asked to execute a height out of order">>,
          <<"C02.AppliedProposersTxs", e.ok => e.txs = C(e.h).txs /\ e.prevok /\ e.prev = ChainRootBefore(e.h),
              "executed transactions / previous root are not the proposer's for that height">>,
          <<"C03.ExecutedOnlyProposersData", e.h >= ih /\ e.h <= top /\ e.txs = C(e.h).txs,
              "transaction data that the proposer did not sign for this height was handed to the execution layer">>
          >>, l, run)
    /\ nextExec' = IF e.ok THEN e.h + 1 ELSE nextExec
    /\ maxExec' = IF e.ok THEN MaxOf(maxExec, e.h) ELSE maxExec
    /\ fresh' = IF e.ok THEN FALSE ELSE fresh
    /\ UNCHANGED <<pf, run, ih, chain, top, phase, got, lastH, onDA, finals, cur, chunks, cleanStop, lastIncl>>

TFinal ==
    /\ Is("ExecFinal") /\ Full /\ Adv
    /\ finals' = IF e.ok THEN finals \cup {e.h} ELSE finals
    /\ UNCHANGED <<pf, run, ih, chain, top, phase, got, lastH, nextExec, fresh, maxExec, onDA, cur, chunks, cleanStop, lastIncl, viol>>

\* header-only node: what go-header admitted to the store it serves to light clients
TLight ==
    /\ Is("LightOffer") /\ Adv
    /\ viol' = viol \o Failed(<<
          <<"C03.LightOnlyGenuine", e.res = "admitted" => e.sig = "P" /\ e.hash = C(e.h).hash, "a header not signed by the proposer's key was admitted to the header store of a header-only node">>,
          <<"C03.LightFollows", e.class = "genuine" => e.res = "admitted", "third-party material prevented the header-only node from admitting the proposer's header">>,
          <<"C03.LightPanic", e.res # "panic", "a header offered over P2P made the header-only node's decode / validate / verify path panic">>
          >>, l, run)
    /\ UNCHANGED <<pf, run, ih, chain, top, phase, got, lastH, nextExec, fresh, maxExec, onDA, finals, cur, chunks, cleanStop, lastIncl>>

\* fetch history of the scan: the node must ask for exactly the cursor height; the cursor moves on after
\* "nothing here" or after the listing and every id chunk were fetched
TGetIDs ==
    /\ Is("DAGetIDs") /\ phase = "sync" /\ Adv
    /\ viol' = viol \o Failed(<< <<"C09.ScansInOrder", e.dah = cur, "the scan examined a DA height other than the next unexamined one">> >>, l, run)
    /\ cur' = IF e.dah = cur /\ e.res = "notfound" THEN cur + 1 ELSE cur
    /\ chunks' = IF e.res \in {"ok", "okchunkerr"} THEN (e.nids + 99) \div 100 ELSE 0
    /\ UNCHANGED <<pf, run, ih, chain, top, phase, got, lastH, nextExec, fresh, maxExec, onDA, finals, cleanStop, lastIncl>>

TGet ==
    /\ Is("DAGet") /\ phase = "sync" /\ Adv
    /\ chunks' = IF e.res = "ok" /\ chunks > 0 THEN chunks - 1 ELSE 0
    /\ cur' = IF e.res = "ok" /\ chunks = 1 /\ e.dah = cur THEN cur + 1 ELSE cur
    /\ UNCHANGED <<pf, run, ih, chain, top, phase, got, lastH, nextExec, fresh, maxExec, onDA, finals, cleanStop, lastIncl, viol>>

TCrash ==
    /\ Is("Crash") /\ Full /\ Adv
    /\ got' = {} /\ fresh' = TRUE
    /\ UNCHANGED <<pf, run, ih, chain, top, phase, lastH, nextExec, maxExec, onDA, finals, cur, chunks, cleanStop, lastIncl, viol>>

\* the process was stopped without an orderly shutdown: volatile caches are gone
TStop ==
    /\ Is("Stop") /\ Full /\ Adv
    /\ got' = IF e.clean THEN got ELSE {}
    /\ fresh' = IF e.clean THEN fresh ELSE TRUE
    /\ cleanStop' = e.clean
    /\ UNCHANGED <<pf, run, ih, chain, top, phase, lastH, nextExec, maxExec, onDA, finals, cur, chunks, lastIncl, viol>>

TRestart ==
    /\ Is("Restart") /\ Full /\ Adv
    /\ viol' = viol \o Failed(<< <<"C05.RestartFailed", e.ok, "node cannot start on an image it wrote itself">> >>, l, run)
    \* a start that does not follow an orderly shutdown may re-execute the block that was in flight
    /\ fresh' = (IF cleanStop THEN fresh ELSE TRUE) /\ cleanStop' = FALSE
    /\ UNCHANGED <<pf, run, ih, chain, top, phase, got, lastH, nextExec, maxExec, onDA, finals, cur, chunks, lastIncl>>

\* pf: unsigned third-party transaction data was pushed to the node over P2P in this run.  The listed
\* properties promise that such data is never applied (C03), but only for third-party material on the DA
\* layer that it does not halt the node: a halt after it is not a verdict here (a panic always is).
\* ... and after the node's datastore refused a write (KVFail): halting on that is not covered by any listed
\* property either; the run then checks that an orderly stop, a restart and re-delivery bring the node to the chain
TInject ==
    /\ (Is("Inject") \/ Is("KVFail")) /\ Adv
    /\ pf' = (pf \/ e.ev = "KVFail" \/ e.via = "p2pdata")
    /\ UNCHANGED <<run, ih, chain, top, phase, got, lastH, nextExec, fresh, maxExec, onDA, finals, cur, chunks, cleanStop, lastIncl, viol>>

TNodeErr ==
    /\ (Is("NodeErr") \/ Is("Panic")) /\ Full /\ Adv
    /\ viol' = viol \o Failed(<< <<"C02.Halted", pf /\ e.ev = "NodeErr", "the node halted (sync error or panic) on genuine / third-party traffic">>,
                                 <<"C03.Halted", pf /\ e.ev = "NodeErr", "the node halted (sync error or panic) on genuine / third-party traffic">> >>, l, run)
    /\ got' = {} /\ fresh' = TRUE
    /\ UNCHANGED <<pf, run, ih, chain, top, phase, lastH, nextExec, maxExec, onDA, finals, cur, chunks, cleanStop, lastIncl>>

TQuiesce ==
    /\ Is("Quiesce") /\ Adv
    /\ viol' = viol \o Failed(<<
          <<"C02.Converged", (e.up /\ e.height = e.top) \/ (e.up /\ AliasStall(e.height)), "after every event was delivered the node is not at the proposer's height">>,
          <<"C05.Converged", (e.up /\ e.height = e.top) \/ (e.up /\ AliasStall(e.height)), "after restart and re-delivery the node did not reach the proposer's chain">>,
          <<"C03.Converged", (e.up /\ e.height = e.top) \/ (e.up /\ AliasStall(e.height)), "third-party material prevented the node from following the proposer's chain">>,
          <<"C05.InclusionResumes", (e.up /\ e.height = e.top /\ (\A h \in ih .. top : \E d \in onDA : d.kind = "hdr" /\ d.h = h)) => lastIncl = e.top,
              "every block is on the DA layer and applied, but the node's DA-included height did not reach the chain height">>,
          <<"C07.FullEventuallyIncluded", (e.up /\ (\A h \in ih .. top : (\E d \in onDA : d.kind = "hdr" /\ d.h = h) /\ (IsEmptyBlk(h) \/ \E d \in onDA : d.kind = "data" /\ d.h = h)))
                                               => (lastIncl = e.top \/ AliasStall(e.height) \/ pf),
              "both parts of every block are on the DA layer but the full node's DA-included height did not reach the chain height">>,
          <<"C02.Converged.alias", ~(e.up /\ e.height < e.top /\ AliasStall(e.height)), "stuck below a block whose tx list equals another block's (data de-duplicated by commitment)">>
          >>, l, run)
    /\ UNCHANGED <<pf, run, ih, chain, top, phase, got, lastH, nextExec, fresh, maxExec, onDA, finals, cur, chunks, cleanStop, lastIncl>>

TOther ==
    /\ l <= N /\ Adv
    /\ ~(e.ev \in {"Reset", "Chain", "Phase", "Deliver", "Quiesce", "LightOffer", "Inject", "KVFail"})
    /\ ~(e.ev \in {"DAGetIDs", "DAGet"} /\ phase = "sync")
    /\ ~(Full /\ e.ev \in {"Obs", "ExecTxs", "Crash", "Restart", "NodeErr", "Panic", "Stop", "ExecFinal"})
    /\ UNCHANGED <<pf, run, ih, chain, top, phase, got, lastH, nextExec, fresh, maxExec, onDA, finals, cur, chunks, cleanStop, lastIncl, viol>>

Next == TInject \/ TGetIDs \/ TGet \/ TLight \/ TFinal \/ TStop \/ TReset \/ TChain \/ TPhase \/ TDeliver \/ TObs \/ TExec \/ TCrash \/ TRestart \/ TNodeErr \/ TQuiesce \/ TOther
Spec == Init /\ [][Next]_vars
Finish == (l = N + 1) => ndJsonSerialize("viol.ndjson", viol)
Consumed == TLCGet("stats").diameter = N + 1
==========================================================================
