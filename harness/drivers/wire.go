package drivers

import (
	"github.com/libp2p/go-libp2p/core/crypto"
	"encoding/binary"
	"bytes"
	"context"
	"crypto/sha256"
	"encoding/gob"
	"encoding/hex"
	"encoding/json"
	"fmt"
	mrand "math/rand"
	"os"
	"path/filepath"
	"time"

	ds "github.com/ipfs/go-datastore"
	"google.golang.org/protobuf/proto"

	"github.com/evstack/ev-node/block"
	"github.com/evstack/ev-node/pkg/cache"
	"github.com/evstack/ev-node/pkg/store"
	"github.com/evstack/ev-node/types"
	pb "github.com/evstack/ev-node/types/pb/evnode/v1"

	"verif/harness/world"
)

func be(a, b []byte) bool { return len(a) == 0 && len(b) == 0 || bytes.Equal(a, b) }

func eqHeader(a, b *types.Header) bool {
	return a.BaseHeader == b.BaseHeader && a.Version == b.Version && be(a.LastHeaderHash, b.LastHeaderHash) && be(a.LastCommitHash, b.LastCommitHash) &&
		be(a.DataHash, b.DataHash) && be(a.ConsensusHash, b.ConsensusHash) && be(a.AppHash, b.AppHash) && be(a.LastResultsHash, b.LastResultsHash) &&
		be(a.ValidatorHash, b.ValidatorHash) && be(a.ProposerAddress, b.ProposerAddress)
}

func eqData(a, b *types.Data) bool {
	if (a.Metadata == nil) != (b.Metadata == nil) {
		return false
	}
	if a.Metadata != nil && (a.Metadata.ChainID != b.Metadata.ChainID || a.Metadata.Height != b.Metadata.Height || a.Metadata.Time != b.Metadata.Time || !be(a.Metadata.LastDataHash, b.Metadata.LastDataHash)) {
		return false
	}
	if len(a.Txs) != len(b.Txs) {
		return false
	}
	for i := range a.Txs {
		if !be(a.Txs[i], b.Txs[i]) {
			return false
		}
	}
	return true
}

// RunWire (C12): every wire type in every shape of Wire.tla's shape space through every path
// (binary codec, block store, DA blob, cache file, cursor list), golden vectors, commitment
// properties, and mutated bytes offered to every decoder.
func RunWire(c *Ctx, goldenDir string) error {
	rng := mrand.New(mrand.NewSource(c.Seed + 909))
	c.Tr.Reset("wire", world.F{"driver": "wire", "ih": 1})
	w := world.NewWorld(c.Tr, 1, world.T0)
	defer w.Close()
	bytesShapes := map[string]func() []byte{"nil": func() []byte { return nil }, "empty": func() []byte { return []byte{} }, "val": func() []byte { b := make([]byte, 32); rng.Read(b); return b }}
	intShapes := map[string]uint64{"zero": 0, "mid": 123456789, "max": ^uint64(0)}
	txShapes := map[string]func() types.Txs{
		"nil": func() types.Txs { return nil }, "none": func() types.Txs { return types.Txs{} },
		"one": func() types.Txs { return types.Txs{[]byte("tx-one")} },
		"many": func() types.Txs {
			t := types.Txs{}
			for i := 0; i < 1+rng.Intn(40); i++ {
				b := make([]byte, rng.Intn(100))
				rng.Read(b)
				t = append(t, b)
			}
			return t
		},
		"hasempty": func() types.Txs { return types.Txs{[]byte("a"), []byte{}, []byte("b")} },
	}
	sign := func(h *types.Header) []byte {
		bz, _ := types.DefaultSignaturePayloadProvider(h)
		s, _ := w.Signer.Sign(bz)
		return s
	}
	emit := func(typ, shape, path string, eq, hasheq, sigok bool, res string) {
		c.Tr.Emit("WCase", world.F{"type": typ, "shape": shape, "path": path, "eq": eq, "hasheq": hasheq, "sigok": sigok, "res": res})
	}
	guard := func(typ, shape, path string, f func()) {
		defer func() {
			if p := recover(); p != nil {
				c.Tr.Emit("Panic", world.F{"node": "wire", "where": typ + "/" + shape + "/" + path, "msg": trunc(fmt.Sprint(p))})
				emit(typ, shape, path, false, false, false, "panic")
			}
		}()
		f()
	}
	tmp, _ := os.MkdirTemp("", "verif-wire-")
	defer os.RemoveAll(tmp)
	n := 0
	for bs, bf := range bytesShapes {
		for is, iv := range intShapes {
			for ts, tf := range txShapes {
				n++
				shape := bs + "/" + is + "/" + ts
				txs := tf()
				d := &types.Data{Txs: txs, Metadata: &types.Metadata{ChainID: world.ChainID, Height: iv, Time: iv, LastDataHash: bf()}}
				if bs == "nil" && is == "zero" {
					d.Metadata = nil
				}
				h := types.Header{BaseHeader: types.BaseHeader{ChainID: world.ChainID, Height: iv, Time: iv}, Version: types.Version{Block: iv, App: iv},
					LastHeaderHash: bf(), LastCommitHash: bf(), DataHash: d.DACommitment(), ConsensusHash: bf(), AppHash: bf(), LastResultsHash: bf(), ValidatorHash: bf(), ProposerAddress: w.PropAddr}
				sh := &types.SignedHeader{Header: h, Signer: types.Signer{PubKey: w.PropPub, Address: w.PropAddr}}
				sh.Signature = sign(&sh.Header)
				// 1. binary codec hops (1..3)
				guard("SignedHeader", shape, "binary", func() {
					cur := sh
					ok, hashok, sigok := true, true, true
					for hop := 0; hop < 3; hop++ {
						bz, err := cur.MarshalBinary()
						nx := new(types.SignedHeader)
						if err != nil || nx.UnmarshalBinary(bz) != nil {
							emit("SignedHeader", shape, "binary", false, false, false, "err")
							return
						}
						ok = ok && eqHeader(&nx.Header, &sh.Header) && be(nx.Signature, sh.Signature) && be(nx.Signer.Address, sh.Signer.Address) &&
							(nx.Signer.PubKey == nil) == (sh.Signer.PubKey == nil) && (sh.Signer.PubKey == nil || nx.Signer.PubKey.Equals(sh.Signer.PubKey))
						hashok = hashok && bytes.Equal(nx.Hash(), sh.Hash())
						sigok = sigok && nx.ValidateBasic() == nil
						cur = nx
					}
					emit("SignedHeader", shape, "binary", ok, hashok, sigok, "ok")
				})
				guard("Data", shape, "binary", func() {
					bz, err := d.MarshalBinary()
					nx := new(types.Data)
					if err != nil || nx.UnmarshalBinary(bz) != nil {
						emit("Data", shape, "binary", false, false, true, "err")
						return
					}
					bz2, _ := nx.MarshalBinary()
					emit("Data", shape, "binary", eqData(nx, d) && bytes.Equal(bz, bz2), bytes.Equal(nx.Hash(), d.Hash()) && bytes.Equal(nx.DACommitment(), d.DACommitment()), true, "ok")
				})
				// 1b. a signer whose address is NOT derived from its key (other address scheme, third-party material):
				// the codec must carry it unchanged, and the validation verdict must be the same after the hop
				guard("SignedHeader", shape, "binary-foreignaddr", func() {
					fh := &types.SignedHeader{Header: h, Signer: types.Signer{PubKey: w.PropPub, Address: []byte("a-20-byte-address!!!")}}
					fh.Header.ProposerAddress = fh.Signer.Address
					fh.Signature = sign(&fh.Header)
					before := fh.ValidateBasic() == nil
					bz, err := fh.MarshalBinary()
					nx := new(types.SignedHeader)
					if err != nil || nx.UnmarshalBinary(bz) != nil {
						emit("SignedHeader", shape, "binary-foreignaddr", false, false, false, "err")
						return
					}
					bz2, _ := nx.MarshalBinary()
					emit("SignedHeader", shape, "binary-foreignaddr", be(nx.Signer.Address, fh.Signer.Address) && bytes.Equal(bz, bz2), bytes.Equal(nx.Hash(), fh.Hash()), (nx.ValidateBasic() == nil) == before, "ok")
					bzd, _ := d.MarshalBinary()
					sg, _ := w.Signer.Sign(bzd)
					sd := &types.SignedData{Data: *d, Signature: sg, Signer: fh.Signer}
					if d.Metadata == nil {
						return
					}
					blob, err := sd.MarshalBinary()
					var nd types.SignedData
					if err != nil || nd.UnmarshalBinary(blob) != nil {
						emit("SignedData", shape, "binary-foreignaddr", false, false, false, "err")
						return
					}
					blob2, _ := nd.MarshalBinary()
					emit("SignedData", shape, "binary-foreignaddr", be(nd.Signer.Address, sd.Signer.Address) && bytes.Equal(blob, blob2), true, true, "ok")
				})
				// 2. block store path
				guard("Block", shape, "store", func() {
					st := store.New(world.NewCrashKV(nil, "wire"))
					sig := sh.Signature
					if err := st.SaveBlockData(context.Background(), sh, d, &sig); err != nil {
						emit("Block", shape, "store", false, false, false, "err")
						return
					}
					h2, d2, err := st.GetBlockData(context.Background(), sh.Height())
					if err != nil {
						emit("Block", shape, "store", false, false, false, "err")
						return
					}
					emit("Block", shape, "store", eqHeader(&h2.Header, &sh.Header) && eqData(d2, d), bytes.Equal(h2.Hash(), sh.Hash()) && bytes.Equal(d2.DACommitment(), d.DACommitment()), h2.ValidateBasic() == nil, "ok")
				})
				// 3. DA blob path
				guard("SignedHeader", shape, "dablob", func() {
					blob := HeaderBlob(sh)
					var hp pb.SignedHeader
					nx := new(types.SignedHeader)
					if proto.Unmarshal(blob, &hp) != nil || nx.FromProto(&hp) != nil {
						emit("SignedHeader", shape, "dablob", false, false, false, "err")
						return
					}
					emit("SignedHeader", shape, "dablob", eqHeader(&nx.Header, &sh.Header), bytes.Equal(nx.Hash(), sh.Hash()), nx.ValidateBasic() == nil, "ok")
				})
				guard("SignedData", shape, "dablob", func() {
					if d.Metadata == nil {
						return
					}
					bz, _ := d.MarshalBinary()
					sg, _ := w.Signer.Sign(bz)
					sd := &types.SignedData{Data: *d, Signature: sg, Signer: types.Signer{PubKey: w.PropPub, Address: w.PropAddr}}
					blob, err := sd.MarshalBinary()
					var nx types.SignedData
					if err != nil || nx.UnmarshalBinary(blob) != nil {
						emit("SignedData", shape, "dablob", false, false, false, "err")
						return
					}
					nb, _ := nx.Data.MarshalBinary()
					vok, _ := nx.Signer.PubKey.Verify(nb, nx.Signature)
					emit("SignedData", shape, "dablob", eqData(&nx.Data, d), bytes.Equal(nx.Data.DACommitment(), d.DACommitment()), vok, "ok")
				})
				// 4. cache file (gob) path
				guard("Cache", shape, "gob", func() {
					gob.Register(&types.SignedHeader{})
					gob.Register(&types.Data{})
					hc := cache.NewCache[types.SignedHeader]()
					dc := cache.NewCache[types.Data]()
					hc.SetItem(7, sh)
					dc.SetItem(7, d)
					hc.SetSeen(sh.Hash().String())
					hc.SetDAIncluded(sh.Hash().String(), 42)
					dir := filepath.Join(tmp, fmt.Sprintf("c%d", n))
					if hc.SaveToDisk(filepath.Join(dir, "h")) != nil || dc.SaveToDisk(filepath.Join(dir, "d")) != nil {
						emit("Cache", shape, "gob", false, false, false, "err")
						return
					}
					hc2 := cache.NewCache[types.SignedHeader]()
					dc2 := cache.NewCache[types.Data]()
					if hc2.LoadFromDisk(filepath.Join(dir, "h")) != nil || dc2.LoadFromDisk(filepath.Join(dir, "d")) != nil {
						emit("Cache", shape, "gob", false, false, false, "err")
						return
					}
					h2, d2 := hc2.GetItem(7), dc2.GetItem(7)
					dah, okd := hc2.GetDAIncludedHeight(sh.Hash().String())
					ok := h2 != nil && d2 != nil && eqHeader(&h2.Header, &sh.Header) && eqData(d2, d) && hc2.IsSeen(sh.Hash().String()) && okd && dah == 42
					hashok := ok && bytes.Equal(h2.Hash(), sh.Hash()) && bytes.Equal(d2.DACommitment(), d.DACommitment())
					emit("Cache", shape, "gob", ok, hashok, ok && h2.ValidateBasic() == nil, "ok")
				})
				// 5. state
				guard("State", shape, "proto", func() {
					s := types.State{Version: types.Version{Block: iv, App: iv}, ChainID: world.ChainID, InitialHeight: iv, LastBlockHeight: iv, LastBlockTime: time.Unix(0, 1700000000123456789).UTC(), DAHeight: iv, AppHash: bf(), LastResultsHash: bf()}
					p, err := s.ToProto()
					var s2 types.State
					if err != nil || s2.FromProto(p) != nil {
						emit("State", shape, "proto", false, true, true, "err")
						return
					}
					ok := s2.ChainID == s.ChainID && s2.InitialHeight == s.InitialHeight && s2.LastBlockHeight == s.LastBlockHeight && s2.LastBlockTime.Equal(s.LastBlockTime) && s2.DAHeight == s.DAHeight && be(s2.AppHash, s.AppHash) && s2.Version == s.Version
					emit("State", shape, "proto", ok, true, true, "ok")
				})
			}
		}
	}
	// cursor list codec
	for _, list := range [][][]byte{nil, {}, {{}}, {[]byte("a")}, {[]byte("a"), {}, []byte("ccc")}, {make([]byte, 70000)}} {
		guard("Cursor", fmt.Sprint(len(list)), "codec", func() {
			enc := block.VerifBatchDataEncode(list)
			dec, err := block.VerifBatchDataDecode(enc)
			ok := err == nil && len(dec) == len(list)
			for i := range list {
				ok = ok && be(dec[i], list[i])
			}
			emit("Cursor", fmt.Sprint(len(list)), "codec", ok, true, true, "ok")
		})
	}
	// the data commitment depends on the ordered transaction list only
	// every optional bytes field set or unset independently of the others (not only all at once): a decoder that
	// couples two fields shows here
	for mask := 0; mask < 1<<7; mask++ {
		f := func(bit int) []byte {
			if mask&(1<<bit) == 0 {
				return nil
			}
			b := make([]byte, 32)
			rng.Read(b)
			return b
		}
		shape := fmt.Sprintf("fields/%07b", mask)
		d := &types.Data{Txs: types.Txs{[]byte("tx")}, Metadata: &types.Metadata{ChainID: world.ChainID, Height: 5, Time: 6, LastDataHash: f(6)}}
		h := types.Header{BaseHeader: types.BaseHeader{ChainID: world.ChainID, Height: 5, Time: 6}, Version: types.Version{Block: 1, App: 2},
			LastHeaderHash: f(0), LastCommitHash: f(1), DataHash: d.DACommitment(), ConsensusHash: f(2), AppHash: f(3), LastResultsHash: f(4), ValidatorHash: f(5), ProposerAddress: w.PropAddr}
		sh := &types.SignedHeader{Header: h, Signer: types.Signer{PubKey: w.PropPub, Address: w.PropAddr}}
		sh.Signature = sign(&sh.Header)
		guard("SignedHeader", shape, "binary", func() {
			bz, err := sh.MarshalBinary()
			nx := new(types.SignedHeader)
			if err != nil || nx.UnmarshalBinary(bz) != nil {
				emit("SignedHeader", shape, "binary", false, false, false, "err")
				return
			}
			bz2, _ := nx.MarshalBinary()
			emit("SignedHeader", shape, "binary", eqHeader(&nx.Header, &sh.Header) && bytes.Equal(bz, bz2), bytes.Equal(nx.Hash(), sh.Hash()), nx.ValidateBasic() == nil, "ok")
		})
		guard("Data", shape, "binary", func() {
			bz, err := d.MarshalBinary()
			nx := new(types.Data)
			if err != nil || nx.UnmarshalBinary(bz) != nil {
				emit("Data", shape, "binary", false, false, true, "err")
				return
			}
			emit("Data", shape, "binary", eqData(nx, d), bytes.Equal(nx.Hash(), d.Hash()) && bytes.Equal(nx.DACommitment(), d.DACommitment()), true, "ok")
		})
	}

	{
		a := &types.Data{Txs: types.Txs{[]byte("x"), []byte("y")}, Metadata: &types.Metadata{ChainID: "c1", Height: 1, Time: 1}}
		b := &types.Data{Txs: types.Txs{[]byte("x"), []byte("y")}, Metadata: &types.Metadata{ChainID: "c2", Height: 9, Time: 7, LastDataHash: []byte("zz")}}
		r := &types.Data{Txs: types.Txs{[]byte("y"), []byte("x")}, Metadata: a.Metadata}
		j := &types.Data{Txs: types.Txs{[]byte("xy")}, Metadata: a.Metadata}
		c.Tr.Emit("WCommit", world.F{"case": "metadata-independent", "ok": bytes.Equal(a.DACommitment(), b.DACommitment())})
		c.Tr.Emit("WCommit", world.F{"case": "order-dependent", "ok": !bytes.Equal(a.DACommitment(), r.DACommitment())})
		c.Tr.Emit("WCommit", world.F{"case": "boundary-dependent", "ok": !bytes.Equal(a.DACommitment(), j.DACommitment())})
		c.Tr.Emit("WCommit", world.F{"case": "hash-includes-metadata", "ok": !bytes.Equal(a.Hash(), b.Hash())})
		e1, e2 := &types.Data{}, &types.Data{Txs: types.Txs{}}
		c.Tr.Emit("WCommit", world.F{"case": "empty-is-the-known-constant", "ok": bytes.Equal(e1.DACommitment(), world.EmptyDataHash) && bytes.Equal(e2.DACommitment(), world.EmptyDataHash)})
	}
	// golden vectors: fixed values keep the exact bytes and hashes they have in the pinned tree
	golden := goldenValues()
	gpath := filepath.Join(goldenDir, "wire.json")
	if raw, err := os.ReadFile(gpath); err == nil {
		var want map[string]string
		json.Unmarshal(raw, &want)
		for k, v := range golden {
			c.Tr.Emit("WGolden", world.F{"name": k, "ok": want[k] == v})
		}
		for k := range want {
			if _, ok := golden[k]; !ok {
				c.Tr.Emit("WGolden", world.F{"name": k, "ok": false})
			}
		}
	} else if os.Getenv("VERIF_WRITE_GOLDEN") == "1" {
		raw, _ := json.MarshalIndent(golden, "", " ")
		os.MkdirAll(goldenDir, 0o755)
		os.WriteFile(gpath, raw, 0o644)
	} else {
		c.Tr.Emit("WGolden", world.F{"name": "golden-file-missing", "ok": false})
	}
	// arbitrary bytes offered to every decoder: error, or a value that re-encodes and decodes to itself
	seeds := [][]byte{}
	{
		d := &types.Data{Txs: types.Txs{[]byte("a"), []byte("bb")}, Metadata: &types.Metadata{ChainID: "c", Height: 3, Time: 4, LastDataHash: []byte("h")}}
		h := types.Header{BaseHeader: types.BaseHeader{ChainID: "c", Height: 3, Time: 4}, DataHash: d.DACommitment(), AppHash: []byte("app"), ProposerAddress: w.PropAddr}
		sh := &types.SignedHeader{Header: h, Signer: types.Signer{PubKey: w.PropPub, Address: w.PropAddr}}
		sh.Signature = sign(&sh.Header)
		b1, _ := sh.MarshalBinary()
		b2, _ := d.MarshalBinary()
		bz, _ := d.MarshalBinary()
		sg, _ := w.Signer.Sign(bz)
		b3, _ := (&types.SignedData{Data: *d, Signature: sg, Signer: sh.Signer}).MarshalBinary()
		b4, _ := h.MarshalBinary()
		seeds = append(seeds, b1, b2, b3, b4, block.VerifBatchDataEncode([][]byte{[]byte("ab"), []byte("c")}))
	}
	muts := 4000
	if c.Thorough() {
		muts = 120000
	}
	decoders := map[string]func([]byte) string{
		"SignedHeader": func(b []byte) string {
			v := new(types.SignedHeader)
			if v.UnmarshalBinary(b) != nil {
				return "err"
			}
			e1, err := v.MarshalBinary()
			if err != nil {
				return "err"
			}
			v2 := new(types.SignedHeader)
			if v2.UnmarshalBinary(e1) != nil {
				return "nofix"
			}
			e2, _ := v2.MarshalBinary()
			_ = v.Hash()
			_ = v.ValidateBasic()
			if bytes.Equal(e1, e2) {
				return "fix"
			}
			return "nofix"
		},
		"Header": func(b []byte) string {
			v := new(types.Header)
			if v.UnmarshalBinary(b) != nil {
				return "err"
			}
			e1, _ := v.MarshalBinary()
			v2 := new(types.Header)
			if v2.UnmarshalBinary(e1) != nil {
				return "nofix"
			}
			e2, _ := v2.MarshalBinary()
			if bytes.Equal(e1, e2) {
				return "fix"
			}
			return "nofix"
		},
		"Data": func(b []byte) string {
			v := new(types.Data)
			if v.UnmarshalBinary(b) != nil {
				return "err"
			}
			e1, _ := v.MarshalBinary()
			v2 := new(types.Data)
			if v2.UnmarshalBinary(e1) != nil {
				return "nofix"
			}
			e2, _ := v2.MarshalBinary()
			_ = v.DACommitment()
			if bytes.Equal(e1, e2) {
				return "fix"
			}
			return "nofix"
		},
		"SignedData": func(b []byte) string {
			var v types.SignedData
			if v.UnmarshalBinary(b) != nil {
				return "err"
			}
			e1, err := v.MarshalBinary()
			if err != nil {
				return "err"
			}
			var v2 types.SignedData
			if v2.UnmarshalBinary(e1) != nil {
				return "nofix"
			}
			e2, _ := v2.MarshalBinary()
			if bytes.Equal(e1, e2) {
				return "fix"
			}
			return "nofix"
		},
		"Cursor": func(b []byte) string {
			v, err := block.VerifBatchDataDecode(b)
			if err != nil {
				return "err"
			}
			e1 := block.VerifBatchDataEncode(v)
			v2, err := block.VerifBatchDataDecode(e1)
			if err != nil || len(v2) != len(v) {
				return "nofix"
			}
			return "fix"
		},
	}
	counts := map[string]int{}
	offer := func(b []byte) {
		for name, dec := range decoders {
			res := "panic"
			func() {
				defer func() {
					if p := recover(); p != nil {
						c.Tr.Emit("Panic", world.F{"node": "wire", "where": "decode/" + name, "msg": trunc(fmt.Sprint(p)) + " input=" + hex.EncodeToString(b[:min(len(b), 40)])})
					}
				}()
				res = dec(b)
			}()
			counts[name+"/"+res]++
			if res == "nofix" || res == "panic" {
				c.Tr.Emit("WMut", world.F{"type": name, "res": res, "input": hex.EncodeToString(b[:min(len(b), 60)])})
			}
		}
	}
	// boundary values of length fields: every 4-byte window of every valid encoding (the first 48 bytes; all of
	// the short cursor-list encoding) overwritten with integers at and around the limits of the field's type -
	// including 2^32 - offset - k, the values for which offset + length wraps around - little and big endian,
	// and a maximal varint in front of every position
	bounds := 0
	for _, src := range seeds {
		lim := len(src) - 4
		if lim > 48 {
			lim = 48
		}
		for o := 0; o <= lim; o++ {
			vals := []uint32{0xFFFFFFFF, 0xFFFFFFFE, 0x80000000, 0x7FFFFFFF, 0x80000001, 0xFFFF0000, uint32(len(src)), uint32(len(src) - o), uint32(len(src) - o + 1)}
			for k := uint32(0); k <= 8; k++ {
				vals = append(vals, uint32(0)-uint32(o)-k, uint32(0)-uint32(o)+k)
			}
			for _, v := range vals {
				le := append([]byte{}, src...)
				binary.LittleEndian.PutUint32(le[o:], v)
				offer(le)
				be := append([]byte{}, src...)
				binary.BigEndian.PutUint32(be[o:], v)
				offer(be)
				bounds += 2
			}
			mv := append(append(append([]byte{}, src[:o]...), 0xff, 0xff, 0xff, 0xff, 0xff, 0xff, 0xff, 0xff, 0xff, 0x01), src[o:]...)
			offer(mv)
			bounds++
		}
	}
	c.Count("decode/boundary-inputs", bounds)
	for i := 0; i < muts; i++ {
		src := seeds[rng.Intn(len(seeds))]
		var b []byte
		switch rng.Intn(6) {
		case 0:
			b = src[:rng.Intn(len(src)+1)]
		case 1:
			b = append([]byte{}, src...)
			if len(b) > 0 {
				b[rng.Intn(len(b))] ^= byte(1 << uint(rng.Intn(8)))
			}
		case 2:
			b = append(append([]byte{}, src...), byte(rng.Intn(256)), byte(rng.Intn(256)))
		case 3:
			b = make([]byte, rng.Intn(64))
			rng.Read(b)
		case 4:
			b = append([]byte{0x0a, 0xff, 0xff, 0xff, 0xff, 0x0f}, src...)
		default:
			b = append([]byte{}, seeds[rng.Intn(len(seeds))]...) // valid bytes of another type
		}
		offer(b)
	}
	for k, v := range counts {
		c.Count("decode/"+k, v)
	}
	c.Tr.Emit("WMutSummary", world.F{"inputs": muts, "decoders": len(decoders)})
	_ = ds.ErrNotFound
	return nil
}

// goldenValues: fixed values of every wire type, their bytes and hashes.
func goldenValues() map[string]string {
	out := map[string]string{}
	d := &types.Data{Txs: types.Txs{[]byte("tx-1"), []byte(""), []byte("tx-3-longer")}, Metadata: &types.Metadata{ChainID: "golden-chain", Height: 42, Time: 1700000000000000000, LastDataHash: bytes.Repeat([]byte{7}, 32)}}
	h := types.Header{BaseHeader: types.BaseHeader{ChainID: "golden-chain", Height: 42, Time: 1700000000000000000}, Version: types.Version{Block: 11, App: 2},
		LastHeaderHash: bytes.Repeat([]byte{1}, 32), DataHash: d.DACommitment(), ConsensusHash: make([]byte, 32), AppHash: bytes.Repeat([]byte{3}, 32),
		ValidatorHash: bytes.Repeat([]byte{4}, 32), ProposerAddress: bytes.Repeat([]byte{5}, 32)}
	hb, _ := h.MarshalBinary()
	db, _ := d.MarshalBinary()
	mb, _ := d.Metadata.MarshalBinary()
	out["header.bytes"] = hex.EncodeToString(hb)
	out["header.hash"] = hex.EncodeToString(h.Hash())
	out["data.bytes"] = hex.EncodeToString(db)
	out["data.hash"] = hex.EncodeToString(d.Hash())
	out["data.commitment"] = hex.EncodeToString(d.DACommitment())
	out["metadata.bytes"] = hex.EncodeToString(mb)
	out["emptydata.commitment"] = hex.EncodeToString((&types.Data{}).DACommitment())
	s := types.State{Version: types.Version{Block: 11, App: 2}, ChainID: "golden-chain", InitialHeight: 1, LastBlockHeight: 42, LastBlockTime: time.Unix(0, 1700000000000000000).UTC(), DAHeight: 9, AppHash: bytes.Repeat([]byte{3}, 32)}
	sp, _ := s.ToProto()
	sb, _ := proto.MarshalOptions{Deterministic: true}.Marshal(sp)
	out["state.bytes"] = hex.EncodeToString(sb)
	out["cursor.bytes"] = hex.EncodeToString(block.VerifBatchDataEncode([][]byte{[]byte("id-1"), {}, []byte("id-three")}))
	// the same types with fields at their zero value, one at a time and all together: what an encoder may be
	// tempted to leave out must keep its bytes (and with them hashes and signing payloads)
	hv := func(name string, x types.Header) {
		bz, _ := x.MarshalBinary()
		out["header."+name+".bytes"] = hex.EncodeToString(bz)
		out["header."+name+".hash"] = hex.EncodeToString(x.Hash())
		if pl, err := types.DefaultSignaturePayloadProvider(&x); err == nil {
			out["header."+name+".signpayload"] = hex.EncodeToString(pl)
		}
	}
	hz := h
	hz.Version = types.Version{}
	hv("zeroversion", hz)
	hz = h
	hz.Version = types.Version{Block: 11}
	hv("zeroappversion", hz)
	hz = h
	hz.BaseHeader.Time = 0
	hv("zerotime", hz)
	hz = h
	hz.BaseHeader.ChainID = ""
	hv("nochainid", hz)
	hz = h
	hz.LastHeaderHash, hz.LastCommitHash = nil, nil
	hv("nolasthashes", hz)
	hz = h
	hz.ConsensusHash, hz.ValidatorHash = nil, nil
	hv("nooptionalhashes", hz)
	hv("allzero", types.Header{})
	hv("heightonly", types.Header{BaseHeader: types.BaseHeader{Height: 1}})
	dv := func(name string, x *types.Data) {
		bz, _ := x.MarshalBinary()
		out["data."+name+".bytes"] = hex.EncodeToString(bz)
		out["data."+name+".hash"] = hex.EncodeToString(x.Hash())
		out["data."+name+".commitment"] = hex.EncodeToString(x.DACommitment())
	}
	dv("nometadata", &types.Data{Txs: d.Txs})
	dv("notxs", &types.Data{Metadata: d.Metadata})
	dv("zerometadata", &types.Data{Txs: d.Txs, Metadata: &types.Metadata{}})
	dv("onetxempty", &types.Data{Txs: types.Txs{[]byte("")}, Metadata: d.Metadata})
	mz, _ := (&types.Metadata{}).MarshalBinary()
	out["metadata.zero.bytes"] = hex.EncodeToString(mz)
	sv := func(name string, x types.State) {
		xp, err := x.ToProto()
		if err != nil {
			out["state."+name+".bytes"] = "error:" + err.Error()
			return
		}
		bz, _ := proto.MarshalOptions{Deterministic: true}.Marshal(xp)
		out["state."+name+".bytes"] = hex.EncodeToString(bz)
	}
	sz := s
	sz.Version = types.Version{}
	sv("zeroversion", sz)
	sz = s
	sz.DAHeight, sz.LastBlockHeight = 0, 0
	sv("zeroheights", sz)
	sz = s
	sz.AppHash = nil
	sv("noapphash", sz)
	sv("allzero", types.State{})
	out["cursor.empty.bytes"] = hex.EncodeToString(block.VerifBatchDataEncode(nil))
	out["cursor.oneempty.bytes"] = hex.EncodeToString(block.VerifBatchDataEncode([][]byte{{}}))
	// signed header and signed data with a fixed key
	seed := sha256.Sum256([]byte("golden-seed"))
	if priv, pub, err := crypto.GenerateEd25519Key(bytes.NewReader(append(seed[:], seed[:]...))); err == nil {
		addr := types.KeyAddress(pub)
		for name, hx := range map[string]types.Header{"full": h, "zeroversion": func() types.Header { x := h; x.Version = types.Version{}; return x }()} {
			hx.ProposerAddress = addr
			pl, _ := types.DefaultSignaturePayloadProvider(&hx)
			sig, _ := priv.Sign(pl)
			sh := types.SignedHeader{Header: hx, Signature: sig, Signer: types.Signer{PubKey: pub, Address: addr}}
			bz, _ := sh.MarshalBinary()
			out["signedheader."+name+".bytes"] = hex.EncodeToString(bz)
			out["signedheader."+name+".hash"] = hex.EncodeToString(sh.Hash())
			out["signedheader."+name+".valid"] = fmt.Sprint(sh.ValidateBasic() == nil)
		}
		dbz, _ := d.MarshalBinary()
		dsig, _ := priv.Sign(dbz)
		sd := types.SignedData{Data: *d, Signature: dsig, Signer: types.Signer{PubKey: pub, Address: addr}}
		sdb, _ := sd.MarshalBinary()
		out["signeddata.bytes"] = hex.EncodeToString(sdb)
		sd0 := types.SignedData{Data: *d}
		sdb0, _ := sd0.MarshalBinary()
		out["signeddata.unsigned.bytes"] = hex.EncodeToString(sdb0)
	}
	return out
}
