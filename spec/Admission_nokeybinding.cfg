SPECIFICATION Spec
CONSTANTS
  KeyBinding = FALSE
  SignerlessOK = FALSE
  SkipIfSeen = FALSE
INVARIANTS OnlyProposersHeaders OnlyProposersData ExecutedOnlyProposers
CHECK_DEADLOCK FALSE
