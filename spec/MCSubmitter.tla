---------------------------- MODULE MCSubmitter ----------------------------
EXTENDS Submitter, Json, IOUtils
Dump == Rec => ndJsonSerialize(IOEnv.VERIF_BEH_DIR \o "/b_" \o ToString(TLCGet("stats").traces) \o ".ndjson", hist)
============================================================================
