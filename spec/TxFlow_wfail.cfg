SPECIFICATION LiveSpec
CONSTANTS
  Txs = {"a", "b", "c"}
  Bound = 1
  MaxCrashes = 2
  PopBeforeSave = TRUE
  ReInject = FALSE
  WriteFails = TRUE
INVARIANTS NoLoss NoDupWithoutCrash
PROPERTIES EventuallyIncluded
CHECK_DEADLOCK FALSE
