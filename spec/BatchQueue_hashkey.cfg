SPECIFICATION Spec
CONSTANTS
  Contents = {1, 2}
  Bound = 2
  MaxOps = 5
  MaxCrashes = 1
  KeyBySeq = FALSE
INVARIANTS FifoNoCrash PendingExact Durable BoundRespected KeysUnique
CHECK_DEADLOCK FALSE
