package world

import (
	"errors"
	"runtime"
	"context"
	"encoding/binary"
	"strconv"
	"strings"
	"sync"

	ds "github.com/ipfs/go-datastore"
	dsq "github.com/ipfs/go-datastore/query"
	"google.golang.org/protobuf/proto"

	"github.com/evstack/ev-node/types"
	pb "github.com/evstack/ev-node/types/pb/evnode/v1"
)

// CrashSentinel is the panic value of a blown write fuse.
type CrashSentinel struct{ At int }

// CrashKV is the durable image of one node process. Every durable write (Put, Delete,
// Batch.Commit = ONE write) is serialised, counted, logged with a decoded summary, and
// subject to the fuse: when armed with k the (k+1)-th write panics with CrashSentinel
// BEFORE being applied, and so does every later write until Rearm/Disarm (the process
// is dead; only the image survives).
type CrashKV struct {
	mu     sync.Mutex
	m      map[string][]byte
	tr     *Tracer
	node   string
	writes int
	fuse   int // -1 = disarmed; otherwise number of writes still allowed
	blown  bool
	Quiet  bool // do not log KV events
	// Yield, when > 0, makes every write yield the processor that many times before it lands (a datastore whose
	// writes go to disk lets other goroutines run in between): the loops that were just signalled get to run
	// between any two durable writes. No virtual time passes, so quiescence points are unaffected.
	Yield int
	// failIn: after failIn-1 more writes, the next write is refused with an error (and not applied): a
	// datastore that reports a write failure (disk full, I/O error) instead of dying; one shot
	failIn int
	// failBatchOp: the failBatchOp-th next operation queued on a batch returns an error; one shot
	failBatchOp int
	// pause: after pauseIn more writes have been applied, the writer blocks until Release
	pauseIn int
	pauseCh chan struct{}
	Paused  bool
	// Probe, when set, is sampled at every durable write (after it was applied): the DA-included
	// height the node reports at that instant.
	Probe func() int
	// Tap, when set, sees every write record right after it was logged (under the write lock).
	Tap func(rec F)
}

// PauseAfter makes the writer of the k-th next write block (after the write was applied)
// until Release is called: a scheduler gate at a durable-write boundary.
func (c *CrashKV) PauseAfter(k int) {
	c.mu.Lock()
	c.pauseIn = k
	c.pauseCh = make(chan struct{})
	c.Paused = false
	c.mu.Unlock()
}

// Release lets a paused writer continue and clears the gate.
func (c *CrashKV) Release() {
	c.mu.Lock()
	ch := c.pauseCh
	c.pauseCh = nil
	c.pauseIn = 0
	c.mu.Unlock()
	if ch != nil {
		close(ch)
	}
}

func (c *CrashKV) IsPaused() bool { c.mu.Lock(); defer c.mu.Unlock(); return c.Paused }

func NewCrashKV(tr *Tracer, node string) *CrashKV {
	return &CrashKV{m: map[string][]byte{}, tr: tr, node: node, fuse: -1}
}

var _ ds.Batching = (*CrashKV)(nil)

// Arm allows k more writes, then crashes.
// FailWrite makes the k-th next write (1 = the next one) return an error without being applied.
func (c *CrashKV) FailWrite(k int) { c.mu.Lock(); c.failIn = k; c.mu.Unlock() }

// ErrInjectedWrite is what a refused write returns.
var ErrInjectedWrite = errors.New("crashkv: injected write failure")

func (c *CrashKV) Arm(k int) { c.mu.Lock(); c.fuse = k; c.blown = false; c.mu.Unlock() }
func (c *CrashKV) Disarm()   { c.mu.Lock(); c.fuse = -1; c.blown = false; c.mu.Unlock() }
func (c *CrashKV) Blown() bool {
	c.mu.Lock()
	defer c.mu.Unlock()
	return c.blown
}
func (c *CrashKV) Writes() int { c.mu.Lock(); defer c.mu.Unlock(); return c.writes }

// Snapshot returns a copy of the image.
func (c *CrashKV) Snapshot() map[string][]byte {
	c.mu.Lock()
	defer c.mu.Unlock()
	out := make(map[string][]byte, len(c.m))
	for k, v := range c.m {
		out[k] = append([]byte(nil), v...)
	}
	return out
}

// Restore replaces the image (used to branch many crash points from one prefix).
func (c *CrashKV) Restore(img map[string][]byte) {
	c.mu.Lock()
	defer c.mu.Unlock()
	c.m = make(map[string][]byte, len(img))
	for k, v := range img {
		c.m[k] = append([]byte(nil), v...)
	}
}

type kvop struct {
	del bool
	key string
	val []byte
}

// gate is called with c.mu held, before a write is applied.
func (c *CrashKV) gate() {
	if c.blown {
		panic(CrashSentinel{At: c.writes})
	}
	if c.fuse == 0 {
		c.blown = true
		panic(CrashSentinel{At: c.writes})
	}
	if c.fuse > 0 {
		c.fuse--
	}
	c.writes++
}

func (c *CrashKV) apply(ops []kvop, batch bool) error {
	for i := 0; i < c.Yield; i++ {
		runtime.Gosched()
	}
	c.mu.Lock()
	if c.failIn > 0 {
		c.failIn--
		if c.failIn == 0 {
			c.mu.Unlock()
			if c.tr != nil && !c.Quiet {
				// which write was refused (same classification as for the writes that land)
				what := summarize(c.node, 0, ops, batch)
				c.tr.Emit("KVFail", F{"node": c.node, "kind": what["kind"], "h": what["h"], "key": what["key"], "op": what["op"]})
			}
			return ErrInjectedWrite
		}
	}
	func() {
		defer func() {
			if r := recover(); r != nil {
				c.mu.Unlock()
				panic(r)
			}
		}()
		c.gate()
	}()
	for _, o := range ops {
		if o.del {
			delete(c.m, o.key)
		} else {
			c.m[o.key] = append([]byte(nil), o.val...)
		}
	}
	w := c.writes
	var wait chan struct{}
	if c.pauseCh != nil && c.pauseIn > 0 {
		c.pauseIn--
		if c.pauseIn == 0 {
			wait = c.pauseCh
			c.Paused = true
		}
	}
	// the record is written while the lock that orders the writes is still held: records of concurrent
	// writers appear in the order in which their writes landed
	if c.tr != nil && !c.Quiet {
		rec := summarize(c.node, w, ops, batch)
		rec["incl"] = -1
		if p := c.Probe; p != nil {
			rec["incl"] = p()
		}
		c.tr.Emit("KV", rec)
		if c.Tap != nil {
			c.Tap(rec)
		}
	}
	c.mu.Unlock()
	if wait != nil {
		<-wait
	}
	return nil
}

func (c *CrashKV) Put(_ context.Context, key ds.Key, value []byte) error {
	return c.apply([]kvop{{key: key.String(), val: value}}, false)
}

func (c *CrashKV) Delete(_ context.Context, key ds.Key) error {
	return c.apply([]kvop{{del: true, key: key.String()}}, false)
}

func (c *CrashKV) Get(_ context.Context, key ds.Key) ([]byte, error) {
	c.mu.Lock()
	defer c.mu.Unlock()
	v, ok := c.m[key.String()]
	if !ok {
		return nil, ds.ErrNotFound
	}
	return append([]byte(nil), v...), nil
}

func (c *CrashKV) Has(_ context.Context, key ds.Key) (bool, error) {
	c.mu.Lock()
	defer c.mu.Unlock()
	_, ok := c.m[key.String()]
	return ok, nil
}

func (c *CrashKV) GetSize(_ context.Context, key ds.Key) (int, error) {
	c.mu.Lock()
	defer c.mu.Unlock()
	v, ok := c.m[key.String()]
	if !ok {
		return -1, ds.ErrNotFound
	}
	return len(v), nil
}

func (c *CrashKV) Query(_ context.Context, q dsq.Query) (dsq.Results, error) {
	c.mu.Lock()
	entries := make([]dsq.Entry, 0, len(c.m))
	for k, v := range c.m {
		e := dsq.Entry{Key: k, Size: len(v)}
		if !q.KeysOnly {
			e.Value = append([]byte(nil), v...)
		}
		entries = append(entries, e)
	}
	c.mu.Unlock()
	// like badger (the production datastore) results come back in key order
	q2 := q
	if len(q2.Orders) == 0 {
		q2.Orders = []dsq.Order{dsq.OrderByKey{}}
	}
	r := dsq.ResultsWithEntries(q, entries)
	r = dsq.NaiveQueryApply(q2, r)
	return r, nil
}

func (c *CrashKV) Sync(context.Context, ds.Key) error { return nil }
func (c *CrashKV) Close() error                       { return nil }

type crashBatch struct {
	c   *CrashKV
	ops []kvop
}

func (c *CrashKV) Batch(context.Context) (ds.Batch, error) { return &crashBatch{c: c}, nil }

// FailBatchOp makes the k-th next operation queued on a batch (1 = the next one) fail with an error; the batch and the
// datastore stay usable (a batch that refuses one of its operations, e.g. for its size). One shot.
func (c *CrashKV) FailBatchOp(k int) { c.mu.Lock(); c.failBatchOp = k; c.mu.Unlock() }

func (b *crashBatch) opFails() bool {
	c := b.c
	c.mu.Lock()
	defer c.mu.Unlock()
	if c.failBatchOp > 0 {
		c.failBatchOp--
		if c.failBatchOp == 0 {
			if c.tr != nil && !c.Quiet {
				c.tr.Emit("KVFail", F{"node": c.node, "kind": "batchop", "h": len(b.ops) + 1, "key": "", "op": "batchop"})
			}
			return true
		}
	}
	return false
}

func (b *crashBatch) Put(_ context.Context, key ds.Key, value []byte) error {
	if b.opFails() {
		return ErrInjectedWrite
	}
	b.ops = append(b.ops, kvop{key: key.String(), val: append([]byte(nil), value...)})
	return nil
}
func (b *crashBatch) Delete(_ context.Context, key ds.Key) error {
	if b.opFails() {
		return ErrInjectedWrite
	}
	b.ops = append(b.ops, kvop{del: true, key: key.String()})
	return nil
}
func (b *crashBatch) Commit(context.Context) error {
	ops := b.ops
	b.ops = nil
	return b.c.apply(ops, true)
}

// summarize decodes a durable write into the abstract vocabulary of the specifications.
// kind: height | state | block | hdr | data | sig | idx | meta | queue | seen | other
func summarize(node string, w int, ops []kvop, batch bool) F {
	rec := F{"node": node, "w": w, "op": "put", "kind": "other", "h": 0, "key": "", "hash": "", "fin": false, "parts": 0, "ntx": 0}
	if len(ops) == 0 {
		rec["op"] = "batch"
		rec["kind"] = "empty"
		return rec
	}
	if batch {
		rec["op"] = "batch"
		rec["parts"] = len(ops)
		// a block save: header, data, signature, index
		var hk, sk *kvop
		nblock := 0
		for i := range ops {
			o := &ops[i]
			switch {
			case strings.HasPrefix(o.key, "/h/"):
				hk = o
				nblock++
			case strings.HasPrefix(o.key, "/c/"):
				sk = o
				nblock++
			case strings.HasPrefix(o.key, "/d/"), strings.HasPrefix(o.key, "/i/"):
				nblock++
			}
		}
		if hk != nil && nblock == len(ops) {
			rec["kind"] = "block"
			fillHeader(rec, hk)
			rec["fin"] = sk != nil && len(sk.val) > 0
			for i := range ops {
				if strings.HasPrefix(ops[i].key, "/d/") {
					var d types.Data
					if d.UnmarshalBinary(ops[i].val) == nil {
						rec["ntx"] = len(d.Txs)
					}
				}
			}
			return rec
		}
		rec["kind"] = "mixed"
		rec["key"] = ops[0].key
		return rec
	}
	o := &ops[0]
	if o.del {
		rec["op"] = "del"
	}
	rec["key"] = o.key
	switch {
	case o.key == "/t":
		rec["kind"] = "height"
		if len(o.val) == 8 {
			rec["h"] = int(binary.LittleEndian.Uint64(o.val))
		}
	case o.key == "/s":
		rec["kind"] = "state"
		var ps pb.State
		if proto.Unmarshal(o.val, &ps) == nil {
			rec["h"] = int(ps.LastBlockHeight)
		}
	case strings.HasPrefix(o.key, "/m/"):
		rec["kind"] = "meta"
		rec["key"] = strings.TrimPrefix(o.key, "/m/")
		if len(o.val) == 8 {
			v := binary.LittleEndian.Uint64(o.val)
			if v < 1<<30 {
				rec["h"] = int(v)
			}
		}
	case strings.HasPrefix(o.key, "/h/"):
		rec["kind"] = "hdr"
		fillHeader(rec, o)
	case strings.HasPrefix(o.key, "/d/"):
		rec["kind"] = "data"
		rec["h"] = atoi(strings.TrimPrefix(o.key, "/d/"))
	case strings.HasPrefix(o.key, "/c/"):
		rec["kind"] = "sig"
		rec["h"] = atoi(strings.TrimPrefix(o.key, "/c/"))
	case strings.HasPrefix(o.key, "/i/"):
		rec["kind"] = "idx"
	case strings.HasPrefix(o.key, "/batches/"):
		// single sequencer's queue record: "<20-digit sequence number>-<hex content hash>" (older format: the hash only)
		rec["kind"] = "queue"
		k := strings.TrimPrefix(o.key, "/batches/")
		rec["h"] = -1
		if i := strings.IndexByte(k, '-'); i == 20 {
			if n, err := strconv.ParseUint(k[:i], 10, 62); err == nil {
				rec["h"] = int(n)
			}
			k = k[i+1:]
		}
		rec["key"] = short(k)
	case len(o.key) == 65:
		rec["kind"] = "seen"
		rec["key"] = short(o.key[1:])
	}
	return rec
}

func fillHeader(rec F, o *kvop) {
	rec["h"] = atoi(strings.TrimPrefix(o.key, "/h/"))
	var sh types.SignedHeader
	if sh.UnmarshalBinary(o.val) == nil {
		rec["hash"] = short(sh.Hash().String())
	}
}

func atoi(s string) int {
	n, err := strconv.Atoi(s)
	if err != nil {
		return -1
	}
	return n
}

func short(h string) string {
	if len(h) > 10 {
		return h[:10]
	}
	return h
}

// Short is the 10-character prefix used for hashes in traces.
func Short(h string) string { return short(h) }
