SPECIFICATION SSpec
CONSTANTS
  IH = 1
  L = 2
  MaxH = 200
  MaxReplies = 100000000
  MaxCrashes = 100000000
  TxKinds = {}
  SkipEmpty = TRUE
  BaseAtIH = TRUE
  Alias = TRUE
  MarksDurable = FALSE
  SeedDataFromHeader = FALSE
  Rec = FALSE
INVARIANT Finish
POSTCONDITION Consumed
CHECK_DEADLOCK FALSE
