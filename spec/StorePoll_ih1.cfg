SPECIFICATION LiveSpec
CONSTANTS
  IH = 1
  MaxH = 4
  MaxFails = 2
  MonotoneCursor = TRUE
  RetryOnError = TRUE
INVARIANTS CursorAboveBase NothingSkipped
PROPERTIES AllHandedEventually
CHECK_DEADLOCK FALSE
