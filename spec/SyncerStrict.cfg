SPECIFICATION SSpec
CONSTANTS
  IH = 1
  Shape <- ShapeA
  ShapeName = "ShapeA"
  MaxDup = 1000000
  MaxCrashes = 100000000
  MaxRestarts = 100000000
  Alias = TRUE
  BlockFirst = TRUE
  ApplyAtStart = TRUE
  Mix = TRUE
  WriteFails = TRUE
  EvictEarly = FALSE
  Rec = FALSE
  KeyBinding = TRUE
  SignerlessOK = FALSE
  SkipIfSeen = FALSE
INVARIANT Finish
POSTCONDITION Consumed
CHECK_DEADLOCK FALSE
