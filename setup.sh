#!/bin/sh
# Build the harness once from files on disk (offline) so that later checks only pay an incremental build.
set -e
cd "$(dirname "$0")/harness"
export GOFLAGS=-mod=mod GOPROXY=off GOEXPERIMENT=synctest
unset GOTOOLCHAIN GOSUMDB
cat /repo/go.sum /repo/core/go.sum /repo/da/go.sum /repo/sequencers/single/go.sum /repo/sequencers/based/go.sum /repo/apps/testapp/go.sum go.sum 2>/dev/null | sort -u > go.sum.new && mv go.sum.new go.sum
d=$(mktemp -d)
go build -tags verif -o "$d/harness" ./cmd/harness
go build -tags verif -race -o "$d/harness-race" ./cmd/harness
rm -rf "$d"
which tlc >/dev/null
echo setup ok
