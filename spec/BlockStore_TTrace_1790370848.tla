---- MODULE BlockStore_TTrace_1790370848 ----
EXTENDS Sequences, TLCExt, BlockStore, Toolbox, Naturals, TLC

_expression ==
    LET BlockStore_TEExpression == INSTANCE BlockStore_TEExpression
    IN BlockStore_TEExpression!expression
----

_trace ==
    LET BlockStore_TETrace == INSTANCE BlockStore_TETrace
    IN BlockStore_TETrace!trace
----

_inv ==
    ~(
        TLCGet("level") = Len(_TETrace)
        /\
        ops = (2)
        /\
        blocks = (<<"B">>)
        /\
        meta = (<<>>)
        /\
        index = ({<<1, "A">>, <<1, "B">>})
        /\
        state = ("none")
        /\
        height = (0)
    )
----

_init ==
    /\ state = _TETrace[1].state
    /\ index = _TETrace[1].index
    /\ blocks = _TETrace[1].blocks
    /\ ops = _TETrace[1].ops
    /\ meta = _TETrace[1].meta
    /\ height = _TETrace[1].height
----

_next ==
    /\ \E i,j \in DOMAIN _TETrace:
        /\ \/ /\ j = i + 1
              /\ i = TLCGet("level")
        /\ state  = _TETrace[i].state
        /\ state' = _TETrace[j].state
        /\ index  = _TETrace[i].index
        /\ index' = _TETrace[j].index
        /\ blocks  = _TETrace[i].blocks
        /\ blocks' = _TETrace[j].blocks
        /\ ops  = _TETrace[i].ops
        /\ ops' = _TETrace[j].ops
        /\ meta  = _TETrace[i].meta
        /\ meta' = _TETrace[j].meta
        /\ height  = _TETrace[i].height
        /\ height' = _TETrace[j].height

\* Uncomment the ASSUME below to write the states of the error trace
\* to the given file in Json format. Note that you can pass any tuple
\* to `JsonSerialize`. For example, a sub-sequence of _TETrace.
    \* ASSUME
    \*     LET J == INSTANCE Json
    \*         IN J!JsonSerialize("BlockStore_TTrace_1790370848.json", _TETrace)

=============================================================================

 Note that you can extract this module `BlockStore_TEExpression`
  to a dedicated file to reuse `expression` (the module in the 
  dedicated `BlockStore_TEExpression.tla` file takes precedence 
  over the module `BlockStore_TEExpression` below).

---- MODULE BlockStore_TEExpression ----
EXTENDS Sequences, TLCExt, BlockStore, Toolbox, Naturals, TLC

expression == 
    [
        \* To hide variables of the `BlockStore` spec from the error trace,
        \* remove the variables below.  The trace will be written in the order
        \* of the fields of this record.
        state |-> state
        ,index |-> index
        ,blocks |-> blocks
        ,ops |-> ops
        ,meta |-> meta
        ,height |-> height
        
        \* Put additional constant-, state-, and action-level expressions here:
        \* ,_stateNumber |-> _TEPosition
        \* ,_stateUnchanged |-> state = state'
        
        \* Format the `state` variable as Json value.
        \* ,_stateJson |->
        \*     LET J == INSTANCE Json
        \*     IN J!ToJson(state)
        
        \* Lastly, you may build expressions over arbitrary sets of states by
        \* leveraging the _TETrace operator.  For example, this is how to
        \* count the number of times a spec variable changed up to the current
        \* state in the trace.
        \* ,_stateModCount |->
        \*     LET F[s \in DOMAIN _TETrace] ==
        \*         IF s = 1 THEN 0
        \*         ELSE IF _TETrace[s].state # _TETrace[s-1].state
        \*             THEN 1 + F[s-1] ELSE F[s-1]
        \*     IN F[_TEPosition - 1]
    ]

=============================================================================



Parsing and semantic processing can take forever if the trace below is long.
 In this case, it is advised to uncomment the module below to deserialize the
 trace from a generated binary file.

\*
\*---- MODULE BlockStore_TETrace ----
\*EXTENDS IOUtils, BlockStore, TLC
\*
\*trace == IODeserialize("BlockStore_TTrace_1790370848.bin", TRUE)
\*
\*=============================================================================
\*

---- MODULE BlockStore_TETrace ----
EXTENDS BlockStore, TLC

trace == 
    <<
    ([ops |-> 0,blocks |-> <<>>,meta |-> <<>>,index |-> {},state |-> "none",height |-> 0]),
    ([ops |-> 1,blocks |-> <<"A">>,meta |-> <<>>,index |-> {<<1, "A">>},state |-> "none",height |-> 0]),
    ([ops |-> 2,blocks |-> <<"B">>,meta |-> <<>>,index |-> {<<1, "A">>, <<1, "B">>},state |-> "none",height |-> 0])
    >>
----


=============================================================================

---- CONFIG BlockStore_TTrace_1790370848 ----
CONSTANTS
    Heights = { 1 , 2 }
    Variants = { "A" , "B" }
    MetaKeys = { "d" , "l" }
    Values = { "x" , "y" }
    DropStaleIndex = FALSE

INVARIANT
    _inv

CHECK_DEADLOCK
    \* CHECK_DEADLOCK off because of PROPERTY or INVARIANT above.
    FALSE

INIT
    _init

NEXT
    _next

CONSTANT
    _TETrace <- _trace

ALIAS
    _expression
=============================================================================
\* Generated on Fri Sep 25 21:14:09 UTC 2026