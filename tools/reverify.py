#!/usr/bin/env python3
import json, os, re, subprocess, sys, glob
out = open('/tmp/reverify.log', 'a')
names = sorted(os.path.basename(d) for d in glob.glob('/verif/seeded/C*'))
override = {'C05d': 'C15', 'C07f': 'C16', 'C12g': 'C13'}
for name in names:
    pid = name[:3]
    check = override.get(name)
    if not check:
        try:
            m = json.load(open('/verif/seeded/%s/meta.json' % name))
            ch = m.get('verified_by_main', {}).get('checks', {})
            good = [k for k, v in ch.items() if v.get('exit') == 1 and v.get('invariants')]
            check = pid if pid in good or not good else good[0]
        except Exception:
            check = pid
    p = subprocess.run(['/verif/tools/try_mutant.sh', name, check], capture_output=True, text=True)
    m = re.search(r'exit (\d+)', p.stdout)
    invs = sorted(set(re.findall(r'invariant (\S+) at', p.stdout)))
    line = '%s %s exit=%s %s' % (name, check, m.group(1) if m else '?', ','.join(invs)[:150])
    if 'does not apply' in p.stdout or 'not clean' in p.stdout:
        line += ' ' + p.stdout.strip()[:80]
    print(line, file=out, flush=True)
print('REVERIFY-DONE', file=out, flush=True)
