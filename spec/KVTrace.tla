---------------------------- MODULE KVTrace ----------------------------
(***************************************************************************)
(* Tier M monitor for the reference key-value execution layer (C15).  Two  *)
(* real KVExecutor instances are driven independently; the monitor keeps,  *)
(* per instance, the key-value map implied by the successfully executed    *)
(* blocks (KVExec.tla's Apply) and a memo "map -> state root": whenever    *)
(* any instance, at any time, reports a root for a map that was seen       *)
(* before, it must be the same root - whatever was finalized, injected,    *)
(* re-initialised, re-executed or reopened in between.  An execution may   *)
(* meet one transient read failure of its datastore (fault = TRUE): it may *)
(* then fail - the driver executes the block again - but if it succeeds    *)
(* its root is held to the same standard.                                  *)
(***************************************************************************)
EXTENDS TraceLib

VARIABLES l, run, kvm, memo, gen, viol
vars == <<l, run, kvm, memo, gen, viol>>

Init == l = 1 /\ run = "" /\ kvm = <<<<>>, <<>>>> /\ memo = <<>> /\ gen = <<"", "">> /\ viol = <<>>
e == Trace[l]
Is(name) == l <= N /\ e.ev = name
Adv == l' = l + 1

RECURSIVE Apply(_, _)
Apply(m, b) == IF b = <<>> THEN m ELSE Apply((Head(b).k :> Head(b).v) @@ m, Tail(b))
Bad(b) == \E i \in 1 .. Len(b) : b[i].bad

TReset == /\ Is("Reset") /\ Adv /\ run' = e.run /\ kvm' = <<<<>>, <<>>>> /\ memo' = <<>> /\ gen' = <<"", "">> /\ UNCHANGED viol

TCall ==
    /\ Is("XCall") /\ Adv
    /\ LET i == e.inst
           after == IF e.op = "exec" /\ ~Bad(e.txs) THEN Apply(kvm[i], e.txs) ELSE kvm[i]
       IN
       /\ kvm' = [kvm EXCEPT ![i] = IF e.op = "exec" /\ e.ok THEN after ELSE @]
       /\ memo' = IF e.op = "exec" /\ e.ok /\ after \notin DOMAIN memo THEN (after :> e.root) @@ memo ELSE memo
       /\ gen' = IF e.op = "init" /\ e.ok /\ gen[i] = "" /\ kvm[i] = <<>> THEN [gen EXCEPT ![i] = "set:" \o e.root] ELSE gen
       /\ viol' = viol \o Failed(<<
             <<"C15.RootDependsOnlyOnTxs", (e.op = "exec" /\ e.ok /\ after \in DOMAIN memo) => e.root = memo[after],
                 "two executions of the same transaction history reported different state roots">>,
             <<"C15.MalformedChangesNothing", e.op = "exec" => (IF e.fault THEN (e.ok => ~Bad(e.txs)) ELSE (e.ok <=> ~Bad(e.txs))),
                 "a block with a malformed transaction was accepted, or a well-formed block was rejected">>,
             <<"C15.InitIdempotent", (e.op = "init" /\ e.ok /\ gen[i] # "") => ("set:" \o e.root) = gen[i],
                 "repeated chain initialization returned a different genesis root">>,
             <<"C15.CallsSucceed", e.op \in {"init", "final", "gettxs", "reopen", "inject"} => e.ok, "a call failed">>
             >>, l, run)
    /\ UNCHANGED run

TPanic == /\ Is("Panic") /\ Adv /\ viol' = viol \o Failed(<< <<"C15.Panic", FALSE, "panic in executor code">> >>, l, run)
          /\ UNCHANGED <<run, kvm, memo, gen>>
TOther == /\ l <= N /\ Adv /\ e.ev \notin {"Reset", "XCall", "Panic"} /\ UNCHANGED <<run, kvm, memo, gen, viol>>
Next == TReset \/ TCall \/ TPanic \/ TOther
Spec == Init /\ [][Next]_vars
Finish == (l = N + 1) => ndJsonSerialize("viol.ndjson", viol)
Consumed == TLCGet("stats").diameter = N + 1
==========================================================================
