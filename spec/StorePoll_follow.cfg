SPECIFICATION LiveSpec
CONSTANTS
  IH = 2
  MaxH = 4
  MaxFails = 2
  MonotoneCursor = FALSE
  RetryOnError = TRUE
  RestartAtTop = FALSE
  MaxRestarts = 2
INVARIANTS CursorAboveBase NothingSkipped
PROPERTIES AllHandedEventually
CHECK_DEADLOCK FALSE
