SPECIFICATION TSpec
CONSTANTS
  Heights = {1, 2, 3}
  Variants = {"A", "B", "C"}
  MetaKeys = {"d"}
  Values = {"x"}
  DropStaleIndex = TRUE
INVARIANT Finish
POSTCONDITION Consumed
CHECK_DEADLOCK FALSE
