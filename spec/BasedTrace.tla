---------------------------- MODULE BasedTrace ----------------------------
(***************************************************************************)
(* Tier M monitor for the based sequencer (C20): BIdeal lists the          *)
(* transactions on the DA double in DA order with their sizes; every       *)
(* GetNextBatch call on the real based.Sequencer is logged with the        *)
(* requested limit and the released transactions.                          *)
(***************************************************************************)
EXTENDS TraceLib
VARIABLES l, run, ideal, sizes, released, viol
vars == <<l, run, ideal, sizes, released, viol>>
Init == l = 1 /\ run = "" /\ ideal = <<>> /\ sizes = <<>> /\ released = <<>> /\ viol = <<>>
e == Trace[l]
Is(name) == l <= N /\ e.ev = name
Adv == l' = l + 1
MaxSize == IF sizes = <<>> THEN 0 ELSE LET S == {sizes[i] : i \in 1 .. Len(sizes)} IN CHOOSE m \in S : \A x \in S : x <= m

TReset == /\ Is("Reset") /\ Adv /\ run' = e.run /\ ideal' = <<>> /\ sizes' = <<>> /\ released' = <<>> /\ UNCHANGED viol
TIdeal == /\ Is("BIdeal") /\ Adv /\ ideal' = e.txs /\ sizes' = e.sizes /\ UNCHANGED <<run, released, viol>>
TCall == /\ Is("BCall") /\ Adv
         /\ released' = released \o e.txs
         /\ viol' = viol \o Failed(<<
               <<"C20.DAOrderExactlyOnce", IsPrefixOf(released \o e.txs, ideal), "released transactions are not the DA order: one was skipped, repeated or reordered">>,
               <<"C20.SizeBound", e.size <= e.limit, "a batch larger than the requested size was released">>,
               <<"C20.CallWorks", e.res # "err", "GetNextBatch failed">>
               >>, l, run)
         /\ UNCHANGED <<run, ideal, sizes>>
TEnd == /\ Is("BEnd") /\ Adv
        /\ viol' = viol \o Failed(<<
              <<"C20.Complete", MaxSize < 6 => released = ideal, "with the DA layer fully available and a sufficient size limit not every transaction was released">>
              >>, l, run)
        /\ UNCHANGED <<run, ideal, sizes, released>>
TRestart == /\ Is("BRestart") /\ Adv /\ viol' = viol \o Failed(<< <<"C20.RestartFailed", e.ok, "the sequencer cannot start on its own datastore">> >>, l, run)
            /\ UNCHANGED <<run, ideal, sizes, released>>
TPanic == /\ Is("Panic") /\ Adv /\ viol' = viol \o Failed(<< <<"C20.Panic", FALSE, "panic in sequencer code">> >>, l, run)
          /\ UNCHANGED <<run, ideal, sizes, released>>
TOther == /\ l <= N /\ Adv /\ e.ev \notin {"Reset", "BIdeal", "BCall", "BEnd", "BRestart", "Panic"} /\ UNCHANGED <<run, ideal, sizes, released, viol>>
Next == TReset \/ TIdeal \/ TCall \/ TEnd \/ TRestart \/ TPanic \/ TOther
Spec == Init /\ [][Next]_vars
Finish == (l = N + 1) => ndJsonSerialize("viol.ndjson", viol)
Consumed == TLCGet("stats").diameter = N + 1
=============================================================================
