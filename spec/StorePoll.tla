---------------------------- MODULE StorePoll ----------------------------
(***************************************************************************)
(* Tier I model of a full node's P2P ingress (block/store.go               *)
(* HeaderStoreRetrieveLoop / DataStoreRetrieveLoop): the sync service      *)
(* fills a height-contiguous store starting at the chain's initial height; *)
(* the loop is woken by a ticker or a signal, compares the store's height  *)
(* with its cursor, reads the range cursor+1 .. height item by item and    *)
(* hands it to SyncLoop.  A read may fail transiently; a height below the  *)
(* store's first one can never be read.                                    *)
(*                                                                         *)
(* Deviations kept as switches:                                            *)
(*   MonotoneCursor = FALSE  the cursor is set to the store's height on    *)
(*                    every poll, also when the store is behind it (pinned *)
(*                    tree: the first poll of the still empty store moves  *)
(*                    the cursor from IH-1 to 0; for IH > 1 every later    *)
(*                    range starts below the store's first height)         *)
(*   RetryOnError = FALSE    a failed read still advances the cursor       *)
(***************************************************************************)
EXTENDS Integers, FiniteSets, TLC

CONSTANTS IH, MaxH, MaxFails, MonotoneCursor, RetryOnError

VARIABLES top,      \* height of the store (0 = empty); it holds IH .. top
          cursor,   \* last height handed to sync
          handed,   \* heights handed to sync
          fails
vars == <<top, cursor, handed, fails>>

Init == top = 0 /\ cursor = IH - 1 /\ handed = {} /\ fails = 0

\* the sync service appends the next item
Append == /\ top < MaxH
          /\ top' = IF top = 0 THEN IH ELSE top + 1
          /\ UNCHANGED <<cursor, handed, fails>>

Readable == cursor + 1 >= IH           \* the store never holds a height below the initial one

\* one wake-up of the loop
PollNothing == /\ top <= cursor
               /\ cursor' = IF MonotoneCursor THEN cursor ELSE top
               /\ UNCHANGED <<top, handed, fails>>
PollOk == /\ top > cursor /\ Readable
          /\ handed' = handed \cup (cursor + 1) .. top
          /\ cursor' = top
          /\ UNCHANGED <<top, fails>>
PollFail == /\ top > cursor /\ (~Readable \/ fails < MaxFails)
            /\ fails' = IF Readable THEN fails + 1 ELSE fails
            /\ cursor' = IF RetryOnError THEN cursor ELSE top
            /\ UNCHANGED <<top, handed>>

Next == Append \/ PollNothing \/ PollOk \/ PollFail
Spec == Init /\ [][Next]_vars
LiveSpec == Spec /\ WF_vars(Append) /\ WF_vars(PollOk) /\ WF_vars(PollNothing) /\ WF_vars(PollFail)

\* C02 (P2P ingress): the cursor never falls below the chain's base, everything in the store is handed over
CursorAboveBase == cursor >= IH - 1
HandedContiguous == handed = IH .. cursor \/ (handed = {} /\ cursor <= IH - 1)
NothingSkipped == \A h \in IH .. cursor : h \in handed
AllHandedEventually == <>[](handed = IH .. MaxH)
=============================================================================
