---------------------------- MODULE LazyAgg ----------------------------
(***************************************************************************)
(* Tier I model of the aggregation loop (block/aggregation.go) in discrete *)
(* time: the lazy loop with its two timers (block timer, idle timer), the  *)
(* one-slot notification channel, the txsAvailable flag, and a production  *)
(* that takes time; and the normal loop with the block timer only.         *)
(* After a production both timers are re-armed relative to the START of    *)
(* that production (getRemainingSleep), with a minimum of one tick.        *)
(***************************************************************************)
EXTENDS Integers, Sequences, FiniteSets, TLC

CONSTANTS BT,        \* block interval (ticks)
          LZ,        \* idle interval (ticks)
          Durs,      \* possible production durations (ticks)
          Horizon,   \* time bound
          MaxNotifs,
          Lazy,      \* BOOLEAN: lazy mode / normal mode
          DrainAfterIdle, \* BOOLEAN deviation: drop a queued notification after an idle-timer block (lost wake-up)
          Resumed, Age,   \* Resumed: the loop starts on an existing chain whose last block is Age ticks old (else a fresh chain)
          StartWaitIdle   \* BOOLEAN deviation (seeded C17f): in lazy mode the start-up wait of a resumed chain is the idle interval

VARIABLES now, bDL, lDL, slot, avail, busyUntil, started, starts, notifs, owe, oweBy

vars == <<now, bDL, lDL, slot, avail, busyUntil, started, starts, notifs, owe, oweBy>>

Idle == busyUntil = -1
Max(a, b) == IF a > b THEN a ELSE b

\* AggregationLoop waits until one block interval after the last block before it starts its timers; until then it
\* listens to nothing but the stop request (a notification stays in its channel)
StartAt == IF ~Resumed THEN 0 ELSE Max(0, (IF StartWaitIdle /\ Lazy THEN LZ ELSE BT) - Age)
Init == /\ now = 0 /\ bDL = StartAt /\ lDL = StartAt /\ slot = 0 /\ avail = FALSE /\ busyUntil = -1 /\ started = 0
        /\ starts = (IF ~Resumed THEN <<>> ELSE <<0 - Age>>) /\ notifs = 0 /\ owe = FALSE /\ oweBy = 0

\* a notification arrives (non-blocking send into the one-slot channel)
Notify == /\ notifs < MaxNotifs /\ now < Horizon - 2 * BT
          /\ notifs' = notifs + 1 /\ slot' = 1
          \* obligation: a (further) production must START within one block interval - counted from now
          \* when idle, from the end of the production in flight otherwise (set at ProdEnd)
          /\ owe' = TRUE
          /\ oweBy' = IF owe THEN oweBy ELSE IF Idle THEN now + BT ELSE 0
          /\ UNCHANGED <<now, bDL, lDL, avail, busyUntil, started, starts>>

TakeNotify == /\ Idle /\ now >= StartAt /\ slot = 1 /\ slot' = 0 /\ avail' = TRUE
              /\ UNCHANGED <<now, bDL, lDL, busyUntil, started, starts, notifs, owe, oweBy>>

StartProd(d, viaIdle) ==
    /\ busyUntil' = now + Max(d, 0) /\ started' = now
    /\ starts' = Append(starts, now)
    \* a production that starts after the notification discharges the obligation
    /\ owe' = FALSE /\ oweBy' = 0
    /\ UNCHANGED <<now, slot, notifs>>

FireLazy(d) == /\ Lazy /\ Idle /\ now >= lDL /\ StartProd(d, TRUE)
               /\ avail' = avail /\ bDL' = bDL /\ lDL' = Horizon + 100

FireBlock(d) == /\ Idle /\ now >= bDL
                /\ IF Lazy /\ ~avail
                      THEN /\ bDL' = now + BT          \* keep ticking, nothing to do
                           /\ UNCHANGED <<now, lDL, slot, avail, busyUntil, started, starts, notifs, owe, oweBy>>
                      ELSE /\ StartProd(d, FALSE) /\ avail' = FALSE /\ lDL' = lDL /\ bDL' = Horizon + 100

\* production finished: re-arm both timers relative to its start
ProdEnd == /\ ~Idle /\ now >= busyUntil
           /\ busyUntil' = -1
           /\ bDL' = Max(started + BT, now + 1)
           /\ lDL' = Max(started + LZ, now + 1)
           \* a notification that arrived during this production is owed a block within BT of its end
           /\ oweBy' = IF owe /\ oweBy = 0 THEN now + BT + 1 ELSE oweBy
           /\ slot' = IF DrainAfterIdle /\ lDL > Horizon THEN 0 ELSE slot
           /\ owe' = owe
           /\ UNCHANGED <<now, avail, started, starts, notifs>>

\* time passes only when nothing is due
Due == (Idle /\ (now >= bDL \/ (Lazy /\ now >= lDL) \/ (slot = 1 /\ now >= StartAt))) \/ (~Idle /\ now >= busyUntil)
Tick == /\ ~Due /\ now < Horizon /\ now' = now + 1
        /\ UNCHANGED <<bDL, lDL, slot, avail, busyUntil, started, starts, notifs, owe, oweBy>>

Next == Notify \/ TakeNotify \/ (\E d \in Durs : FireLazy(d) \/ FireBlock(d)) \/ ProdEnd \/ Tick
Spec == Init /\ [][Next]_vars

\* ---- C17 ----------------------------------------------------------------------------
Gaps == [i \in 1 .. (Len(starts) - 1) |-> starts[i + 1] - starts[i]]
\* never faster than one block per block interval
NotFaster == \A i \in 1 .. (Len(starts) - 1) : starts[i + 1] - starts[i] >= BT
\* a notified node starts a (further) block within one block interval: the obligation never expires
NoLostWakeup == owe /\ oweBy > 0 => now <= oweBy
\* without demand: one block per idle interval (lazy) / per block interval (normal), unless production is slower
MaxGap == IF Lazy THEN LZ ELSE BT
Regular == \A i \in 1 .. (Len(starts) - 1) : starts[i + 1] - starts[i] <= Max(MaxGap, 4 + 1)
==========================================================================
