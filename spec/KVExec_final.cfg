SPECIFICATION Spec
CONSTANTS
  Keys = {"a", "b"}
  Vals = {"1", "2"}
  MaxOps = 3
  FinalInRoot = TRUE
INVARIANTS EqualHistoriesEqualRoots
CHECK_DEADLOCK FALSE
