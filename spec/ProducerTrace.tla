---------------------------- MODULE ProducerTrace ----------------------------
(***************************************************************************)
(* Tier M monitor for the sequencer node's production path (C01, C04).     *)
(* Events come from the real block.Manager driven step by step on the real *)
(* store over the crash-injecting datastore.  The predicates are the       *)
(* properties of Producer.tla, evaluated on the projection (Obs) of the    *)
(* real durable image after every step and restart, on every durable write *)
(* (KV), on every call the execution layer received (ExecTxs) and on the   *)
(* payloads handed to the broadcasters (Bcast).                            *)
(***************************************************************************)
EXTENDS TraceLib

VARIABLES l, run, ih, taken, committed, published, durH, bh, stValid, stH, stRoot, stOk, settleH, viol

vars == <<l, run, ih, taken, committed, published, durH, bh, stValid, stH, stRoot, stOk, settleH, viol>>

NoB == [h |-> 0, hh |-> 0, hash |-> "?", prev |-> "?", t |-> 0, txs |-> <<>>, app |-> <<>>, appok |-> FALSE,
        dh |-> FALSE, sig |-> "none", ssig |-> "none", meta |-> "none", cid |-> FALSE, idx |-> FALSE, dc |-> "?"]

HasBlock(o, h) == \E i \in 1 .. Len(o.blocks) : o.blocks[i].h = h
BlockAt(o, h) == IF HasBlock(o, h) THEN o.blocks[CHOOSE i \in 1 .. Len(o.blocks) : o.blocks[i].h = h] ELSE NoB
RootBefore(o, h) == FlatSeq([i \in 1 .. (h - o.ih) |-> BlockAt(o, o.ih + i - 1).txs])

RECURSIVE Embeds(_, _, _, _)
Embeds(o, h, i, tk) ==
    IF h > o.height THEN TRUE
    ELSE IF i > Len(tk) THEN FALSE
    ELSE IF tk[i].txs = BlockAt(o, h).txs /\ tk[i].ts = BlockAt(o, h).t
            THEN Embeds(o, h + 1, i + 1, tk)
            ELSE Embeds(o, h, i + 1, tk)

Hs(o) == o.ih .. o.height

ObsChecks(o) == <<
    <<"C01.Contiguous", \A h \in Hs(o) : HasBlock(o, h) /\ BlockAt(o, h).hh = h /\ BlockAt(o, h).cid, "a height up to the chain height has no block, or a block of another height / chain">>,
    <<"C01.Linked", \A h \in Hs(o) : IF h = o.ih THEN BlockAt(o, h).prev = "" ELSE BlockAt(o, h).prev = BlockAt(o, h - 1).hash, "previous-header hash">>,
    <<"C01.TimeMonotone", \A h \in Hs(o) : h > o.ih => BlockAt(o, h).t >= BlockAt(o, h - 1).t, "block timestamped earlier than its predecessor">>,
    <<"C01.AppRoot", \A h \in Hs(o) : BlockAt(o, h).appok /\ BlockAt(o, h).app = RootBefore(o, h)
                                      /\ (("replay" \in DOMAIN BlockAt(o, h)) => BlockAt(o, h).replay # "bad"),
        "header state root is not the root after all earlier blocks (by the root book, or by replaying the stored chain into a fresh execution layer)">>,
    <<"C01.DataCommit", \A h \in Hs(o) : BlockAt(o, h).dh /\ BlockAt(o, h).meta = "ok" /\ (("ldh" \in DOMAIN BlockAt(o, h)) => BlockAt(o, h).ldh),
        "data hash / metadata does not commit to the stored transactions, or the metadata does not link to the previous block's data">>,
    <<"C01.Signed", \A h \in Hs(o) : BlockAt(o, h).sig = "P" /\ BlockAt(o, h).ssig = "P", "committed block not signed by the genesis proposer">>,
    <<"C01.FromBatch", o.height >= o.ih => Embeds(o, o.ih + 1, 1, taken), "committed blocks are not built from the handed-out batches in order">>,
    <<"C04.Index", \A h \in Hs(o) : BlockAt(o, h).idx, "block not retrievable by its hash">>,
    <<"C04.NoRewrite", \A h \in Hs(o) : h \in DOMAIN committed => committed[h] = BlockAt(o, h).hash, "a committed height now holds a different block">>,
    <<"C04.PublishedCommitted", \A p \in published : p.h <= o.height /\ BlockAt(o, p.h).hash = p.hash, "a published header is not (or no longer) the committed block of its height">>,
    <<"C04.AgreeAtIdle", (o.up /\ o.tag \in {"restart", "step"}) =>
                            /\ (o.stOk => o.stH = o.height /\ o.stRootOk /\ o.stRoot = RootBefore(o, o.height + 1))
                            /\ (~o.stOk => o.height = o.ih - 1)
                            /\ o.memH = o.height, "recorded height, recorded state and stored blocks disagree at rest">>
    >>

CommitFrom(o) == [h \in (DOMAIN committed) \cup Hs(o) |-> IF h \in DOMAIN committed THEN committed[h] ELSE BlockAt(o, h).hash]

Init ==
    /\ l = 1 /\ run = "" /\ ih = 1 /\ taken = <<>> /\ committed = <<>> /\ published = {}
    /\ durH = 0 /\ bh = <<>> /\ stValid = FALSE /\ stH = 0 /\ stRoot = <<>> /\ stOk = FALSE /\ settleH = 0
    /\ viol = <<>>

e == Trace[l]
Is(name) == l <= N /\ e.ev = name
Adv == l' = l + 1

TReset ==
    /\ Is("Reset") /\ Adv
    /\ run' = e.run /\ ih' = e.ih /\ taken' = <<>> /\ committed' = <<>> /\ published' = {}
    /\ durH' = 0 /\ bh' = <<>> /\ stValid' = FALSE /\ stH' = 0 /\ stRoot' = <<>> /\ stOk' = FALSE /\ settleH' = 0
    /\ UNCHANGED viol

TObs ==
    /\ Is("Obs") /\ e.node = "seq" /\ Adv
    /\ viol' = viol \o Failed(ObsChecks(e), l, run)
    /\ committed' = CommitFrom(e)
    /\ stValid' = TRUE /\ stH' = e.stH /\ stRoot' = e.stRoot /\ stOk' = e.stOk
    /\ UNCHANGED <<run, ih, taken, published, durH, bh, settleH>>

TSeqNext ==
    /\ Is("SeqNext") /\ Adv
    /\ taken' = IF e.kind \in {"batch", "empty"} THEN Append(taken, [txs |-> e.txs, ts |-> e.ts]) ELSE taken
    /\ UNCHANGED <<run, ih, committed, published, durH, bh, stValid, stH, stRoot, stOk, settleH, viol>>

TExec ==
    /\ Is("ExecTxs") /\ e.node = "seq" /\ Adv
    /\ viol' = viol \o Failed(<<
          <<"C01.ExecInOrder", (e.ok /\ stValid) =>
                /\ e.prevok
                /\ e.h = (IF stOk THEN stH + 1 ELSE ih)
                /\ e.prev = (IF stOk THEN stRoot ELSE <<>>), "execution layer called out of order or on the wrong previous root">> >>, l, run)
    /\ UNCHANGED <<run, ih, taken, committed, published, durH, bh, stValid, stH, stRoot, stOk, settleH>>

TBcast ==
    /\ Is("Bcast") /\ e.node = "seq" /\ Adv
    /\ published' = IF e.kind = "hdr" /\ e.ok THEN published \cup {[h |-> e.h, hash |-> e.hash]} ELSE published
    /\ UNCHANGED <<run, ih, taken, committed, durH, bh, stValid, stH, stRoot, stOk, settleH, viol>>

TKV ==
    /\ Is("KV") /\ e.node = "seq" /\ Adv
    /\ durH' = IF e.kind = "height" THEN MaxOf(durH, e.h) ELSE durH
    /\ bh' = IF e.kind = "block" THEN (e.h :> e.hash) @@ bh ELSE bh
    /\ stValid' = IF e.kind = "state" THEN FALSE ELSE stValid
    /\ viol' = viol \o Failed(<<
          <<"C04.RewriteKV", (e.kind = "block" /\ e.h <= durH /\ e.h \in DOMAIN bh) => bh[e.h] = e.hash, "a block at a committed height was overwritten by a different block">>,
          <<"C04.HeightStep", e.kind = "height" => (e.h >= durH /\ e.h <= MaxOf(durH + 1, ih)), "recorded chain height decreased or skipped">>,
          <<"C04.AtomicBlockSave", e.kind \notin {"hdr", "data", "sig", "idx", "mixed"}, "block parts written outside one atomic batch">>
          >>, l, run)
    /\ UNCHANGED <<run, ih, taken, committed, published, stH, stRoot, stOk, settleH>>

TRestart ==
    /\ Is("Restart") /\ e.node = "seq" /\ Adv
    /\ viol' = viol \o Failed(<< <<"C04.RestartFailed", e.ok, "node cannot start on an image it wrote itself">> >>, l, run)
    /\ UNCHANGED <<run, ih, taken, committed, published, durH, bh, stValid, stH, stRoot, stOk, settleH>>

TQuiesce ==
    /\ Is("Quiesce") /\ Adv
    /\ viol' = viol \o Failed(<< <<"C01.Progress", e.h1 >= e.h0 + 1, "no block committed during the settle phase (well-formed replies, no faults)">> >>, l, run)
    /\ UNCHANGED <<run, ih, taken, committed, published, durH, bh, stValid, stH, stRoot, stOk, settleH>>

TPanic ==
    /\ Is("Panic") /\ Adv
    /\ viol' = viol \o Failed(<< <<"C01.Panic", FALSE, "panic inside node code">> >>, l, run)
    /\ UNCHANGED <<run, ih, taken, committed, published, durH, bh, stValid, stH, stRoot, stOk, settleH>>

Handled == {"Reset", "Obs", "SeqNext", "ExecTxs", "Bcast", "KV", "Restart", "Quiesce", "Panic"}

TOther ==
    /\ l <= N /\ Adv
    /\ (e.ev \notin Handled \/ (e.ev \in {"Obs", "ExecTxs", "Bcast", "KV", "Restart"} /\ e.node # "seq"))
    /\ UNCHANGED <<run, ih, taken, committed, published, durH, bh, stValid, stH, stRoot, stOk, settleH, viol>>

Next == TReset \/ TObs \/ TSeqNext \/ TExec \/ TBcast \/ TKV \/ TRestart \/ TQuiesce \/ TPanic \/ TOther

Spec == Init /\ [][Next]_vars

\* written once, when the whole trace has been consumed
Finish == (l = N + 1) => ndJsonSerialize("viol.ndjson", viol)
Consumed == TLCGet("stats").diameter = N + 1
==============================================================================
