package world

import (
	"strings"
	"context"
	"crypto/sha256"
	"encoding/binary"
	"errors"
	"fmt"
	"sync"
	"time"

	coreda "github.com/evstack/ev-node/core/da"
)

// DADouble is a coreda.DA with explicit heights, many blobs per height, a current height,
// a scripted outcome per Submit call and scripted fetch outcomes per height.
//
// Submit outcomes: ok | prefix:<k> | timeout | mempool | toobig | seqnum | deadline | err | acklost | cancel
// Fetch outcomes (per GetIDs call on a height, consumed in order, then the natural answer):
//
//	notfound | future | errlist | deadline | canceled | errchunk:<i>[:notfound|future|deadline] | ok
//
// deadline / canceled: the listing fails with a context error although the caller's context is alive (the
// per-request timeout fired, or the DA server cancelled the request on its side).
type DADouble struct {
	// ContentIDs: ids are height + commitment only (as in core/da.DummyDA and local-da), so the same blob placed
	// twice at one height is listed under the same id twice
	ContentIDs bool
	mu      sync.Mutex
	tr      *Tracer
	cur     uint64
	heights map[uint64][]daBlob
	byID    map[string][]byte
	seq     int
	// SubmitScript is consumed one entry per Submit call; exhausted => Default.
	SubmitScript []string
	Default      string
	// FetchScript[height] is consumed one entry per GetIDs call on that height.
	FetchScript map[uint64][]string
	chunkErr    map[uint64]int // height -> index of the Get call that must fail (armed by errchunk)
	chunkKind   map[uint64]string // height -> error class of that failure (errchunk:<i>:<class>)
	getCalls    map[uint64]int
	// Classify decodes a blob into a trace summary (kind, h, hash, sig, ntx).
	Classify func([]byte) F
	// SubmitDelay: a Submit call takes this long (real time) before it is answered; one shot.
	SubmitDelay time.Duration
	// HangUntil: a Submit call that arrives before this instant is never answered (it ends only with its context):
	// a request swallowed by an outage. Calls that arrive later are answered normally.
	HangUntil time.Time
	// SubmitGate, when non-nil, is received from before a Submit call is answered.
	SubmitGate chan struct{}
	// MaxBlob, when > 0, rejects the whole call with ErrBlobSizeOverLimit if any blob is larger.
	MaxBlob int
	// Accepted is the ordered log of blobs the DA layer really holds because of Submit calls.
	Accepted []F
	// AutoAdvance: current height follows submissions (cur = height of last accepted blob).
	Submits int
	// LastOffered is the number of blobs of the most recent Submit call.
	LastOffered int
	// Quiet suppresses the DAGet / DAGetIDs records (bulk scenarios).
	Quiet bool
	// AtSubmitGate, when set, is called when a Submit call starts waiting at the gate.
	AtSubmitGate func()
	// GateIgnoresCtx: a Submit call held at SubmitGate does not give up when its context ends (an in-process DA
	// layer, or a request that already left for the network): it completes when the gate opens.
	GateIgnoresCtx bool
	// ErrWrap is how a scripted failure of the DA interface's error values is dressed: "" (the bare value),
	// "front" (context in front of it), "back" (detail behind it), "both".
	ErrWrap string
}

type daBlob struct {
	id   []byte
	data []byte
}

func NewDADouble(tr *Tracer) *DADouble {
	return &DADouble{tr: tr, heights: map[uint64][]daBlob{}, byID: map[string][]byte{}, Default: "ok",
		FetchScript: map[uint64][]string{}, chunkErr: map[uint64]int{}, chunkKind: map[uint64]string{}, getCalls: map[uint64]int{}}
}

var _ coreda.DA = (*DADouble)(nil)

// AcceptedCount returns the number of blobs the DA layer holds because of Submit calls.
func (d *DADouble) AcceptedCount() int { d.mu.Lock(); defer d.mu.Unlock(); return len(d.Accepted) }

func (d *DADouble) Current() uint64 { d.mu.Lock(); defer d.mu.Unlock(); return d.cur }
func (d *DADouble) SetCurrent(h uint64) {
	d.mu.Lock()
	if h > d.cur {
		d.cur = h
	}
	d.mu.Unlock()
}

func (d *DADouble) mkID(height uint64, blob []byte) []byte {
	d.seq++
	c := sha256.Sum256(blob)
	id := make([]byte, 8+32+4)
	binary.LittleEndian.PutUint64(id, height)
	copy(id[8:], c[:])
	if !d.ContentIDs {
		binary.LittleEndian.PutUint32(id[40:], uint32(d.seq))
	}
	return id
}

// Place puts a blob at a DA height directly (third-party or out-of-order placement).
func (d *DADouble) Place(height uint64, blob []byte) {
	d.mu.Lock()
	id := d.mkID(height, blob)
	d.heights[height] = append(d.heights[height], daBlob{id: id, data: append([]byte(nil), blob...)})
	d.byID[string(id)] = append([]byte(nil), blob...)
	d.mu.Unlock()
}

// BlobsAt returns the blobs at a height.
func (d *DADouble) BlobsAt(height uint64) [][]byte {
	d.mu.Lock()
	defer d.mu.Unlock()
	var out [][]byte
	for _, b := range d.heights[height] {
		out = append(out, b.data)
	}
	return out
}

func (d *DADouble) classify(b []byte) F {
	if d.Classify != nil {
		return d.Classify(b)
	}
	return F{"kind": "raw", "h": 0, "hash": "", "sig": "none", "ntx": 0}
}

func (d *DADouble) Submit(ctx context.Context, blobs []coreda.Blob, gasPrice float64, namespace []byte) ([]coreda.ID, error) {
	return d.SubmitWithOptions(ctx, blobs, gasPrice, namespace, nil)
}

func (d *DADouble) SubmitWithOptions(ctx context.Context, blobs []coreda.Blob, gasPrice float64, namespace []byte, options []byte) ([]coreda.ID, error) {
	if !d.HangUntil.IsZero() && time.Now().Before(d.HangUntil) {
		d.tr.Emit("DASubmit", F{"blobs": []F{}, "res": "hung", "acc": 0, "dah": 0, "nb": len(blobs)})
		<-ctx.Done()
		return nil, ctx.Err()
	}
	if dl := d.SubmitDelay; dl > 0 {
		d.SubmitDelay = 0
		time.Sleep(dl)
	}
	if d.SubmitGate != nil && d.GateIgnoresCtx {
		if d.AtSubmitGate != nil {
			d.AtSubmitGate()
		}
		<-d.SubmitGate
	} else if d.SubmitGate != nil {
		select {
		case <-d.SubmitGate:
		case <-ctx.Done():
			d.tr.Emit("DASubmit", F{"blobs": []F{}, "res": "ctxdone", "acc": 0, "dah": 0, "nb": len(blobs)})
			return nil, ctx.Err()
		}
	}
	d.mu.Lock()
	d.Submits++
	d.LastOffered = len(blobs)
	out := d.Default
	if len(d.SubmitScript) > 0 {
		out = d.SubmitScript[0]
		d.SubmitScript = d.SubmitScript[1:]
	}
	if d.MaxBlob > 0 && out == "ok" {
		for _, b := range blobs {
			if len(b) > d.MaxBlob {
				out = "toobig"
			}
		}
	}
	sums := make([]F, 0, len(blobs))
	for _, b := range blobs {
		sums = append(sums, d.classify(b))
	}
	accept := 0
	var err error
	switch {
	case out == "ok" || out == "acklost":
		accept = len(blobs)
		if out == "acklost" {
			err = errors.New("dadouble: acknowledgement lost")
		}
	case len(out) > 8 && out[:8] == "acklost:":
		fmt.Sscanf(out[8:], "%d", &accept)
		if accept > len(blobs) {
			accept = len(blobs)
		}
		err = errors.New("dadouble: acknowledgement lost")
	case len(out) > 7 && out[:7] == "prefix:":
		fmt.Sscanf(out[7:], "%d", &accept)
		if accept > len(blobs) {
			accept = len(blobs)
		}
	case out == "timeout":
		err = coreda.ErrTxTimedOut
	case out == "mempool":
		err = coreda.ErrTxAlreadyInMempool
	case out == "toobig":
		err = coreda.ErrBlobSizeOverLimit
	case out == "cancel":
		err = context.Canceled
	case out == "seqnum":
		err = coreda.ErrTxIncorrectAccountSequence
	case out == "deadline":
		err = coreda.ErrContextDeadline
	default:
		err = errors.New("dadouble: scripted generic failure")
	}
	if err != nil && out != "acklost" && !strings.HasPrefix(out, "acklost:") {
		switch d.ErrWrap {
		case "front":
			err = fmt.Errorf("dadouble: submitting %d blobs: %w", len(blobs), err)
		case "back":
			err = fmt.Errorf("%w: tx 5F2A09 (%d blobs)", err, len(blobs))
		case "both":
			err = fmt.Errorf("rpc error: %w: code 19", err)
		}
	}
	var ids []coreda.ID
	height := uint64(0)
	if accept > 0 {
		height = d.cur + 1
		d.cur = height
		for i := 0; i < accept; i++ {
			id := d.mkID(height, blobs[i])
			d.heights[height] = append(d.heights[height], daBlob{id: id, data: append([]byte(nil), blobs[i]...)})
			d.byID[string(id)] = append([]byte(nil), blobs[i]...)
			ids = append(ids, id)
			a := F{"dah": int(height)}
			for k, v := range sums[i] {
				a[k] = v
			}
			d.Accepted = append(d.Accepted, a)
		}
	}
	d.mu.Unlock()
	d.tr.Emit("DASubmit", F{"blobs": sums, "res": out, "acc": accept, "dah": int(height), "nb": len(blobs)})
	if err != nil {
		return nil, err
	}
	return ids, nil
}

func (d *DADouble) GetIDs(ctx context.Context, height uint64, namespace []byte) (*coreda.GetIDsResult, error) {
	d.mu.Lock()
	out := ""
	if s := d.FetchScript[height]; len(s) > 0 {
		out = s[0]
		d.FetchScript[height] = s[1:]
	}
	if out == "" || out == "ok" {
		switch {
		case height > d.cur:
			out = "future"
		case len(d.heights[height]) == 0:
			out = "notfound"
		default:
			out = "ok"
		}
	}
	var ids []coreda.ID
	if len(out) > 9 && out[:9] == "errchunk:" {
		var i int
		kind := ""
		if parts := strings.SplitN(out[9:], ":", 2); len(parts) == 2 {
			fmt.Sscanf(parts[0], "%d", &i)
			kind = parts[1]
		} else {
			fmt.Sscanf(out[9:], "%d", &i)
		}
		d.chunkErr[height] = d.getCalls[height] + i + 1
		d.chunkKind[height] = kind
		out = "okchunkerr"
	}
	if out == "ok" || out == "okchunkerr" {
		for _, b := range d.heights[height] {
			ids = append(ids, b.id)
		}
	}
	n := len(ids)
	d.mu.Unlock()
	d.tr.Emit("DAGetIDs", F{"dah": int(height), "res": out, "nids": n})
	switch out {
	case "future":
		return nil, fmt.Errorf("%w: requested %d", coreda.ErrHeightFromFuture, height)
	case "notfound":
		return nil, coreda.ErrBlobNotFound
	case "errlist":
		return nil, errors.New("dadouble: scripted listing failure")
	case "deadline":
		return nil, fmt.Errorf("dadouble: listing height %d: %w", height, context.DeadlineExceeded)
	case "canceled":
		return nil, fmt.Errorf("dadouble: listing height %d: %w", height, context.Canceled)
	}
	if n == 0 {
		return &coreda.GetIDsResult{IDs: []coreda.ID{}, Timestamp: time.Unix(0, 0)}, nil
	}
	return &coreda.GetIDsResult{IDs: ids, Timestamp: time.Unix(0, 0)}, nil
}

func (d *DADouble) Get(ctx context.Context, ids []coreda.ID, namespace []byte) ([]coreda.Blob, error) {
	d.mu.Lock()
	height := uint64(0)
	if len(ids) > 0 && len(ids[0]) >= 8 {
		height = binary.LittleEndian.Uint64(ids[0])
	}
	d.getCalls[height]++
	fail := d.chunkErr[height] != 0 && d.chunkErr[height] == d.getCalls[height]
	kind := d.chunkKind[height]
	if fail {
		delete(d.chunkErr, height)
		delete(d.chunkKind, height)
	}
	var out []coreda.Blob
	missing := false
	if !fail {
		for _, id := range ids {
			b, ok := d.byID[string(id)]
			if !ok {
				missing = true
				break
			}
			out = append(out, append([]byte(nil), b...))
		}
	}
	d.mu.Unlock()
	res := "ok"
	if fail {
		res = "err"
	} else if missing {
		res = "missing"
	}
	if fail && kind != "" {
		res = "err-" + kind
	}
	d.tr.Emit("DAGet", F{"dah": int(height), "nids": len(ids), "res": res})
	if fail {
		// the failure of fetching a chunk of ids may carry any error value the DA interface defines
		switch kind {
		case "notfound":
			return nil, fmt.Errorf("dadouble: chunk of height %d: %w", height, coreda.ErrBlobNotFound)
		case "future":
			return nil, fmt.Errorf("dadouble: chunk of height %d: %w", height, coreda.ErrHeightFromFuture)
		case "deadline":
			return nil, fmt.Errorf("dadouble: chunk of height %d: %w", height, context.DeadlineExceeded)
		}
		return nil, errors.New("dadouble: scripted chunk failure")
	}
	if missing {
		return nil, coreda.ErrBlobNotFound
	}
	return out, nil
}

func (d *DADouble) GetProofs(ctx context.Context, ids []coreda.ID, namespace []byte) ([]coreda.Proof, error) {
	out := make([]coreda.Proof, len(ids))
	for i := range ids {
		out[i] = []byte("proof")
	}
	return out, nil
}

func (d *DADouble) Commit(ctx context.Context, blobs []coreda.Blob, namespace []byte) ([]coreda.Commitment, error) {
	out := make([]coreda.Commitment, len(blobs))
	for i, b := range blobs {
		c := sha256.Sum256(b)
		out[i] = c[:]
	}
	return out, nil
}

func (d *DADouble) Validate(ctx context.Context, ids []coreda.ID, proofs []coreda.Proof, namespace []byte) ([]bool, error) {
	out := make([]bool, len(ids))
	d.mu.Lock()
	for i, id := range ids {
		_, out[i] = d.byID[string(id)]
	}
	d.mu.Unlock()
	return out, nil
}

func (d *DADouble) GasPrice(ctx context.Context) (float64, error)      { return 1, nil }
func (d *DADouble) GasMultiplier(ctx context.Context) (float64, error) { return 1.5, nil }
