#!/bin/bash
# Confirms every seeded change against the CURRENT /repo HEAD in a scratch worktree:
# demo passes without the patch, fails with it; the touched module's own tests pass with it.
cd /verif
export GOFLAGS=-mod=mod GOPROXY=off
conf() { # id destdir regex moddir
  id=$1; dest=$2; rx=$3; mod=${4:-.}
  wt=/tmp/cm-$id
  git -C /repo worktree remove --force $wt 2>/dev/null
  git -C /repo worktree add --detach $wt HEAD >/dev/null 2>&1 || { echo "$id: worktree failed"; return; }
  cp seeded/$id/*_test.go seeded/$id/_demo/*_test.go $wt/$mod/$dest/ 2>/dev/null
  ( cd $wt/$mod && go test -vet=off -count=1 -run "$rx" ./$dest/ >/tmp/cm-$id.nopatch.log 2>&1 ) && a=PASS || a=FAIL
  ( cd $wt && git apply -3 /verif/seeded/$id/patch.diff >/dev/null 2>&1 ) || { echo "$id: patch does not apply"; git -C /repo worktree remove --force $wt; return; }
  ( cd $wt/$mod && go test -vet=off -count=1 -run "$rx" ./$dest/ >/tmp/cm-$id.patch.log 2>&1 ) && b=PASS || b=FAIL
  for f in seeded/$id/*_test.go seeded/$id/_demo/*_test.go; do [ -f "$f" ] && rm -f $wt/$mod/$dest/$(basename $f); done
  ( cd $wt/$mod && go build ./... && go test -vet=off -count=1 ./... 2>&1 | grep -E "^--- FAIL|^FAIL" | grep -v "TestSaveGenesis_InvalidPath\|pkg/genesis\|TestClientInfoMethods\|TestDiscovery\|pkg/p2p\|TestHTTPServerContextCancellation\|^FAIL$" > /tmp/cm-$id.suite.log )
  n=$(wc -l < /tmp/cm-$id.suite.log)
  echo "$id: demo_without_patch=$a demo_with_patch=$b other_suite_failures=$n $(head -2 /tmp/cm-$id.suite.log | tr '\n' ' ')"
  git -C /repo worktree remove --force $wt
}
conf C01 block 'TestDemo|TestC01'
conf C02 block 'TestC02_'
conf C03 block 'TestC03Demo'
conf C04 block 'TestDemo'
conf C05 block 'TestDemoC05'
conf C06 block 'TestC06_'
conf C07 block 'TestC07Demo'
conf C08 block 'TestC08_'
conf C09 block 'TestC09Demo'
conf C10 . 'TestC10_' sequencers/single
conf C11 block 'TestC11_'
conf C12 types 'TestC12Demo'
conf C13 block 'TestC13Demo'
conf C14 pkg/store 'TestC14'
conf C15 kv 'TestC15Demo' apps/testapp
conf C16 jsonrpc 'TestC16' da
conf C17 block 'TestLazyAggregation_NotificationDuringIdleBlockIsNotLost'
conf C18 pkg/config 'TestC18'
conf C19 pkg/signer/file 'TestC19'
conf C20 . 'TestC20_' sequencers/based
