#!/bin/sh
# The repository's own test suite with the verif guard OFF (no -tags verif).
cd /repo || exit 2
rc=0
for m in . apps/testapp core da sequencers/based sequencers/single; do
  (cd /repo/$m && GOFLAGS=-mod=mod go test -json -vet=off -count=1 -timeout 25m ./...) || rc=1
done
exit $rc
