package drivers

import (
	"strconv"
	"strings"
)

// Registry maps driver names to entry points. arg is driver specific.
var Registry = map[string]func(c *Ctx, arg string) error{
	"producer": func(c *Ctx, arg string) error {
		ih := uint64(1)
		if arg != "" {
			v, err := strconv.Atoi(arg)
			if err != nil {
				return err
			}
			ih = uint64(v)
		}
		if c.BehDir != "" {
			names, behs, err := LoadBehaviours(c.BehDir)
			if err != nil {
				return err
			}
			for i := range behs {
				RunProducerBehaviour(c, names[i], behs[i], ih)
			}
			return nil
		}
		RunProducerCrashEnum(c)
		RunProducerCacheTear(c)
		if c.Thorough() {
			RunProducerRandom(c, 60, 200)
		} else {
			RunProducerRandom(c, 25, 40)
		}
		return nil
	},
	"syncer": func(c *Ctx, arg string) error {
		if c.BehDir != "" {
			parts := strings.SplitN(arg, ":", 2)
			ih, err := strconv.Atoi(parts[0])
			if err != nil || len(parts) != 2 {
				return err
			}
			names, behs, err := LoadBehaviours(c.BehDir)
			if err != nil {
				return err
			}
			for i := range behs {
				RunSyncBehaviour(c, names[i], behs[i], uint64(ih), parts[1])
			}
			return nil
		}
		if arg == "farahead" {
			RunSyncFarAhead(c)
			return nil
		}
		if arg == "crash" {
			RunSyncCrashEnum(c)
			return nil
		}
		if arg == "retrieve" {
			RunRetrieve(c)
			RunRetrieveBackPressure(c)
			return nil
		}
		if arg == "adversary" {
			RunAdversary(c)
			RunLight(c)
			return nil
		}
		RunSyncStopQueued(c)
		RunSyncHandOverStop(c)
		RunSyncP2PAfterIdle(c)
		RunSyncWriteError(c)
		if c.Thorough() {
			RunSyncRandom(c, 150)
		} else {
			RunSyncRandom(c, 40)
		}
		return nil
	},
	"submitter": func(c *Ctx, arg string) error {
		if c.BehDir != "" {
			parts := strings.SplitN(arg, ":", 2)
			ih, err := strconv.Atoi(parts[0])
			if err != nil || len(parts) != 2 {
				return err
			}
			lim, _ := strconv.Atoi(parts[1])
			names, behs, err := LoadBehaviours(c.BehDir)
			if err != nil {
				return err
			}
			for i := range behs {
				RunSubmitBehaviour(c, names[i], behs[i], uint64(ih), uint64(lim))
			}
			return nil
		}
		RunSubmitScenarios(c)
		RunSubmitCrashEnum(c)
		return nil
	},
	"queue": func(c *Ctx, arg string) error {
		RunQueue(c)
		return nil
	},
	"txflow": func(c *Ctx, arg string) error {
		RunTxFlow(c)
		return nil
	},
	"lazy": func(c *Ctx, arg string) error {
		RunLazy(c)
		return nil
	},
	"fullnode": func(c *Ctx, arg string) error {
		RunFullNode(c)
		return nil
	},
	"world": func(c *Ctx, arg string) error {
		RunWorld(c)
		return nil
	},
	"store": func(c *Ctx, arg string) error {
		RunStore(c)
		return nil
	},
	"kvexec": func(c *Ctx, arg string) error {
		RunKVExec(c)
		return nil
	},
	"based": func(c *Ctx, arg string) error {
		RunBased(c)
		return nil
	},
	"proxy": func(c *Ctx, arg string) error {
		return RunProxy(c)
	},
	"keyfile": func(c *Ctx, arg string) error {
		return RunKeyFile(c)
	},
	"config": func(c *Ctx, arg string) error {
		return RunConfig(c)
	},
	"wire": func(c *Ctx, arg string) error {
		return RunWire(c, arg)
	},
}
