---------------------------- MODULE Syncer ----------------------------
(***************************************************************************)
(* Tier I model of a full node's sync path: block/sync.go (SyncLoop,       *)
(* trySyncNextBlock, handleEmptyDataHash) with the restart path of         *)
(* NewManager.  The proposer's chain is a constant; its header and data    *)
(* events are delivered in any order, with duplicates; the application of  *)
(* one block is split into its durable writes so that TLC explores a crash *)
(* between any two of them; restarts are clean (caches saved/loaded) or    *)
(* unclean (caches lost).                                                  *)
(*                                                                         *)
(* Deviations of the pinned tree kept as switches:                         *)
(*   Alias = TRUE      data events are de-duplicated by data commitment    *)
(*                     (two blocks with identical tx lists alias; C02)     *)
(*   ApplyAtStart = FALSE  nothing applies cached complete blocks after a   *)
(*                     restart until an unseen event arrives (C02 stall)   *)
(*   BlockFirst = FALSE  write order state -> block -> height (C05: a crash*)
(*                     after the state write loses the block forever)      *)
(***************************************************************************)
EXTENDS Integers, Sequences, FiniteSets, TLC

CONSTANTS
    IH,          \* initial height
    Shape,       \* sequence of tx lists: Shape[i] = transactions of block IH+i-1
    MaxDup,      \* extra deliveries allowed per event
    MaxCrashes,
    MaxRestarts, \* clean restarts
    Alias, BlockFirst,
    ApplyAtStart, \* BOOLEAN: SyncLoop applies cached complete blocks when it starts (FALSE = pinned tree)
    EvictEarly,  \* BOOLEAN deviation: the applied block's parts are evicted and marked seen right after the block save
    WriteFails,  \* BOOLEAN: a durable write of block application may be refused with an error (orderly shutdown)
    Mix,         \* BOOLEAN: allow a crash after a clean restart in the same behaviour (stale cache files)
    Rec

N == Len(Shape)
Top == IH + N - 1
Hts == IH .. Top
Txs(h) == Shape[h - IH + 1]
IsEmpty(h) == Txs(h) = <<>>
\* identity under which a data item is remembered as "seen"
DKey(h) == IF Alias THEN Txs(h) ELSE <<h, Txs(h)>>

Events == {[kind |-> "hdr", h |-> h] : h \in Hts} \cup {[kind |-> "data", h |-> h] : h \in {x \in Hts : ~IsEmpty(x)}}

VARIABLES
    left,      \* left[e] = remaining deliveries of event e
    got,       \* events delivered at least once since the last unclean restart
    kv,        \* durable: [height, stateH, blocks]
    hc, dc,    \* volatile caches: heights with a cached header / data
    seenH, seenD,
    files,     \* cache files written at the last clean shutdown: [hc, dc, seenH, seenD]
    pc,        \* idle | apply:<stage> | down
    curEv,     \* event being processed
    execLog,   \* heights executed, in order
    crashes, restarts, wc, hist

vars == <<left, got, kv, hc, dc, seenH, seenD, files, pc, curEv, execLog, crashes, restarts, wc, hist>>

H(r) == IF Rec THEN Append(hist, r) ELSE hist
NoEv == [kind |-> "none", h |-> 0]
NoFiles == [hc |-> {}, dc |-> {}, seenH |-> {}, seenD |-> {}]
Max(a, b) == IF a > b THEN a ELSE b

Init ==
    /\ left = [e \in Events |-> 1 + MaxDup]
    /\ got = {}
    /\ kv = [height |-> IH - 1, stateH |-> IH - 1, blocks |-> {}]
    /\ hc = {} /\ dc = {} /\ seenH = {} /\ seenD = {}
    /\ files = NoFiles
    /\ pc = "idle" /\ curEv = NoEv /\ execLog = <<>>
    /\ crashes = 0 /\ restarts = 0 /\ wc = 0 /\ hist = <<>>

\* ---- SyncLoop receives one event (sync.go:32-108) -------------------------------
RecvHeader(e) ==
    /\ pc = "idle" /\ e.kind = "hdr" /\ left[e] > 0
    /\ left' = [left EXCEPT ![e] = @ - 1]
    /\ got' = got \cup {e}
    /\ hist' = H([a |-> "deliver", kind |-> "hdr", h |-> e.h, w |-> 0])
    /\ wc' = 0
    /\ IF e.h <= kv.height \/ e.h \in seenH
          THEN /\ UNCHANGED <<hc, dc, pc, curEv>>          \* dropped: already seen
          ELSE /\ hc' = hc \cup {e.h}
               /\ dc' = IF IsEmpty(e.h) THEN dc \cup {e.h} ELSE dc   \* handleEmptyDataHash
               /\ pc' = "try" /\ curEv' = e
    /\ UNCHANGED <<kv, seenH, seenD, files, execLog, crashes, restarts>>

RecvData(e) ==
    /\ pc = "idle" /\ e.kind = "data" /\ left[e] > 0
    /\ left' = [left EXCEPT ![e] = @ - 1]
    /\ got' = got \cup {e}
    /\ hist' = H([a |-> "deliver", kind |-> "data", h |-> e.h, w |-> 0])
    /\ wc' = 0
    /\ IF DKey(e.h) \in seenD \/ e.h <= kv.height
          THEN UNCHANGED <<dc, pc, curEv>>
          ELSE /\ dc' = dc \cup {e.h}
               /\ pc' = "try" /\ curEv' = e
    /\ UNCHANGED <<kv, hc, seenH, seenD, files, execLog, crashes, restarts>>

\* ---- trySyncNextBlock (sync.go:124-189), one durable write per action -----------
Nxt == kv.height + 1

TryNext ==
    /\ pc = "try"
    /\ IF Nxt \in hc /\ Nxt \in dc
          THEN /\ execLog' = Append(execLog, Nxt)            \* Validate + ExecuteTxs
               /\ pc' = "w1"
               /\ UNCHANGED <<seenH, seenD, curEv>>
          ELSE /\ pc' = "idle"                               \* nothing more to apply: mark the event seen
               /\ seenH' = IF curEv.kind = "hdr" THEN seenH \cup {curEv.h} ELSE seenH
               /\ seenD' = IF curEv.kind = "data" THEN seenD \cup {DKey(curEv.h)} ELSE seenD
               /\ curEv' = NoEv
               /\ UNCHANGED execLog
    /\ UNCHANGED <<left, got, kv, hc, dc, files, crashes, restarts, wc, hist>>

SaveState == [kv EXCEPT !.stateH = Nxt]
SaveBlock == [kv EXCEPT !.blocks = @ \cup {Nxt}]

Evicted == /\ hc' = hc \ {Nxt} /\ dc' = dc \ {Nxt}
           /\ seenH' = seenH \cup {Nxt}
           /\ seenD' = IF IsEmpty(Nxt) THEN seenD ELSE seenD \cup {DKey(Nxt)}

Write1 ==
    /\ pc = "w1"
    /\ kv' = IF BlockFirst THEN SaveBlock ELSE SaveState
    /\ wc' = wc + 1 /\ pc' = "w2"
    /\ IF EvictEarly THEN Evicted ELSE UNCHANGED <<hc, dc, seenH, seenD>>
    /\ UNCHANGED <<left, got, files, curEv, execLog, crashes, restarts, hist>>

Write2 ==
    /\ pc = "w2"
    /\ kv' = IF BlockFirst THEN SaveState ELSE SaveBlock
    /\ wc' = wc + 1 /\ pc' = "w3"
    /\ UNCHANGED <<left, got, hc, dc, seenH, seenD, files, curEv, execLog, crashes, restarts, hist>>

SetHeightEvict ==
    /\ pc = "w3"
    /\ kv' = [kv EXCEPT !.height = Nxt]
    /\ wc' = wc + 1
    /\ IF EvictEarly THEN UNCHANGED <<hc, dc, seenH, seenD>> ELSE Evicted
    /\ pc' = "try"
    /\ UNCHANGED <<left, got, files, curEv, execLog, crashes, restarts, hist>>

\* ---- stop / crash / restart ------------------------------------------------------
CleanRestart ==
    /\ pc = "idle" /\ restarts < MaxRestarts /\ (Mix \/ crashes = 0)
    /\ restarts' = restarts + 1
    /\ files' = [hc |-> hc, dc |-> dc, seenH |-> seenH, seenD |-> seenD]   \* SaveCache; LoadCache gives the same
    /\ kv' = [kv EXCEPT !.height = Max(@, kv.stateH)]
    /\ hist' = H([a |-> "restart", kind |-> "clean", h |-> 0, w |-> 0])
    /\ pc' = IF ApplyAtStart THEN "try" ELSE "idle"     \* SyncLoop applies what the loaded caches allow
    /\ wc' = 0
    /\ UNCHANGED <<left, got, hc, dc, seenH, seenD, curEv, execLog, crashes>>

\* a durable write of block application is refused with an error (disk full, I/O error): trySyncNextBlock returns
\* it, SyncLoop reports it, the node shuts down in an orderly way (caches saved as they are: the block's parts are
\* still cached, eviction comes after the height write) and stays down until it is started again
WriteFail ==
    /\ WriteFails /\ pc \in {"w1", "w2", "w3"} /\ crashes < MaxCrashes /\ (Mix \/ restarts = 0)
    /\ crashes' = crashes + 1
    /\ files' = [hc |-> hc, dc |-> dc, seenH |-> seenH, seenD |-> seenD]
    /\ hist' = H([a |-> "wfail", kind |-> "", h |-> 0, w |-> wc])
    /\ pc' = "down" /\ curEv' = NoEv
    /\ UNCHANGED <<left, got, kv, hc, dc, seenH, seenD, execLog, restarts, wc>>

Crash ==
    /\ pc \in {"try", "w1", "w2", "w3"} /\ crashes < MaxCrashes /\ (Mix \/ restarts = 0)
    /\ crashes' = crashes + 1
    /\ hist' = H([a |-> "crash", kind |-> "", h |-> 0, w |-> wc])
    /\ pc' = "down" /\ curEv' = NoEv
    /\ UNCHANGED <<left, got, kv, hc, dc, seenH, seenD, files, execLog, restarts, wc>>

\* after an unclean stop the caches are those of the last clean shutdown (or empty); the
\* environment re-delivers: every event may be delivered again
Recover ==
    /\ pc = "down"
    /\ kv' = [kv EXCEPT !.height = Max(@, kv.stateH)]
    /\ hc' = files.hc /\ dc' = files.dc /\ seenH' = files.seenH /\ seenD' = files.seenD
    /\ left' = [e \in Events |-> Max(left[e], 1)]
    /\ got' = {}
    /\ pc' = IF ApplyAtStart THEN "try" ELSE "idle"
    /\ wc' = 0
    /\ hist' = H([a |-> "restart", kind |-> "unclean", h |-> 0, w |-> 0])
    /\ UNCHANGED <<files, curEv, execLog, crashes, restarts>>

Next ==
    \/ \E e \in Events : RecvHeader(e) \/ RecvData(e)
    \/ TryNext \/ Write1 \/ Write2 \/ SetHeightEvict
    \/ CleanRestart \/ Crash \/ WriteFail \/ Recover

Spec == Init /\ [][Next]_vars
LiveSpec == Spec /\ WF_vars(TryNext) /\ WF_vars(Write1) /\ WF_vars(Write2) /\ WF_vars(SetHeightEvict) /\ WF_vars(Recover)
            /\ \A e \in Events : WF_vars(RecvHeader(e) \/ RecvData(e))

\* ---- properties --------------------------------------------------------------------
\* C02: blocks are applied strictly in height order, none skipped
RECURSIVE InOrder(_, _)
InOrder(s, lastH) == s = <<>> \/ (Head(s) <= lastH + 1 /\ Head(s) >= IH /\ InOrder(Tail(s), Max(lastH, Head(s))))
AppliedInOrder == InOrder(execLog, IH - 1)
NoReexecWithoutCrash == crashes = 0 => \A i, j \in 1 .. Len(execLog) : i # j => execLog[i] # execLog[j]
HeightMonotone == [][kv'.height >= kv.height]_vars
\* C05: every height up to the recorded chain height has its block; at rest the state matches
BlocksPresent == pc = "idle" => \A h \in IH .. kv.height : h \in kv.blocks
StateMatches == pc = "idle" => kv.stateH = kv.height
\* the node has applied exactly what it could: both parts of all blocks up to its height arrived
Complete(h) == \A x \in IH .. h : [kind |-> "hdr", h |-> x] \in got /\ (IsEmpty(x) \/ [kind |-> "data", h |-> x] \in got)
\* C02: at rest the node has applied every block whose parts (and all earlier ones) it has received
AppliedWhatArrived == pc = "idle" => \A h \in Hts : Complete(h) => kv.height >= h
\* C02 liveness: once every event has been delivered the node reaches the proposer's height
AllDelivered == \A e \in Events : left[e] = 0
Converges == <>[](AllDelivered /\ pc = "idle" => kv.height = Top)
Reaches == (\A e \in Events : e \in got) ~> (kv.height = Top \/ pc = "down")

View == <<left, got, kv, hc, dc, seenH, seenD, files, pc, curEv, crashes, restarts>>
==========================================================================
