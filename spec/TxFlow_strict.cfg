SPECIFICATION LiveSpec
CONSTANTS
  Txs = {"a", "b", "c"}
  Bound = 1
  MaxCrashes = 2
  PopBeforeSave = TRUE
INVARIANTS NoLossStrict NoDupWithoutCrash

CHECK_DEADLOCK FALSE
