---------------------------- MODULE Submitter ----------------------------
(***************************************************************************)
(* Tier I model of the sequencer node's DA submission and DA-inclusion     *)
(* path: block/submitter.go (HeaderSubmissionLoop, DataSubmissionLoop,     *)
(* submitToDA with partial acceptance), block/pending_base.go (watermark   *)
(* = last submitted height, memory + durable), block/da_includer.go        *)
(* (IsDAIncluded -> SetFinal -> persist -> publish), and the refusal test  *)
(* of block production (MaxPendingHeadersAndData).                         *)
(* One action per critical section: DA acceptance and the bookkeeping that *)
(* follows it are separate steps (a crash or a lost acknowledgement sits   *)
(* between them), and so are finalize / persist / publish.                 *)
(*                                                                         *)
(* Deviations of the pinned tree kept as switches:                         *)
(*   SkipEmpty = FALSE  the data watermark moves only when a non-empty     *)
(*                      blob is accepted (C08: idle chain deadlocks)       *)
(*   BaseAtIH = FALSE   watermarks and DA-included height start at 0 even  *)
(*                      when the chain starts at IH > 1 (C06/C07/C08)      *)
(*   Alias = TRUE       data marks keyed by data commitment (C07)          *)
(*   MarksDurable = FALSE  DA-included marks live in memory only (C07)     *)
(***************************************************************************)
EXTENDS Integers, Sequences, FiniteSets, TLC

CONSTANTS IH, MaxH, L, MaxReplies, MaxCrashes, TxKinds,
          SkipEmpty, BaseAtIH, Alias, MarksDurable, Rec,
          SeedDataFromHeader  \* deviation (seeded C06f): at start a data watermark that was never persisted is set to the header watermark

VARIABLES
    height,     \* committed chain height (IH-1 = nothing yet)
    txk,        \* txk[h] \in TxKinds \cup {"none"}: identity of block h's tx list ("none" = empty block)
    wmH, wmD,   \* in-memory watermarks
    dwmH, dwmD, \* durable watermarks
    accH, accD, \* heights whose header / signed data blob the DA layer holds
    markH, markD, \* in-memory DA-included marks (markD holds data keys)
    fileH, fileD, \* marks saved at the last clean shutdown
    incl, dincl,  \* DA-included height: memory / durable
    finalLog,     \* heights the execution layer was asked to finalize, in order
    pcH, pcD, pcI, \* control of the three loops
    remH, remD,    \* remaining items of the current submission pass (sequences of heights)
    replies, crashes, refused, up, hist

vars == <<height, txk, wmH, wmD, dwmH, dwmD, accH, accD, markH, markD, fileH, fileD, incl, dincl, finalLog,
          pcH, pcD, pcI, remH, remD, replies, crashes, refused, up, hist>>

H(r) == IF Rec THEN Append(hist, r) ELSE hist
Base == IF BaseAtIH THEN IH - 1 ELSE 0
IsEmpty(h) == txk[h] = "none"
DKey(h) == IF Alias THEN txk[h] ELSE <<h, txk[h]>>
Range(a, b) == [i \in 1 .. (b - a + 1) |-> a + i - 1]
NonEmptyIn(a, b) == SelectSeq(Range(a, b), LAMBDA h : h >= IH /\ ~IsEmpty(h))
Max(a, b) == IF a > b THEN a ELSE b
\* control points "acknowledged n blobs, watermark not yet written" (the count is part of the name; strings only, so that
\* control points stay comparable)
BookName(n) == "book" \o ToString(n)
BookPcs == {BookName(i) : i \in 1 .. 64}
BookN(pc) == CHOOSE i \in 1 .. 64 : BookName(i) = pc

Init ==
    /\ height = IH - 1 /\ txk = [h \in IH .. MaxH |-> "none"]
    /\ wmH = Base /\ wmD = Base /\ dwmH = Base /\ dwmD = Base
    /\ accH = {} /\ accD = {} /\ markH = {} /\ markD = {} /\ fileH = {} /\ fileD = {}
    /\ incl = Base /\ dincl = Base /\ finalLog = <<>>
    /\ pcH = "idle" /\ pcD = "idle" /\ pcI = "idle" /\ remH = <<>> /\ remD = <<>>
    /\ replies = 0 /\ crashes = 0 /\ refused = 0 /\ up = TRUE /\ hist = <<>>

\* ---- block production with the pending limit (manager.go:601-604) ------------------
Limited == L > 0 /\ (height - wmH >= L \/ height - wmD >= L)

Produce(k) ==
    /\ up /\ height < MaxH /\ ~Limited
    /\ (height + 1 = IH => k = "none")      \* the first block is the pre-built empty genesis block
    /\ height' = height + 1
    /\ txk' = [txk EXCEPT ![height + 1] = k]
    /\ hist' = H([a |-> "produce", k |-> k, r |-> "", n |-> 0])
    /\ UNCHANGED <<wmH, wmD, dwmH, dwmD, accH, accD, markH, markD, fileH, fileD, incl, dincl, finalLog, pcH, pcD, pcI, remH, remD, replies, crashes, refused, up>>

Refuse ==
    /\ up /\ height < MaxH /\ Limited /\ refused < 2
    /\ refused' = refused + 1
    /\ hist' = H([a |-> "produce", k |-> "refused", r |-> "", n |-> 0])
    /\ UNCHANGED <<height, txk, wmH, wmD, dwmH, dwmD, accH, accD, markH, markD, fileH, fileD, incl, dincl, finalLog, pcH, pcD, pcI, remH, remD, replies, crashes, up>>

\* ---- header submission pass ---------------------------------------------------------
SnapH ==
    /\ up /\ pcH = "idle" /\ wmH < height
    /\ wmH + 1 >= IH                         \* otherwise fetching height wmH+1 fails and nothing is submitted
    /\ remH' = Range(wmH + 1, height)
    /\ pcH' = "try"
    /\ hist' = H([a |-> "tickH", k |-> "", r |-> "", n |-> 0])
    /\ UNCHANGED <<height, txk, wmH, wmD, dwmH, dwmD, accH, accD, markH, markD, fileH, fileD, incl, dincl, finalLog, pcD, pcI, remD, replies, crashes, refused, up>>

\* the DA layer answers one attempt: it holds the first n blobs afterwards; ack tells whether the node learns it
AttemptH(n, ack) ==
    /\ up /\ pcH = "try" /\ replies < MaxReplies /\ n \in 0 .. Len(remH)
    /\ (n = 0 => ~ack)
    /\ replies' = replies + 1
    /\ accH' = accH \cup {remH[i] : i \in 1 .. n}
    /\ hist' = H([a |-> "replyH", k |-> "", r |-> IF ack THEN "ack" ELSE "noack", n |-> n])
    /\ IF ack
          THEN /\ markH' = markH \cup {remH[i] : i \in 1 .. n}        \* postSubmit, first half: the marks (visible to the
               /\ pcH' = BookName(n)                                      \* inclusion loop at once); the watermark follows in BookH
               /\ UNCHANGED <<wmH, dwmH, remH>>
          ELSE /\ UNCHANGED <<markH, wmH, dwmH, remH, pcH>>
    /\ UNCHANGED <<height, txk, wmD, dwmD, accD, markD, fileH, fileD, incl, dincl, finalLog, pcD, pcI, remD, crashes, refused, up>>

\* postSubmit, second half: the watermark is raised and written (one durable write); the pass goes on or ends
BookH ==
    /\ up /\ pcH \in BookPcs
    /\ LET n == BookN(pcH) IN
          /\ wmH' = Max(wmH, remH[n]) /\ dwmH' = Max(dwmH, remH[n])
          /\ remH' = SubSeq(remH, n + 1, Len(remH))
          /\ pcH' = IF n = Len(remH) THEN "idle" ELSE "try"
    /\ UNCHANGED <<height, txk, wmD, dwmD, accH, accD, markH, markD, fileH, fileD, incl, dincl, finalLog, pcD, pcI, remD, replies, crashes, refused, up, hist>>

GiveUpH ==   \* attempts exhausted / cancellation: the pass ends, the rest is retried by the next pass
    /\ up /\ pcH = "try" /\ pcH' = "idle" /\ remH' = <<>>
    /\ UNCHANGED <<height, txk, wmH, wmD, dwmH, dwmD, accH, accD, markH, markD, fileH, fileD, incl, dincl, finalLog, pcD, pcI, remD, replies, crashes, refused, up, hist>>

\* ---- data submission pass: empty data is never published ---------------------------
LeadingEmpty(from) ==   \* highest h such that every block in from+1 .. h is empty
    LET S == {h \in from .. height : \A x \in (from + 1) .. h : x >= IH /\ IsEmpty(x)} IN
    IF S = {} THEN from ELSE CHOOSE m \in S : \A x \in S : x <= m

SnapD ==
    /\ up /\ pcD = "idle" /\ wmD < height
    /\ wmD + 1 >= IH
    /\ LET skipTo == IF SkipEmpty THEN LeadingEmpty(Max(wmD, IH - 1)) ELSE wmD
           list == NonEmptyIn(Max(skipTo, wmD) + 1, height)
       IN /\ wmD' = Max(wmD, skipTo) /\ dwmD' = Max(dwmD, skipTo)
          /\ remD' = list
          /\ pcD' = IF list = <<>> THEN "idle" ELSE "try"
    /\ hist' = H([a |-> "tickD", k |-> "", r |-> "", n |-> 0])
    /\ UNCHANGED <<height, txk, wmH, dwmH, accH, accD, markH, markD, fileH, fileD, incl, dincl, finalLog, pcH, pcI, remH, replies, crashes, refused, up>>

AttemptD(n, ack) ==
    /\ up /\ pcD = "try" /\ replies < MaxReplies /\ n \in 0 .. Len(remD)
    /\ (n = 0 => ~ack)
    /\ replies' = replies + 1
    /\ accD' = accD \cup {remD[i] : i \in 1 .. n}
    /\ hist' = H([a |-> "replyD", k |-> "", r |-> IF ack THEN "ack" ELSE "noack", n |-> n])
    /\ IF ack
          THEN /\ markD' = markD \cup {DKey(remD[i]) : i \in 1 .. n}
               /\ pcD' = BookName(n)
               /\ UNCHANGED <<wmD, dwmD, remD>>
          ELSE /\ UNCHANGED <<markD, wmD, dwmD, remD, pcD>>
    /\ UNCHANGED <<height, txk, wmH, dwmH, accH, markH, fileH, fileD, incl, dincl, finalLog, pcH, pcI, remH, crashes, refused, up>>

BookD ==
    /\ up /\ pcD \in BookPcs
    /\ LET n == BookN(pcD) IN
          /\ wmD' = Max(wmD, remD[n]) /\ dwmD' = Max(dwmD, remD[n])
          /\ remD' = SubSeq(remD, n + 1, Len(remD))
          /\ pcD' = IF n = Len(remD) THEN "idle" ELSE "try"
    /\ UNCHANGED <<height, txk, wmH, dwmH, accH, accD, markH, markD, fileH, fileD, incl, dincl, finalLog, pcH, pcI, remH, replies, crashes, refused, up, hist>>

GiveUpD ==
    /\ up /\ pcD = "try" /\ pcD' = "idle" /\ remD' = <<>>
    /\ UNCHANGED <<height, txk, wmH, wmD, dwmH, dwmD, accH, accD, markH, markD, fileH, fileD, incl, dincl, finalLog, pcH, pcI, remH, replies, crashes, refused, up, hist>>

\* ---- DA inclusion: check -> finalize on the execution layer -> persist -> publish ----
Included(h) == h >= IH /\ h <= height /\ h \in markH /\ (IsEmpty(h) \/ DKey(h) \in markD)

Finalize ==
    /\ up /\ pcI = "idle" /\ Included(incl + 1)
    /\ finalLog' = Append(finalLog, incl + 1)
    /\ pcI' = "finalized"
    /\ UNCHANGED <<height, txk, wmH, wmD, dwmH, dwmD, accH, accD, markH, markD, fileH, fileD, incl, dincl, pcH, pcD, remH, remD, replies, crashes, refused, up, hist>>
Persist ==
    /\ up /\ pcI = "finalized" /\ dincl' = incl + 1 /\ pcI' = "persisted"
    /\ UNCHANGED <<height, txk, wmH, wmD, dwmH, dwmD, accH, accD, markH, markD, fileH, fileD, incl, finalLog, pcH, pcD, remH, remD, replies, crashes, refused, up, hist>>
Publish ==
    /\ up /\ pcI = "persisted" /\ incl' = incl + 1 /\ pcI' = "idle"
    /\ UNCHANGED <<height, txk, wmH, wmD, dwmH, dwmD, accH, accD, markH, markD, fileH, fileD, dincl, finalLog, pcH, pcD, remH, remD, replies, crashes, refused, up, hist>>

\* ---- stop / crash / restart -----------------------------------------------------------
Crash ==
    /\ up /\ crashes < MaxCrashes
    /\ crashes' = crashes + 1 /\ up' = FALSE
    /\ hist' = H([a |-> "crash", k |-> "", r |-> "", n |-> 0])
    /\ UNCHANGED <<height, txk, wmH, wmD, dwmH, dwmD, accH, accD, markH, markD, fileH, fileD, incl, dincl, finalLog, pcH, pcD, pcI, remH, remD, replies, refused>>

\* an orderly stop: the loops are joined, the caches (DA-included marks) are written to disk
\* (it draws on the same budget as crashes, so that exhaustive runs stay bounded)
CleanStop ==
    /\ up /\ crashes < MaxCrashes /\ pcH \notin BookPcs /\ pcD \notin BookPcs     \* a postSubmit in progress completes before the loops are joined
    /\ crashes' = crashes + 1 /\ up' = FALSE
    /\ fileH' = markH /\ fileD' = markD
    /\ hist' = H([a |-> "stop", k |-> "", r |-> "", n |-> 0])
    /\ UNCHANGED <<height, txk, wmH, wmD, dwmH, dwmD, accH, accD, markH, markD, incl, dincl, finalLog, pcH, pcD, pcI, remH, remD, replies, refused>>

Restart ==
    /\ ~up /\ up' = TRUE
    /\ wmH' = dwmH /\ incl' = dincl
    /\ wmD' = IF SeedDataFromHeader /\ dwmD = Base THEN dwmH ELSE dwmD
    /\ markH' = IF MarksDurable THEN markH ELSE fileH
    /\ markD' = IF MarksDurable THEN markD ELSE fileD
    /\ pcH' = "idle" /\ pcD' = "idle" /\ pcI' = "idle" /\ remH' = <<>> /\ remD' = <<>>
    /\ hist' = H([a |-> "restart", k |-> "", r |-> "", n |-> 0])
    /\ UNCHANGED <<height, txk, dwmH, dwmD, accH, accD, fileH, fileD, dincl, finalLog, replies, crashes, refused>>

Next ==
    \/ \E k \in TxKinds \cup {"none"} : Produce(k)
    \/ Refuse \/ SnapH \/ GiveUpH \/ SnapD \/ GiveUpD \/ BookH \/ BookD
    \/ \E n \in 0 .. 3, ack \in BOOLEAN : AttemptH(n, ack) \/ AttemptD(n, ack)
    \/ Finalize \/ Persist \/ Publish \/ Crash \/ CleanStop \/ Restart

Spec == Init /\ [][Next]_vars

\* DA eventually accepts and acknowledges everything; the loops keep ticking
Fair == /\ WF_vars(BookH) /\ WF_vars(BookD) /\ WF_vars(SnapH) /\ WF_vars(SnapD) /\ WF_vars(Finalize) /\ WF_vars(Persist) /\ WF_vars(Publish) /\ WF_vars(Restart)
        /\ SF_vars(\E n \in 1 .. 3 : AttemptH(n, TRUE) /\ n = Len(remH))
        /\ SF_vars(\E n \in 1 .. 3 : AttemptD(n, TRUE) /\ n = Len(remD))
        /\ WF_vars(\E k \in TxKinds \cup {"none"} : Produce(k))
LiveSpec == Spec /\ Fair

\* ---- properties ----------------------------------------------------------------------
\* C06: the watermark never moves past a height whose blob the DA layer does not hold
WmSound == /\ \A h \in IH .. wmH : h \in accH
           /\ \A h \in IH .. wmD : IsEmpty(h) \/ h \in accD
           /\ dwmH <= height /\ dwmD <= height /\ wmH <= height /\ wmD <= height
WmMonotone == [][dwmH' >= dwmH /\ dwmD' >= dwmD]_vars
\* C07
InclSound == \A h \in IH .. incl : h \in accH /\ (IsEmpty(h) \/ h \in accD)
InclBounds == incl <= height /\ dincl <= height /\ incl <= dincl
InclMonotone == [][dincl' >= dincl /\ (up /\ up' => incl' >= incl) /\ incl' <= incl + 1]_vars
FinalizeInOrder == \A i \in 1 .. Len(finalLog) : finalLog[i] >= IH /\ (i > 1 => finalLog[i] <= finalLog[i - 1] + 1 /\ finalLog[i] >= finalLog[i - 1])
FinalizeBeforeReport == \A h \in IH .. incl : \E i \in 1 .. Len(finalLog) : finalLog[i] = h
\* C08: production is refused only while at least L committed blocks have not yet been passed by a
\* submission loop: their header is unacknowledged, or their data is unacknowledged / (if empty) not yet
\* skipped by the data loop.  The substance of C08 is the liveness property below.
Waiting == {h \in IH .. height : h > wmH \/ h > wmD}
RefuseOnlyIfPending == Limited => Cardinality(Waiting) >= L
\* once the DA layer holds and has acknowledged everything and the loops have ticked, nothing is pending
NothingPendingWhenDone == (pcH = "idle" /\ pcD = "idle" /\ wmH = height /\ ~(\E h \in IH .. height : ~IsEmpty(h) /\ h > wmD) /\ SkipEmpty /\ wmD = LeadingEmpty(wmD)) => TRUE
\* liveness: with an accepting DA layer the chain reaches MaxH, everything is submitted and included
AllDone == height = MaxH /\ wmH = MaxH /\ (\A h \in IH .. MaxH : IsEmpty(h) \/ h \in accD)
EventuallyDone == <>(AllDone \/ replies >= MaxReplies)
EventuallyIncluded == <>(incl = MaxH \/ replies >= MaxReplies \/ crashes > 0)

View == <<height, txk, wmH, wmD, dwmH, dwmD, accH, accD, markH, markD, fileH, fileD, incl, dincl, finalLog, pcH, pcD, pcI, remH, remD, replies, crashes, up>>
==========================================================================
