---------------------------- MODULE WorldTrace ----------------------------
(***************************************************************************)
(* Tier M monitor for runs with ALL background loops of an aggregator and  *)
(* of a full node running concurrently (C13): the full node's chain is a   *)
(* prefix of the aggregator's at every observation, heights are monotone,  *)
(* and after Cancel every loop has returned by the time the driver looks   *)
(* (three virtual seconds later).  The same files are also validated by    *)
(* ProducerTrace and SubmitTrace (C01 / C06 / C07 on every interleaving).  *)
(***************************************************************************)
EXTENDS TraceLib

VARIABLES l, run, seqBlocks, seqH, fullH, cancelled, returned, viol
vars == <<l, run, seqBlocks, seqH, fullH, cancelled, returned, viol>>

Init == l = 1 /\ run = "" /\ seqBlocks = <<>> /\ seqH = 0 /\ fullH = 0 /\ cancelled = FALSE /\ returned = {} /\ viol = <<>>
e == Trace[l]
Is(name) == l <= N /\ e.ev = name
Adv == l' = l + 1
HasB(bs, h) == \E i \in 1 .. Len(bs) : bs[i].h = h
BAt(bs, h) == bs[CHOOSE i \in 1 .. Len(bs) : bs[i].h = h]

TReset == /\ Is("Reset") /\ Adv /\ run' = e.run /\ seqBlocks' = <<>> /\ seqH' = 0 /\ fullH' = 0 /\ cancelled' = FALSE /\ returned' = {}
          /\ UNCHANGED viol

TObsSeq == /\ Is("Obs") /\ e.node = "seq" /\ Adv
           /\ viol' = viol \o Failed(<< <<"C13.HeightMonotone", e.height >= seqH, "aggregator chain height decreased">> >>, l, run)
           /\ seqBlocks' = e.blocks /\ seqH' = e.height
           /\ UNCHANGED <<run, fullH, cancelled, returned>>

TObsFull == /\ Is("Obs") /\ e.node = "full" /\ Adv
            /\ viol' = viol \o Failed(<<
                  <<"C13.HeightMonotone", e.height >= fullH, "full node chain height decreased">>,
                  <<"C13.FullFollowsSeq", \A i \in 1 .. Len(e.blocks) : e.blocks[i].h <= e.height =>
                        /\ HasB(seqBlocks, e.blocks[i].h) /\ e.blocks[i].h <= seqH
                        /\ BAt(seqBlocks, e.blocks[i].h).hash = e.blocks[i].hash
                        /\ BAt(seqBlocks, e.blocks[i].h).txs = e.blocks[i].txs
                        /\ BAt(seqBlocks, e.blocks[i].h).app = e.blocks[i].app /\ e.blocks[i].sig = "P",
                      "the full node's chain is not a prefix of the aggregator's chain">>
                  >>, l, run)
            /\ fullH' = e.height
            /\ UNCHANGED <<run, seqBlocks, seqH, cancelled, returned>>

TCancel == /\ Is("Cancel") /\ Adv /\ cancelled' = TRUE /\ UNCHANGED <<run, seqBlocks, seqH, fullH, returned, viol>>
TRet == /\ Is("LoopRet") /\ Adv /\ returned' = returned \cup {<<e.node, e.name>>}
        /\ viol' = viol \o Failed(<< <<"C13.NoEarlyExit", cancelled, "a background loop returned although the node was not asked to stop">> >>, l, run)
        /\ UNCHANGED <<run, seqBlocks, seqH, fullH, cancelled>>
TStuck == /\ Is("LoopStuck") /\ Adv
          /\ viol' = viol \o Failed(<< <<"C13.StopsPromptly", FALSE, "a background activity had not returned three (virtual) seconds after the node was asked to stop">> >>, l, run)
          /\ UNCHANGED <<run, seqBlocks, seqH, fullH, cancelled, returned>>
TBad == /\ (Is("Panic") \/ Is("NodeErr")) /\ Adv
        /\ viol' = viol \o Failed(<< <<"C13.NoHalt", FALSE, "panic or fatal loop error while all activities run concurrently">> >>, l, run)
        /\ UNCHANGED <<run, seqBlocks, seqH, fullH, cancelled, returned>>
TOther == /\ l <= N /\ Adv /\ e.ev \notin {"Reset", "Obs", "Cancel", "LoopRet", "LoopStuck", "Panic", "NodeErr"}
          /\ UNCHANGED <<run, seqBlocks, seqH, fullH, cancelled, returned, viol>>

Next == TReset \/ TObsSeq \/ TObsFull \/ TCancel \/ TRet \/ TStuck \/ TBad \/ TOther
Spec == Init /\ [][Next]_vars
Finish == (l = N + 1) => ndJsonSerialize("viol.ndjson", viol)
Consumed == TLCGet("stats").diameter = N + 1
=============================================================================
