---- MODULE LazyAgg_TTrace_1790369918 ----
EXTENDS Sequences, TLCExt, LazyAgg, Toolbox, Naturals, TLC

_expression ==
    LET LazyAgg_TEExpression == INSTANCE LazyAgg_TEExpression
    IN LazyAgg_TEExpression!expression
----

_trace ==
    LET LazyAgg_TETrace == INSTANCE LazyAgg_TETrace
    IN LazyAgg_TETrace!trace
----

_inv ==
    ~(
        TLCGet("level") = Len(_TETrace)
        /\
        busyUntil = (0)
        /\
        avail = (FALSE)
        /\
        notifs = (1)
        /\
        lDL = (114)
        /\
        now = (0)
        /\
        oweBy = (0)
        /\
        started = (0)
        /\
        slot = (0)
        /\
        bDL = (114)
        /\
        owe = (FALSE)
        /\
        starts = (<<0, 0>>)
    )
----

_init ==
    /\ busyUntil = _TETrace[1].busyUntil
    /\ now = _TETrace[1].now
    /\ slot = _TETrace[1].slot
    /\ owe = _TETrace[1].owe
    /\ oweBy = _TETrace[1].oweBy
    /\ bDL = _TETrace[1].bDL
    /\ lDL = _TETrace[1].lDL
    /\ starts = _TETrace[1].starts
    /\ notifs = _TETrace[1].notifs
    /\ started = _TETrace[1].started
    /\ avail = _TETrace[1].avail
----

_next ==
    /\ \E i,j \in DOMAIN _TETrace:
        /\ \/ /\ j = i + 1
              /\ i = TLCGet("level")
        /\ busyUntil  = _TETrace[i].busyUntil
        /\ busyUntil' = _TETrace[j].busyUntil
        /\ now  = _TETrace[i].now
        /\ now' = _TETrace[j].now
        /\ slot  = _TETrace[i].slot
        /\ slot' = _TETrace[j].slot
        /\ owe  = _TETrace[i].owe
        /\ owe' = _TETrace[j].owe
        /\ oweBy  = _TETrace[i].oweBy
        /\ oweBy' = _TETrace[j].oweBy
        /\ bDL  = _TETrace[i].bDL
        /\ bDL' = _TETrace[j].bDL
        /\ lDL  = _TETrace[i].lDL
        /\ lDL' = _TETrace[j].lDL
        /\ starts  = _TETrace[i].starts
        /\ starts' = _TETrace[j].starts
        /\ notifs  = _TETrace[i].notifs
        /\ notifs' = _TETrace[j].notifs
        /\ started  = _TETrace[i].started
        /\ started' = _TETrace[j].started
        /\ avail  = _TETrace[i].avail
        /\ avail' = _TETrace[j].avail

\* Uncomment the ASSUME below to write the states of the error trace
\* to the given file in Json format. Note that you can pass any tuple
\* to `JsonSerialize`. For example, a sub-sequence of _TETrace.
    \* ASSUME
    \*     LET J == INSTANCE Json
    \*         IN J!JsonSerialize("LazyAgg_TTrace_1790369918.json", _TETrace)

=============================================================================

 Note that you can extract this module `LazyAgg_TEExpression`
  to a dedicated file to reuse `expression` (the module in the 
  dedicated `LazyAgg_TEExpression.tla` file takes precedence 
  over the module `LazyAgg_TEExpression` below).

---- MODULE LazyAgg_TEExpression ----
EXTENDS Sequences, TLCExt, LazyAgg, Toolbox, Naturals, TLC

expression == 
    [
        \* To hide variables of the `LazyAgg` spec from the error trace,
        \* remove the variables below.  The trace will be written in the order
        \* of the fields of this record.
        busyUntil |-> busyUntil
        ,now |-> now
        ,slot |-> slot
        ,owe |-> owe
        ,oweBy |-> oweBy
        ,bDL |-> bDL
        ,lDL |-> lDL
        ,starts |-> starts
        ,notifs |-> notifs
        ,started |-> started
        ,avail |-> avail
        
        \* Put additional constant-, state-, and action-level expressions here:
        \* ,_stateNumber |-> _TEPosition
        \* ,_busyUntilUnchanged |-> busyUntil = busyUntil'
        
        \* Format the `busyUntil` variable as Json value.
        \* ,_busyUntilJson |->
        \*     LET J == INSTANCE Json
        \*     IN J!ToJson(busyUntil)
        
        \* Lastly, you may build expressions over arbitrary sets of states by
        \* leveraging the _TETrace operator.  For example, this is how to
        \* count the number of times a spec variable changed up to the current
        \* state in the trace.
        \* ,_busyUntilModCount |->
        \*     LET F[s \in DOMAIN _TETrace] ==
        \*         IF s = 1 THEN 0
        \*         ELSE IF _TETrace[s].busyUntil # _TETrace[s-1].busyUntil
        \*             THEN 1 + F[s-1] ELSE F[s-1]
        \*     IN F[_TEPosition - 1]
    ]

=============================================================================



Parsing and semantic processing can take forever if the trace below is long.
 In this case, it is advised to uncomment the module below to deserialize the
 trace from a generated binary file.

\*
\*---- MODULE LazyAgg_TETrace ----
\*EXTENDS IOUtils, LazyAgg, TLC
\*
\*trace == IODeserialize("LazyAgg_TTrace_1790369918.bin", TRUE)
\*
\*=============================================================================
\*

---- MODULE LazyAgg_TETrace ----
EXTENDS LazyAgg, TLC

trace == 
    <<
    ([busyUntil |-> 0,avail |-> FALSE,notifs |-> 0,lDL |-> 0,now |-> 0,oweBy |-> 0,started |-> 0,slot |-> 0,bDL |-> 0,owe |-> FALSE,starts |-> <<>>]),
    ([busyUntil |-> 0,avail |-> FALSE,notifs |-> 1,lDL |-> 0,now |-> 0,oweBy |-> 2,started |-> 0,slot |-> 1,bDL |-> 0,owe |-> TRUE,starts |-> <<>>]),
    ([busyUntil |-> 0,avail |-> TRUE,notifs |-> 1,lDL |-> 0,now |-> 0,oweBy |-> 2,started |-> 0,slot |-> 0,bDL |-> 0,owe |-> TRUE,starts |-> <<>>]),
    ([busyUntil |-> 0,avail |-> TRUE,notifs |-> 1,lDL |-> 114,now |-> 0,oweBy |-> 0,started |-> 0,slot |-> 0,bDL |-> 0,owe |-> FALSE,starts |-> <<0>>]),
    ([busyUntil |-> 0,avail |-> FALSE,notifs |-> 1,lDL |-> 114,now |-> 0,oweBy |-> 0,started |-> 0,slot |-> 0,bDL |-> 114,owe |-> FALSE,starts |-> <<0, 0>>])
    >>
----


=============================================================================

---- CONFIG LazyAgg_TTrace_1790369918 ----
CONSTANTS
    BT = 2
    LZ = 5
    Durs = { 0 , 1 , 3 }
    Horizon = 14
    MaxNotifs = 2
    Lazy = TRUE
    DrainAfterIdle = TRUE

INVARIANT
    _inv

CHECK_DEADLOCK
    \* CHECK_DEADLOCK off because of PROPERTY or INVARIANT above.
    FALSE

INIT
    _init

NEXT
    _next

CONSTANT
    _TETrace <- _trace

ALIAS
    _expression
=============================================================================
\* Generated on Fri Sep 25 20:58:39 UTC 2026