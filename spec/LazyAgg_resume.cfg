SPECIFICATION Spec
CONSTANTS
  BT = 2
  LZ = 5
  Durs = {0, 1, 3}
  Horizon = 14
  MaxNotifs = 2
  Lazy = TRUE
  DrainAfterIdle = FALSE
  Resumed = TRUE
  Age = 1
  StartWaitIdle = FALSE
INVARIANTS NotFaster NoLostWakeup Regular
CHECK_DEADLOCK FALSE
