----------------------------- MODULE Admission -----------------------------
(***************************************************************************)
(* Tier I for C03 (state machine over the rules of AdmissionRules.tla):    *)
(* offers of every shape arrive on every path; what is admitted is         *)
(* remembered; a block is applied when a header and data are cached.       *)
(***************************************************************************)
EXTENDS AdmissionRules

VARIABLES seen,       \* the genuine header's hash is marked seen (the hash covers the header fields, not the signature)
          admitted,   \* header offers that entered the node, with the path they took
          dadmitted,  \* signed-data offers that entered the node from the DA layer
          dcache,     \* the transaction data cached for the next block: "none" | "genuine" | "other" (P2P data is unsigned)
          hcache,     \* TRUE: an admitted header for the next block is cached
          executed,   \* set of bodies executed
          halted
vars == <<seen, admitted, dadmitted, dcache, hcache, executed, halted>>

Init == seen = FALSE /\ admitted = {} /\ dadmitted = {} /\ dcache = "none" /\ hcache = FALSE /\ executed = {} /\ halted = FALSE

OfferHeader(o, path) ==
    /\ ~halted /\ PossibleH(o)
    /\ LET ok == CASE path = "da" -> AdmitDAWhen(o, seen) [] path = "p2p" -> AdmitP2P(o) [] OTHER -> AdmitLight(o)
       IN /\ admitted' = IF ok THEN admitted \cup {<<o, path>>} ELSE admitted
          /\ hcache' = (hcache \/ (ok /\ path # "light"))
          /\ seen' = (seen \/ (ok /\ o.body = "genuine"))
    /\ UNCHANGED <<dadmitted, dcache, executed, halted>>

OfferSignedData(o) ==
    /\ ~halted /\ PossibleD(o)
    /\ IF AdmitData(o)
          THEN dadmitted' = dadmitted \cup {o} /\ dcache' = (IF dcache = "none" THEN o.body ELSE dcache)
          ELSE UNCHANGED <<dadmitted, dcache>>
    /\ UNCHANGED <<seen, admitted, hcache, executed, halted>>

\* transaction data from the P2P data store carries no signature; it is bound to the header only when the block is
\* applied (the header commits to the data)
OfferP2PData(body) ==
    /\ ~halted /\ body \in {"genuine", "other"}
    /\ dcache' = (IF dcache = "none" THEN body ELSE dcache)
    /\ UNCHANGED <<seen, admitted, dadmitted, hcache, executed, halted>>

\* trySyncNextBlock: header and data cached; execution only if the header commits to that data, otherwise the node
\* stops with an error (sync.go: "failed to validate block")
Apply ==
    /\ ~halted /\ hcache /\ dcache # "none"
    /\ IF dcache = "genuine" THEN executed' = executed \cup {dcache} /\ halted' = halted
                             ELSE halted' = TRUE /\ executed' = executed
    /\ hcache' = FALSE /\ dcache' = "none"
    /\ UNCHANGED <<seen, admitted, dadmitted>>

Next == \/ \E o \in HOffers, p \in {"da", "p2p", "light"} : OfferHeader(o, p)
        \/ \E o \in DOffers : OfferSignedData(o)
        \/ \E b \in {"genuine", "other"} : OfferP2PData(b)
        \/ Apply
Spec == Init /\ [][Next]_vars

\* ---- properties ---------------------------------------------------------------------------------
GenuineH(o) == o.addr = "P" /\ o.key = "P" /\ o.sig = [by |-> "P", over |-> "these"] /\ o.body = "genuine"
\* C03: nothing but the proposer's own signed headers and data enters, on any path
OnlyProposersHeaders == \A x \in admitted : GenuineH(x[1])
OnlyProposersData == \A o \in dadmitted : o.key = "P" /\ o.sig = [by |-> "P", over |-> "these"] /\ o.body = "genuine"
ExecutedOnlyProposers == executed \subseteq {"genuine"}
\* NOT a listed property, and false in the design: forged P2P data stops a full node (see DESIGN.md, observations)
NeverHalts == ~halted
=============================================================================
