package world

import (
	coreda "github.com/evstack/ev-node/core/da"
	"bytes"
	"context"
	"crypto/rand"
	"errors"
	"fmt"
	"os"
	"sync"
	"time"

	goheader "github.com/celestiaorg/go-header"
	logging "github.com/ipfs/go-log/v2"
	"github.com/libp2p/go-libp2p/core/crypto"

	"github.com/evstack/ev-node/block"
	coresequencer "github.com/evstack/ev-node/core/sequencer"
	"github.com/evstack/ev-node/pkg/config"
	"github.com/evstack/ev-node/pkg/genesis"
	"github.com/evstack/ev-node/pkg/signer"
	"github.com/evstack/ev-node/pkg/signer/noop"
	"github.com/evstack/ev-node/pkg/store"
	"github.com/evstack/ev-node/types"
)

const ChainID = "verif-chain"

func init() {
	logging.SetupLogging(logging.Config{Format: logging.PlaintextOutput, Stderr: true, Level: logging.LevelFatal})
	logging.SetAllLoggers(logging.LevelFatal)
}

// World is the environment shared by all nodes of one run: trace, tx ids, DA layer, the
// proposer's key (known to the harness so that it can classify signatures itself) and an
// adversary key.
type World struct {
	Tr       *Tracer
	IDs      *TxIDs
	DA       *DADouble
	PropPriv crypto.PrivKey
	PropPub  crypto.PubKey
	PropAddr []byte
	Signer   signer.Signer
	AdvPriv  crypto.PrivKey
	AdvPub   crypto.PubKey
	Genesis  genesis.Genesis
	Scratch  string
}

func NewWorld(tr *Tracer, initialHeight uint64, genesisTime time.Time) *World {
	pp, pub, err := crypto.GenerateEd25519Key(rand.Reader)
	if err != nil {
		panic(err)
	}
	ap, apub, _ := crypto.GenerateEd25519Key(rand.Reader)
	sg, err := noop.NewNoopSigner(pp)
	if err != nil {
		panic(err)
	}
	addr := types.KeyAddress(pub)
	w := &World{Tr: tr, IDs: NewTxIDs(), PropPriv: pp, PropPub: pub, PropAddr: addr, Signer: sg, AdvPriv: ap, AdvPub: apub}
	w.Genesis = genesis.NewGenesis(ChainID, initialHeight, genesisTime, addr)
	w.DA = NewDADouble(tr)
	w.DA.Classify = w.ClassifyBlob
	dir, err := os.MkdirTemp("", "verif-world-")
	if err != nil {
		panic(err)
	}
	w.Scratch = dir
	return w
}

func (w *World) Close() { os.RemoveAll(w.Scratch) }

// Bcast records the payloads handed to a broadcaster.
type Bcast[T any] struct {
	mu    sync.Mutex
	tr    *Tracer
	node  string
	kind  string
	sum   func(T) F
	Items []T
	Fail  int
	// After, when set, runs after a payload was recorded (e.g. to log an observation per produced block).
	After func()
}

func (b *Bcast[T]) WriteToStoreAndBroadcast(ctx context.Context, payload T) error {
	b.mu.Lock()
	fail := b.Fail > 0
	if fail {
		b.Fail--
	} else {
		b.Items = append(b.Items, payload)
	}
	b.mu.Unlock()
	rec := b.sum(payload)
	rec["node"] = b.node
	rec["kind"] = b.kind
	rec["ok"] = !fail
	b.tr.Emit("Bcast", rec)
	if !fail && b.After != nil {
		b.After()
	}
	if fail {
		return errors.New("bcast: scripted failure")
	}
	return nil
}

// P2PStore is a height-contiguous goheader.Store double (what the P2P sync services expose
// to the block manager).
type P2PStore[H goheader.Header[H]] struct {
	mu    sync.Mutex
	base  uint64 // height of items[0]
	items []H
	// FailReads makes the next n GetByHeight calls fail with a transient error (a store read that fails once).
	FailReads int
}

// FailNextReads arms n transient read failures.
func (s *P2PStore[H]) FailNextReads(n int) { s.mu.Lock(); s.FailReads = n; s.mu.Unlock() }

// Armed reports whether an armed read failure has not been consumed yet (the node had no reason to read).
func (s *P2PStore[H]) Armed() bool { s.mu.Lock(); defer s.mu.Unlock(); return s.FailReads > 0 }

func (s *P2PStore[H]) AppendItem(h H) {
	s.mu.Lock()
	defer s.mu.Unlock()
	if len(s.items) == 0 {
		s.base = h.Height()
	}
	s.items = append(s.items, h)
}

func (s *P2PStore[H]) Height() uint64 {
	s.mu.Lock()
	defer s.mu.Unlock()
	if len(s.items) == 0 {
		return 0
	}
	return s.base + uint64(len(s.items)) - 1
}

func (s *P2PStore[H]) GetByHeight(_ context.Context, h uint64) (H, error) {
	s.mu.Lock()
	defer s.mu.Unlock()
	var zero H
	if s.FailReads > 0 {
		s.FailReads--
		return zero, errors.New("p2pstore: transient read failure")
	}
	if len(s.items) == 0 || h < s.base || h >= s.base+uint64(len(s.items)) {
		return zero, goheader.ErrNotFound
	}
	return s.items[h-s.base], nil
}

func (s *P2PStore[H]) Head(ctx context.Context, _ ...goheader.HeadOption[H]) (H, error) {
	s.mu.Lock()
	defer s.mu.Unlock()
	var zero H
	if len(s.items) == 0 {
		return zero, goheader.ErrNoHead
	}
	return s.items[len(s.items)-1], nil
}

func (s *P2PStore[H]) Get(ctx context.Context, hash goheader.Hash) (H, error) {
	s.mu.Lock()
	defer s.mu.Unlock()
	var zero H
	for _, it := range s.items {
		if bytes.Equal(it.Hash(), hash) {
			return it, nil
		}
	}
	return zero, goheader.ErrNotFound
}

func (s *P2PStore[H]) GetRangeByHeight(ctx context.Context, from H, to uint64) ([]H, error) {
	return s.GetRange(ctx, from.Height()+1, to)
}

func (s *P2PStore[H]) GetRange(ctx context.Context, from, to uint64) ([]H, error) {
	var out []H
	for h := from; h < to; h++ {
		it, err := s.GetByHeight(ctx, h)
		if err != nil {
			return nil, err
		}
		out = append(out, it)
	}
	return out, nil
}

func (s *P2PStore[H]) Init(ctx context.Context, h H) error { s.AppendItem(h); return nil }
func (s *P2PStore[H]) Has(ctx context.Context, hash goheader.Hash) (bool, error) {
	_, err := s.Get(ctx, hash)
	return err == nil, nil
}
func (s *P2PStore[H]) HasAt(ctx context.Context, h uint64) bool {
	_, err := s.GetByHeight(ctx, h)
	return err == nil
}
func (s *P2PStore[H]) Append(ctx context.Context, hs ...H) error {
	for _, h := range hs {
		s.AppendItem(h)
	}
	return nil
}

// NodeOpts configures one node of the world.
type NodeOpts struct {
	Name         string
	Aggregator   bool
	MaxPending   uint64
	Lazy         bool
	BlockTime    time.Duration
	LazyInterval time.Duration
	DABlockTime  time.Duration
	DAStart      uint64
	MempoolTTL   uint64
}

// Node is one node process: a durable image (KV + cache files) plus, while it is up, a
// block.Manager built from /repo's working tree.
type Node struct {
	W      *World
	Opts   NodeOpts
	KV     *CrashKV
	Store  store.Store
	Exec   *ExecDouble
	Seq    coresequencer.Sequencer
	SeqD   *SeqDouble
	M      *block.Manager
	HB     *Bcast[*types.SignedHeader]
	DB     *Bcast[*types.Data]
	HStore *P2PStore[*types.SignedHeader]
	DStore *P2PStore[*types.Data]
	// DAOverride, when set, is what the node talks to instead of the world's DA double (e.g. the JSON-RPC client
	// logic in front of it).
	DAOverride coreda.DA
	Root   string
	Cfg    config.Config
	Starts int
}

func (w *World) NewNode(o NodeOpts) *Node {
	n := &Node{W: w, Opts: o}
	n.KV = NewCrashKV(w.Tr, o.Name)
	n.Exec = NewExecDouble(w.Tr, o.Name, w.IDs)
	n.SeqD = NewSeqDouble(w.Tr, o.Name, w.IDs)
	n.Seq = n.SeqD
	n.HB = &Bcast[*types.SignedHeader]{tr: w.Tr, node: o.Name, kind: "hdr", sum: func(h *types.SignedHeader) F {
		return F{"h": int(h.Height()), "hash": short(h.Hash().String()), "ntx": 0}
	}}
	n.DB = &Bcast[*types.Data]{tr: w.Tr, node: o.Name, kind: "data", sum: func(d *types.Data) F {
		h := 0
		if d.Metadata != nil {
			h = int(d.Metadata.Height)
		}
		return F{"h": h, "hash": short(d.DACommitment().String()), "ntx": len(d.Txs)}
	}}
	n.HStore = &P2PStore[*types.SignedHeader]{}
	n.DStore = &P2PStore[*types.Data]{}
	n.Root = fmt.Sprintf("%s/%s", w.Scratch, o.Name)
	os.MkdirAll(n.Root, 0o755)
	cfg := config.DefaultConfig
	cfg.RootDir = n.Root
	cfg.ChainID = ChainID
	cfg.Node.Aggregator = o.Aggregator
	cfg.Node.MaxPendingHeadersAndData = o.MaxPending
	cfg.Node.LazyMode = o.Lazy
	if o.BlockTime > 0 {
		cfg.Node.BlockTime.Duration = o.BlockTime
	}
	if o.LazyInterval > 0 {
		cfg.Node.LazyBlockInterval.Duration = o.LazyInterval
	}
	if o.DABlockTime > 0 {
		cfg.DA.BlockTime.Duration = o.DABlockTime
	}
	cfg.DA.StartHeight = o.DAStart
	if o.MempoolTTL > 0 {
		cfg.DA.MempoolTTL = o.MempoolTTL
	}
	cfg.Instrumentation = nil
	n.Cfg = cfg
	return n
}

// Start builds a fresh Manager on the node's current durable image (process start). It
// logs Restart{ok}. A panic other than the crash sentinel is logged as Panic and re-raised.
func (n *Node) Start(ctx context.Context) (err error) {
	n.Starts++
	n.Store = store.New(n.KV)
	var sg signer.Signer
	if n.Opts.Aggregator {
		sg = n.W.Signer
	}
	defer func() {
		if r := recover(); r != nil {
			if cs, ok := r.(CrashSentinel); ok {
				n.M = nil
				n.W.Tr.Emit("Crash", F{"node": n.Opts.Name, "at": cs.At, "during": "start"})
				err = ErrCrashed
				return
			}
			n.W.Tr.Emit("Panic", F{"node": n.Opts.Name, "where": "start", "msg": fmt.Sprint(r)})
			panic(r)
		}
	}()
	n.KV.Probe, n.Exec.Probe = nil, nil
	if n.Exec.Reopen != nil {
		n.Exec.Inner = n.Exec.Reopen()
	}
	var dalayer coreda.DA = n.W.DA
	if n.DAOverride != nil {
		dalayer = n.DAOverride
	}
	m, e := block.NewManager(ctx, sg, n.Cfg, n.W.Genesis, n.Store, n.Exec, n.Seq, dalayer,
		logging.Logger("verif-"+n.Opts.Name), n.HStore, n.DStore, n.HB, n.DB, block.NopMetrics(), 1.0, 1.5, block.DefaultManagerOptions())
	if e != nil {
		n.M = nil
		n.W.Tr.Emit("Restart", F{"node": n.Opts.Name, "ok": false, "err": trunc(e.Error()), "k": n.Starts})
		return e
	}
	n.M = m
	probe := func() int { return clampInt(m.GetDAIncludedHeight()) }
	n.KV.Probe, n.Exec.Probe = probe, probe
	n.W.Tr.Emit("Restart", F{"node": n.Opts.Name, "ok": true, "err": "", "k": n.Starts})
	return nil
}

// ErrCrashed is returned by Step/Start when the write fuse blew.
var ErrCrashed = errors.New("node crashed (write fuse)")

// Step runs one production step of an aggregator through the verif hook. A blown fuse is
// reported as ErrCrashed after logging Crash; any other panic is logged and re-raised.
func (n *Node) Step(ctx context.Context) (err error) {
	defer func() {
		if r := recover(); r != nil {
			if cs, ok := r.(CrashSentinel); ok {
				n.M = nil
				n.W.Tr.Emit("Crash", F{"node": n.Opts.Name, "at": cs.At, "during": "step"})
				err = ErrCrashed
				return
			}
			n.W.Tr.Emit("Panic", F{"node": n.Opts.Name, "where": "step", "msg": fmt.Sprint(r)})
			panic(r)
		}
	}()
	n.W.Tr.Emit("StepEnter", F{"node": n.Opts.Name})
	e := n.M.VerifPublishBlock(ctx)
	msg := ""
	if e != nil {
		msg = trunc(e.Error())
	}
	n.W.Tr.Emit("StepRet", F{"node": n.Opts.Name, "ok": e == nil, "err": msg})
	return e
}

func trunc(s string) string {
	if len(s) > 160 {
		return s[:160]
	}
	return s
}
