SPECIFICATION Spec
CONSTANTS
  BT = 3
  LZ = 7
  Durs = {0, 2, 4}
  Horizon = 20
  MaxNotifs = 2
  Lazy = TRUE
  DrainAfterIdle = FALSE
  Resumed = FALSE
  Age = 0
  StartWaitIdle = FALSE
INVARIANTS NotFaster NoLostWakeup Regular
CHECK_DEADLOCK FALSE
