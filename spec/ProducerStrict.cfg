SPECIFICATION SSpec
CONSTANTS
  IH = 1
  MaxH = 100000
  MaxReplies = 100000
  MaxCrashes = 100000
  TxLists = {}
  GuardEmpty = TRUE
  StateFirst = TRUE
  Rec = FALSE
INVARIANT Finish
POSTCONDITION Consumed
CHECK_DEADLOCK FALSE
