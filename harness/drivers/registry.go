package drivers

import "strconv"

// Registry maps driver names to entry points. arg is driver specific.
var Registry = map[string]func(c *Ctx, arg string) error{
	"producer": func(c *Ctx, arg string) error {
		ih := uint64(1)
		if arg != "" {
			v, err := strconv.Atoi(arg)
			if err != nil {
				return err
			}
			ih = uint64(v)
		}
		if c.BehDir != "" {
			names, behs, err := LoadBehaviours(c.BehDir)
			if err != nil {
				return err
			}
			for i := range behs {
				RunProducerBehaviour(c, names[i], behs[i], ih)
			}
			return nil
		}
		RunProducerCrashEnum(c)
		if c.Thorough() {
			RunProducerRandom(c, 60, 200)
		} else {
			RunProducerRandom(c, 25, 40)
		}
		return nil
	},
}
