package drivers

import (
	"context"
	"fmt"
	mrand "math/rand"

	ds "github.com/ipfs/go-datastore"
	dssync "github.com/ipfs/go-datastore/sync"
	logging "github.com/ipfs/go-log/v2"

	coresequencer "github.com/evstack/ev-node/core/sequencer"
	"github.com/evstack/ev-node/sequencers/based"

	"verif/harness/world"
)

// RunBased drives the real based.Sequencer (C20) on the DA double: DA contents of any shape
// (several transactions per height, empty heights, heights that appear later), all size limits
// (also smaller than one transaction), transient retrieval errors, and a restart (new sequencer
// on the same datastore) between any two calls.
func RunBased(c *Ctx) {
	rng := mrand.New(mrand.NewSource(c.Seed + 55))
	runs := 250
	if c.Thorough() {
		runs = 2500
	}
	for r := 0; r < runs; r++ {
		c.Tr.Reset(fmt.Sprintf("based/%d", r), world.F{"driver": "based", "ih": 1})
		da := world.NewDADouble(c.Tr)
		store := dssync.MutexWrap(ds.NewMapDatastore())
		ids := world.NewTxIDs()
		nh := 2 + rng.Intn(5)
		var ideal []string
		var sizes []int
		n := 0
		heights := make([][][]byte, nh+1)
		for h := 1; h <= nh; h++ {
			k := rng.Intn(4)
			if rng.Intn(4) == 0 {
				k = 0
			}
			for j := 0; j < k; j++ {
				n++
				sz := 1 + rng.Intn(4)
				tx := make([]byte, sz)
				copy(tx, fmt.Sprintf("%c", 'a'+n%26))
				tx[sz-1] = byte(n) // distinct contents
				name := fmt.Sprintf("t%d", n)
				ids.Name(tx, name)
				heights[h] = append(heights[h], tx)
				ideal = append(ideal, name)
				sizes = append(sizes, sz)
			}
		}
		c.Tr.Emit("BIdeal", world.F{"txs": world.Strs(ideal), "sizes": world.Ints(sizes)})
		avail := 0 // DA heights produced so far
		grow := func(to int) {
			for avail < to && avail < nh {
				avail++
				for _, tx := range heights[avail] {
					da.Place(uint64(avail), tx)
				}
				da.SetCurrent(uint64(avail))
			}
		}
		grow(1 + rng.Intn(nh))
		drift := uint64(1 + rng.Intn(4))
		mk := func() *based.Sequencer {
			s, err := based.NewSequencer(logging.Logger("verif-based"), da, []byte(world.ChainID), 1, drift, store)
			if err != nil {
				c.Tr.Emit("BRestart", world.F{"ok": false})
				return nil
			}
			c.Tr.Emit("BRestart", world.F{"ok": true})
			return s
		}
		seq := mk()
		var last [][]byte
		limits := []uint64{2, 3, 4, 5, 6, 9, 1}
		calls := 8 + rng.Intn(10)
		for i := 0; i < calls+12 && seq != nil; i++ {
			settle := i >= calls
			if settle {
				grow(nh)
			} else {
				if rng.Intn(3) == 0 {
					grow(avail + 1)
				}
				if rng.Intn(6) == 0 && avail > 0 {
					h := uint64(1 + rng.Intn(avail))
					da.FetchScript[h] = append(da.FetchScript[h], []string{"errlist", "errchunk:0"}[rng.Intn(2)])
				}
				if rng.Intn(5) == 0 {
					seq = mk()
					if seq == nil {
						break
					}
				}
			}
			limit := limits[rng.Intn(len(limits)-1)]
			if settle {
				limit = 6
			} else if rng.Intn(12) == 0 {
				limit = 1
			}
			var res *coresequencer.GetNextBatchResponse
			var err error
			func() {
				defer func() {
					if p := recover(); p != nil {
						c.Tr.Emit("Panic", world.F{"node": "based", "where": "GetNextBatch", "msg": fmt.Sprint(p)})
					}
				}()
				res, err = seq.GetNextBatch(context.Background(), coresequencer.GetNextBatchRequest{Id: []byte(world.ChainID), LastBatchData: last, MaxBytes: limit})
			}()
			rec := world.F{"limit": int(limit), "txs": []string{}, "size": 0, "res": "nil", "settle": settle}
			if err != nil {
				rec["res"] = "err"
			} else if res != nil && res.Batch != nil {
				rec["res"] = "ok"
				sz := 0
				var names []string
				for _, tx := range res.Batch.Transactions {
					sz += len(tx)
					names = append(names, ids.ID(tx))
				}
				rec["txs"], rec["size"] = world.Strs(names), sz
				if len(res.BatchData) > 0 {
					last = res.BatchData
				}
			}
			c.Tr.Emit("BCall", rec)
		}
		c.Tr.Emit("BEnd", world.F{})
		c.Count("basedruns", 1)
	}
}
