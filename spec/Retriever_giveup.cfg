SPECIFICATION Spec
CONSTANTS
  Start = 1
  Last = 4
  MaxFails = 3
  Retries = 2
  Content <- MC_Content
  AdvanceOnGiveUp = TRUE
  FutureAsEmpty = FALSE
INVARIANTS NoSkip AllGenuineEmitted NeverAheadOfDA
PROPERTIES AdvanceOnlyAfterOk
CHECK_DEADLOCK FALSE
