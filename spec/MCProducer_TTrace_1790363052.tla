---- MODULE MCProducer_TTrace_1790363052 ----
EXTENDS MCProducer_TEConstants, Sequences, TLCExt, Toolbox, Naturals, TLC, MCProducer

_expression ==
    LET MCProducer_TEExpression == INSTANCE MCProducer_TEExpression
    IN MCProducer_TEExpression!expression
----

_trace ==
    LET MCProducer_TETrace == INSTANCE MCProducer_TETrace
    IN MCProducer_TETrace!trace
----

_prop ==
    ~(([]<>(
            cur = ([h |-> 0])
            /\
            hist = (<<>>)
            /\
            pc = ("down")
            /\
            replies = (0)
            /\
            mem = ([h |-> 0, root |-> <<>>, t |-> 0, stored |-> FALSE])
            /\
            taken = (<<>>)
            /\
            batch = ([kind |-> "none", txs |-> <<>>, ts |-> 0])
            /\
            execLog = (<<>>)
            /\
            crashes = (1)
            /\
            published = ({})
            /\
            kv = ([blocks |-> <<[h |-> 1, t |-> 0, txs |-> <<>>, prev |-> <<>>, app |-> <<>>, sig |-> "P", ssig |-> "P", meta |-> FALSE]>>, height |-> 0, state |-> [h |-> 0, root |-> <<>>, t |-> 0, stored |-> FALSE]])
            /\
            wc = (0)
    ))/\([]<>(
            cur = ([h |-> 0])
            /\
            hist = (<<>>)
            /\
            pc = ("starting")
            /\
            replies = (0)
            /\
            mem = ([h |-> 0, root |-> <<>>, t |-> 0, stored |-> FALSE])
            /\
            taken = (<<>>)
            /\
            batch = ([kind |-> "none", txs |-> <<>>, ts |-> 0])
            /\
            execLog = (<<>>)
            /\
            crashes = (1)
            /\
            published = ({})
            /\
            kv = ([blocks |-> <<[h |-> 1, t |-> 0, txs |-> <<>>, prev |-> <<>>, app |-> <<>>, sig |-> "P", ssig |-> "P", meta |-> FALSE]>>, height |-> 0, state |-> [h |-> 0, root |-> <<>>, t |-> 0, stored |-> FALSE]])
            /\
            wc = (1)
    )))
----

_init ==
    /\ cur = _TETrace[1].cur
    /\ pc = _TETrace[1].pc
    /\ execLog = _TETrace[1].execLog
    /\ hist = _TETrace[1].hist
    /\ taken = _TETrace[1].taken
    /\ replies = _TETrace[1].replies
    /\ crashes = _TETrace[1].crashes
    /\ published = _TETrace[1].published
    /\ wc = _TETrace[1].wc
    /\ mem = _TETrace[1].mem
    /\ batch = _TETrace[1].batch
    /\ kv = _TETrace[1].kv
----

_next ==
    /\ \E i,j \in DOMAIN _TETrace:
        /\ \/ /\ j = i + 1
              /\ i = TLCGet("level")
           \/ /\ i = _TTraceLassoEnd
              /\ j = _TTraceLassoStart
        /\ cur  = _TETrace[i].cur
        /\ cur' = _TETrace[j].cur
        /\ pc  = _TETrace[i].pc
        /\ pc' = _TETrace[j].pc
        /\ execLog  = _TETrace[i].execLog
        /\ execLog' = _TETrace[j].execLog
        /\ hist  = _TETrace[i].hist
        /\ hist' = _TETrace[j].hist
        /\ taken  = _TETrace[i].taken
        /\ taken' = _TETrace[j].taken
        /\ replies  = _TETrace[i].replies
        /\ replies' = _TETrace[j].replies
        /\ crashes  = _TETrace[i].crashes
        /\ crashes' = _TETrace[j].crashes
        /\ published  = _TETrace[i].published
        /\ published' = _TETrace[j].published
        /\ wc  = _TETrace[i].wc
        /\ wc' = _TETrace[j].wc
        /\ mem  = _TETrace[i].mem
        /\ mem' = _TETrace[j].mem
        /\ batch  = _TETrace[i].batch
        /\ batch' = _TETrace[j].batch
        /\ kv  = _TETrace[i].kv
        /\ kv' = _TETrace[j].kv

\* Uncomment the ASSUME below to write the states of the error trace
\* to the given file in Json format. Note that you can pass any tuple
\* to `JsonSerialize`. For example, a sub-sequence of _TETrace.
    \* ASSUME
    \*     LET J == INSTANCE Json
    \*         IN J!JsonSerialize("MCProducer_TTrace_1790363052.json", _TETrace)


_view ==
    <<cur, pc, execLog, hist, taken, replies, crashes, published, wc, mem, batch, kv, IF TLCGet("level") = _TTraceLassoEnd + 1 THEN _TTraceLassoStart ELSE TLCGet("level")>>
=============================================================================

 Note that you can extract this module `MCProducer_TEExpression`
  to a dedicated file to reuse `expression` (the module in the 
  dedicated `MCProducer_TEExpression.tla` file takes precedence 
  over the module `MCProducer_TEExpression` below).

---- MODULE MCProducer_TEExpression ----
EXTENDS MCProducer_TEConstants, Sequences, TLCExt, Toolbox, Naturals, TLC, MCProducer

expression == 
    [
        \* To hide variables of the `MCProducer` spec from the error trace,
        \* remove the variables below.  The trace will be written in the order
        \* of the fields of this record.
        cur |-> cur
        ,pc |-> pc
        ,execLog |-> execLog
        ,hist |-> hist
        ,taken |-> taken
        ,replies |-> replies
        ,crashes |-> crashes
        ,published |-> published
        ,wc |-> wc
        ,mem |-> mem
        ,batch |-> batch
        ,kv |-> kv
        
        \* Put additional constant-, state-, and action-level expressions here:
        \* ,_stateNumber |-> _TEPosition
        \* ,_curUnchanged |-> cur = cur'
        
        \* Format the `cur` variable as Json value.
        \* ,_curJson |->
        \*     LET J == INSTANCE Json
        \*     IN J!ToJson(cur)
        
        \* Lastly, you may build expressions over arbitrary sets of states by
        \* leveraging the _TETrace operator.  For example, this is how to
        \* count the number of times a spec variable changed up to the current
        \* state in the trace.
        \* ,_curModCount |->
        \*     LET F[s \in DOMAIN _TETrace] ==
        \*         IF s = 1 THEN 0
        \*         ELSE IF _TETrace[s].cur # _TETrace[s-1].cur
        \*             THEN 1 + F[s-1] ELSE F[s-1]
        \*     IN F[_TEPosition - 1]
    ]

=============================================================================



Parsing and semantic processing can take forever if the trace below is long.
 In this case, it is advised to uncomment the module below to deserialize the
 trace from a generated binary file.

\*
\*---- MODULE MCProducer_TETrace ----
\*EXTENDS MCProducer_TEConstants, IOUtils, TLC, MCProducer
\*
\*trace == IODeserialize("MCProducer_TTrace_1790363052.bin", TRUE)
\*
\*=============================================================================
\*

---- MODULE MCProducer_TETrace ----
EXTENDS MCProducer_TEConstants, TLC, MCProducer

trace == 
    <<
    ([cur |-> [h |-> 0],hist |-> <<>>,pc |-> "down",replies |-> 0,mem |-> [h |-> 0, root |-> <<>>, t |-> 0, stored |-> FALSE],taken |-> <<>>,batch |-> [kind |-> "none", txs |-> <<>>, ts |-> 0],execLog |-> <<>>,crashes |-> 0,published |-> {},kv |-> [blocks |-> <<>>, height |-> 0, state |-> [h |-> 0, root |-> <<>>, t |-> 0, stored |-> FALSE]],wc |-> 0]),
    ([cur |-> [h |-> 0],hist |-> <<>>,pc |-> "starting",replies |-> 0,mem |-> [h |-> 0, root |-> <<>>, t |-> 0, stored |-> FALSE],taken |-> <<>>,batch |-> [kind |-> "none", txs |-> <<>>, ts |-> 0],execLog |-> <<>>,crashes |-> 0,published |-> {},kv |-> [blocks |-> <<[h |-> 1, t |-> 0, txs |-> <<>>, prev |-> <<>>, app |-> <<>>, sig |-> "P", ssig |-> "P", meta |-> FALSE]>>, height |-> 0, state |-> [h |-> 0, root |-> <<>>, t |-> 0, stored |-> FALSE]],wc |-> 1]),
    ([cur |-> [h |-> 0],hist |-> <<>>,pc |-> "down",replies |-> 0,mem |-> [h |-> 0, root |-> <<>>, t |-> 0, stored |-> FALSE],taken |-> <<>>,batch |-> [kind |-> "none", txs |-> <<>>, ts |-> 0],execLog |-> <<>>,crashes |-> 1,published |-> {},kv |-> [blocks |-> <<[h |-> 1, t |-> 0, txs |-> <<>>, prev |-> <<>>, app |-> <<>>, sig |-> "P", ssig |-> "P", meta |-> FALSE]>>, height |-> 0, state |-> [h |-> 0, root |-> <<>>, t |-> 0, stored |-> FALSE]],wc |-> 1]),
    ([cur |-> [h |-> 0],hist |-> <<>>,pc |-> "starting",replies |-> 0,mem |-> [h |-> 0, root |-> <<>>, t |-> 0, stored |-> FALSE],taken |-> <<>>,batch |-> [kind |-> "none", txs |-> <<>>, ts |-> 0],execLog |-> <<>>,crashes |-> 1,published |-> {},kv |-> [blocks |-> <<[h |-> 1, t |-> 0, txs |-> <<>>, prev |-> <<>>, app |-> <<>>, sig |-> "P", ssig |-> "P", meta |-> FALSE]>>, height |-> 0, state |-> [h |-> 0, root |-> <<>>, t |-> 0, stored |-> FALSE]],wc |-> 1]),
    ([cur |-> [h |-> 0],hist |-> <<>>,pc |-> "idle",replies |-> 0,mem |-> [h |-> 0, root |-> <<>>, t |-> 0, stored |-> FALSE],taken |-> <<>>,batch |-> [kind |-> "none", txs |-> <<>>, ts |-> 0],execLog |-> <<>>,crashes |-> 1,published |-> {},kv |-> [blocks |-> <<[h |-> 1, t |-> 0, txs |-> <<>>, prev |-> <<>>, app |-> <<>>, sig |-> "P", ssig |-> "P", meta |-> FALSE]>>, height |-> 0, state |-> [h |-> 0, root |-> <<>>, t |-> 0, stored |-> FALSE]],wc |-> 1]),
    ([cur |-> [h |-> 1, t |-> 0, txs |-> <<>>, prev |-> <<>>, app |-> <<>>, sig |-> "P", ssig |-> "P", meta |-> FALSE],hist |-> <<>>,pc |-> "haveBlock",replies |-> 0,mem |-> [h |-> 0, root |-> <<>>, t |-> 0, stored |-> FALSE],taken |-> <<>>,batch |-> [kind |-> "none", txs |-> <<>>, ts |-> 0],execLog |-> <<>>,crashes |-> 1,published |-> {},kv |-> [blocks |-> <<[h |-> 1, t |-> 0, txs |-> <<>>, prev |-> <<>>, app |-> <<>>, sig |-> "P", ssig |-> "P", meta |-> FALSE]>>, height |-> 0, state |-> [h |-> 0, root |-> <<>>, t |-> 0, stored |-> FALSE]],wc |-> 0]),
    ([cur |-> [h |-> 1, t |-> 0, txs |-> <<>>, prev |-> <<>>, app |-> <<>>, sig |-> "P", ssig |-> "P", meta |-> FALSE],hist |-> <<>>,pc |-> "halted",replies |-> 0,mem |-> [h |-> 0, root |-> <<>>, t |-> 0, stored |-> FALSE],taken |-> <<>>,batch |-> [kind |-> "none", txs |-> <<>>, ts |-> 0],execLog |-> <<>>,crashes |-> 1,published |-> {},kv |-> [blocks |-> <<[h |-> 1, t |-> 0, txs |-> <<>>, prev |-> <<>>, app |-> <<>>, sig |-> "P", ssig |-> "P", meta |-> FALSE]>>, height |-> 0, state |-> [h |-> 0, root |-> <<>>, t |-> 0, stored |-> FALSE]],wc |-> 0]),
    ([cur |-> [h |-> 0],hist |-> <<>>,pc |-> "down",replies |-> 0,mem |-> [h |-> 0, root |-> <<>>, t |-> 0, stored |-> FALSE],taken |-> <<>>,batch |-> [kind |-> "none", txs |-> <<>>, ts |-> 0],execLog |-> <<>>,crashes |-> 1,published |-> {},kv |-> [blocks |-> <<[h |-> 1, t |-> 0, txs |-> <<>>, prev |-> <<>>, app |-> <<>>, sig |-> "P", ssig |-> "P", meta |-> FALSE]>>, height |-> 0, state |-> [h |-> 0, root |-> <<>>, t |-> 0, stored |-> FALSE]],wc |-> 0])
    >>
----


=============================================================================

---- MODULE MCProducer_TEConstants ----
EXTENDS MCProducer

CONSTANTS _TTraceLassoStart, _TTraceLassoEnd

=============================================================================

---- CONFIG MCProducer_TTrace_1790363052 ----
CONSTANTS
    IH = 1
    MaxH = 2
    MaxReplies = 3
    MaxCrashes = 1
    TxLists <- MC_TxLists1
    GuardEmpty = FALSE
    StateFirst = TRUE
    Rec = FALSE
_TTraceLassoStart = 4
_TTraceLassoEnd = 8

PROPERTY
    _prop

CHECK_DEADLOCK
    \* CHECK_DEADLOCK off because of PROPERTY or INVARIANT above.
    FALSE

INIT
    _init

NEXT
    _next

VIEW
    _view

CONSTANT
    _TETrace <- _trace

ALIAS
    _expression
=============================================================================
\* Generated on Fri Sep 25 19:04:13 UTC 2026