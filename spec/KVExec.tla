---------------------------- MODULE KVExec ----------------------------
(***************************************************************************)
(* Tier I model of the reference key-value execution layer                 *)
(* (apps/testapp/kv/kvexecutor.go), two independently driven instances.    *)
(* A block is a sequence of transactions key=value (or malformed); a block *)
(* with a malformed transaction changes nothing; the state root is a       *)
(* function of the key-value map.                                          *)
(* Deviation of the pinned tree kept as a switch:                          *)
(*   FinalInRoot = TRUE  SetFinal writes its height into the keyspace the  *)
(*                       state root is computed over                       *)
(*   InitRecomputes = TRUE  a repeated InitChain returns the root of the   *)
(*                       current state instead of the recorded genesis root*)
(***************************************************************************)
EXTENDS Integers, Sequences, FiniteSets, TLC

CONSTANTS Keys, Vals, MaxOps, FinalInRoot, InitRecomputes,
          TrustPrevOnEmpty   \* deviation (seeded C15f): an empty block returns the previous root the caller passed
Inst == {1, 2}
TxSet == [k : Keys, v : Vals, bad : {FALSE}] \cup {[k |-> "?", v |-> "?", bad |-> TRUE]}
Blocks == {<<t>> : t \in TxSet} \cup {<<t, u>> : t \in TxSet, u \in TxSet} \cup {<<>>}

VARIABLES kv, fin, hist, genesis, ops,
          initRet,     \* per instance: the sequence of roots InitChain has returned
          lastRet,     \* per instance: what the last successful ExecuteTxs returned (<<>> before the first)
          seenRoots    \* every root any call has returned so far: what a caller may pass as "previous state root"
vars == <<kv, fin, hist, genesis, ops, initRet, lastRet, seenRoots>>

Init == /\ kv = [i \in Inst |-> <<>>] /\ fin = [i \in Inst |-> 0] /\ hist = [i \in Inst |-> <<>>]
        /\ genesis = [i \in Inst |-> <<>>] /\ ops = 0 /\ initRet = [i \in Inst |-> <<>>]
        /\ lastRet = [i \in Inst |-> <<>>] /\ seenRoots = {}

RECURSIVE Apply(_, _)
Apply(m, b) == IF b = <<>> THEN m ELSE Apply((Head(b).k :> Head(b).v) @@ m, Tail(b))
Bad(b) == \E i \in 1 .. Len(b) : b[i].bad
Root(i) == IF FinalInRoot THEN <<kv[i], fin[i]>> ELSE <<kv[i]>>

\* the first InitChain records the root of the state it finds (<<root>>); later ones return the recorded root
InitChain(i) == /\ genesis' = [genesis EXCEPT ![i] = IF @ = <<>> THEN <<Root(i)>> ELSE @]
                /\ initRet' = [initRet EXCEPT ![i] = Append(@, IF genesis[i] = <<>> \/ InitRecomputes THEN Root(i) ELSE genesis[i][1])]
                /\ UNCHANGED <<kv, fin, hist, lastRet, seenRoots>>
\* prev: the previous state root the caller passes - none, or any root some call has returned (right, stale, another node's)
RootOf(m, f) == IF FinalInRoot THEN <<m, f>> ELSE <<m>>
Exec(i, b, prev) ==
    /\ IF Bad(b) THEN UNCHANGED <<kv, hist, lastRet, seenRoots>>
       ELSE /\ kv' = [kv EXCEPT ![i] = Apply(@, b)] /\ hist' = [hist EXCEPT ![i] = Append(@, b)]
            /\ LET r == IF TrustPrevOnEmpty /\ b = <<>> /\ prev # <<>> THEN prev[1] ELSE RootOf(Apply(kv[i], b), fin[i])
               IN lastRet' = [lastRet EXCEPT ![i] = <<r>>] /\ seenRoots' = seenRoots \cup {r}
    /\ UNCHANGED <<fin, genesis, initRet>>
Final(i, h) == /\ fin' = [fin EXCEPT ![i] = h] /\ UNCHANGED <<kv, hist, genesis, initRet, lastRet, seenRoots>>

Next == /\ ops < MaxOps /\ ops' = ops + 1
        /\ \E i \in Inst : InitChain(i) \/ (\E b \in Blocks, prev \in {<<>>} \cup {<<r>> : r \in seenRoots} : Exec(i, b, prev)) \/ (\E h \in 1 .. 2 : Final(i, h))
Spec == Init /\ [][Next]_vars

\* C15: equal executed-transaction histories give equal roots, whatever was finalized when
EqualHistoriesEqualRoots == hist[1] = hist[2] => Root(1) = Root(2)
\* chain initialization is idempotent: every InitChain of an instance returns what its first one returned
\* the root ExecuteTxs returns is the root of the state it leaves behind, whatever previous root the caller passed
\* (checked right after the call: a later finalization may legitimately change nothing but must not be needed)
ReturnedIsCurrent == \A i \in Inst : lastRet[i] # <<>> => (FinalInRoot \/ lastRet[i][1] = <<kv[i]>>)
InitIdempotent == \A i \in Inst : \A j \in 1 .. Len(initRet[i]) : initRet[i][j] = initRet[i][1]
==========================================================================
