package drivers

import (
	"strings"
	"bytes"
	"context"
	"fmt"
	mrand "math/rand"
	"os"

	ds "github.com/ipfs/go-datastore"

	"github.com/evstack/ev-node/pkg/store"
	"github.com/evstack/ev-node/types"

	"verif/harness/world"
)

// storeRun drives the real DefaultStore (C14) on the crash-injecting datastore or on real badger.
type storeRun struct {
	c      *Ctx
	kv     *world.CrashKV
	db     ds.Batching
	st     store.Store
	w      *world.World
	blocks map[string]*types.SignedHeader // "h/v" -> header
	datas  map[string]*types.Data
	byHash map[string]string // hex hash -> "h/v"
	dir    string
}

func (s *storeRun) mk(h uint64, v string) (*types.SignedHeader, *types.Data, types.Signature) {
	key := fmt.Sprintf("%d/%s", h, v)
	if sh, ok := s.blocks[key]; ok {
		return sh, s.datas[key], types.Signature("sig-" + key)
	}
	d := &types.Data{Txs: types.Txs{[]byte("tx-" + key)}, Metadata: &types.Metadata{ChainID: world.ChainID, Height: h, Time: uint64(h*1000 + uint64(len(v)))}}
	sh := &types.SignedHeader{Header: types.Header{BaseHeader: types.BaseHeader{ChainID: world.ChainID, Height: h, Time: uint64(h*1000) + uint64(v[0])},
		DataHash: d.DACommitment(), AppHash: []byte("app-" + key), ProposerAddress: s.w.PropAddr},
		Signer: types.Signer{PubKey: s.w.PropPub, Address: s.w.PropAddr}, Signature: types.Signature("hdrsig-" + key)}
	s.blocks[key], s.datas[key] = sh, d
	s.byHash[sh.Hash().String()] = key
	return sh, d, types.Signature("sig-" + key)
}

func (s *storeRun) call(op string, h uint64, v, k, val string, fuse int) {
	ctx := context.Background()
	rec := world.F{"op": op, "h": int(h), "v": v, "k": k, "val": val, "ok": true, "rh": 0, "rv": "", "rx": "", "crashed": false}
	if fuse >= 0 && s.kv != nil {
		s.kv.Arm(fuse)
	}
	// fuse -2: the datastore refuses the call's next write with an error; fuse -10-k: the k-th operation queued on a
	// write batch fails (the batch stays usable). The process lives on; the call must fail and leave nothing behind.
	if s.kv != nil && fuse == -2 {
		s.kv.FailWrite(1)
		rec["wf"] = true
		defer s.kv.FailWrite(0)
	}
	if s.kv != nil && fuse <= -11 {
		s.kv.FailBatchOp(-10 - fuse)
		rec["wf"] = true
		defer s.kv.FailBatchOp(0)
	}
	func() {
		defer func() {
			if r := recover(); r != nil {
				if _, ok := r.(world.CrashSentinel); ok {
					rec["crashed"] = true
					rec["ok"] = false
					return
				}
				s.c.Tr.Emit("Panic", world.F{"node": "store", "where": op, "msg": fmt.Sprint(r)})
				rec["ok"] = false
			}
		}()
		ident := func(sh *types.SignedHeader, d *types.Data, err error) {
			if err != nil {
				rec["ok"] = false
				return
			}
			key, known := s.byHash[sh.Hash().String()]
			if !known {
				rec["rv"] = "?"
				return
			}
			var hh uint64
			var vv string
			fmt.Sscanf(key, "%d/%s", &hh, &vv)
			rec["rh"], rec["rv"] = int(hh), vv
			// the data returned must be the data saved with that header
			if d != nil {
				want := s.datas[key]
				wb, _ := want.MarshalBinary()
				gb, _ := d.MarshalBinary()
				if !bytes.Equal(wb, gb) {
					rec["rx"] = "data-mismatch"
				}
			}
		}
		switch op {
		case "save":
			sh, d, sig := s.mk(h, v)
			if err := s.st.SaveBlockData(ctx, sh, d, &sig); err != nil {
				rec["ok"] = false
			}
		case "getblock":
			sh, d, err := s.st.GetBlockData(ctx, h)
			ident(sh, d, err)
		case "getheader":
			sh, err := s.st.GetHeader(ctx, h)
			ident(sh, nil, err)
		case "getbyhash":
			sh0, _, _ := s.mk(h, v)
			sh, d, err := s.st.GetBlockByHash(ctx, sh0.Hash())
			ident(sh, d, err)
		case "getsig":
			sg, err := s.st.GetSignature(ctx, h)
			if err != nil {
				rec["ok"] = false
			} else {
				rec["rx"] = string(*sg)
			}
		case "getsigbyhash":
			sh0, _, _ := s.mk(h, v)
			sg, err := s.st.GetSignatureByHash(ctx, sh0.Hash())
			if err != nil {
				rec["ok"] = false
			} else {
				rec["rx"] = string(*sg)
			}
		case "setheight":
			if err := s.st.SetHeight(ctx, h); err != nil {
				rec["ok"] = false
			}
		case "height":
			x, err := s.st.Height(ctx)
			rec["ok"] = err == nil
			rec["rh"] = int(x)
		case "setstate":
			if err := s.st.UpdateState(ctx, types.State{ChainID: world.ChainID, InitialHeight: 1, LastBlockHeight: h, AppHash: []byte(val), LastBlockTime: world.T0}); err != nil {
				rec["ok"] = false
			}
		case "getstate":
			st, err := s.st.GetState(ctx)
			if err != nil {
				rec["ok"] = false
			} else {
				rec["rh"], rec["rx"] = int(st.LastBlockHeight), string(st.AppHash)
			}
		case "setmeta":
			if err := s.st.SetMetadata(ctx, k, []byte(val)); err != nil {
				rec["ok"] = false
			}
		case "getmeta":
			b, err := s.st.GetMetadata(ctx, k)
			if err != nil {
				rec["ok"] = false
			} else {
				rec["rx"] = string(b)
			}
		}
	}()
	if s.kv != nil {
		s.kv.Disarm()
	}
	s.c.Tr.Emit("Call", rec)
}

func (s *storeRun) reopen() {
	if s.kv != nil {
		s.st = store.New(s.kv) // a new process on the same image
		s.c.Tr.Emit("Reopen", world.F{"ok": true})
		return
	}
	err := s.st.Close()
	db, err2 := store.NewDefaultKVStore(s.dir, "db", "verif")
	if err != nil || err2 != nil {
		s.c.Tr.Emit("Reopen", world.F{"ok": false})
		return
	}
	s.db = db
	s.st = store.New(db)
	s.c.Tr.Emit("Reopen", world.F{"ok": true})
}

var storeMetaKeys = []string{"d", "l", "last-submitted-header-height", "last-submitted-data-height", "rhb/1/h", "rhb/1/d", "rhb/2/h"}

func (s *storeRun) randomOp(rng *mrand.Rand, fuseOK bool) {
	h := uint64(1 + rng.Intn(3))
	v := []string{"A", "B", "C"}[rng.Intn(3)]
	fuse := -1
	if fuseOK && rng.Intn(6) == 0 {
		fuse = rng.Intn(3) // the k-th durable write of the call does not happen: all-or-nothing must hold at every one
	} else if fuseOK && rng.Intn(6) == 0 {
		fuse = []int{-2, -11, -12, -13, -14, -15}[rng.Intn(6)] // a refused write / a refused batch operation
	}
	switch rng.Intn(16) {
	case 0, 1, 2, 3:
		s.call("save", h, v, "", "", fuse)
	case 4, 5:
		s.call("getblock", h, "", "", "", -1)
	case 6:
		s.call("getheader", h, "", "", "", -1)
	case 7, 8:
		s.call("getbyhash", h, v, "", "", -1)
	case 9:
		s.call("getsig", h, "", "", "", -1)
	case 10:
		s.call("getsigbyhash", h, v, "", "", -1)
	case 11:
		s.call("setheight", uint64(rng.Intn(5)), "", "", "", fuse)
	case 12:
		s.call("setstate", h, "", "", fmt.Sprintf("root%d", rng.Intn(3)), fuse)
	case 13:
		s.call("setmeta", 0, "", storeMetaKeys[rng.Intn(len(storeMetaKeys))], []string{"", "val0", "val1", "val2", "val3", "\x00", strings.Repeat("v", 300)}[rng.Intn(7)], fuse)
	case 14:
		s.call("getmeta", 0, "", storeMetaKeys[rng.Intn(len(storeMetaKeys))], "", -1)
	case 15:
		s.reopen()
	}
}

func (s *storeRun) readAll() {
	for h := uint64(1); h <= 3; h++ {
		s.call("getblock", h, "", "", "", -1)
		s.call("getsig", h, "", "", "", -1)
		for _, v := range []string{"A", "B", "C"} {
			s.call("getbyhash", h, v, "", "", -1)
		}
	}
	s.call("height", 0, "", "", "", -1)
	s.call("getstate", 0, "", "", "", -1)
	for _, k := range storeMetaKeys {
		s.call("getmeta", 0, "", k, "", -1)
	}
}

// RunStore: random histories on the crash-injecting datastore (crash inside a write, reopen) and on
// real badger in a scratch directory (close / reopen).
func RunStore(c *Ctx) {
	rng := mrand.New(mrand.NewSource(c.Seed + 8))
	runs, length := 150, 40
	if c.Thorough() {
		runs, length = 1200, 120
	}
	for r := 0; r < runs; r++ {
		c.Tr.Reset(fmt.Sprintf("mem/%d", r), world.F{"driver": "store", "ih": 1})
		w := world.NewWorld(c.Tr, 1, world.T0)
		s := &storeRun{c: c, w: w, blocks: map[string]*types.SignedHeader{}, datas: map[string]*types.Data{}, byHash: map[string]string{}}
		s.kv = world.NewCrashKV(c.Tr, "store")
		s.st = store.New(s.kv)
		for i := 0; i < 5+rng.Intn(length); i++ {
			s.randomOp(rng, true)
		}
		s.reopen()
		s.readAll()
		w.Close()
		c.Count("storeruns", 1)
	}
	// a write that is refused with an error (by the datastore, or one operation of its batch) and then simply tried
	// again, for every kind of write: what was acknowledged is what is read, also after reopening
	for _, fault := range []int{-2, -11, -12, -13, -14} {
		for _, reopenAfter := range []bool{false, true} {
			c.Tr.Reset(fmt.Sprintf("retry/f%d/%v", -fault, reopenAfter), world.F{"driver": "store", "ih": 1})
			w := world.NewWorld(c.Tr, 1, world.T0)
			s := &storeRun{c: c, w: w, blocks: map[string]*types.SignedHeader{}, datas: map[string]*types.Data{}, byHash: map[string]string{}}
			s.kv = world.NewCrashKV(c.Tr, "store")
			s.st = store.New(s.kv)
			s.call("save", 1, "A", "", "", -1)
			s.call("setheight", 1, "", "", "", -1)
			s.call("setstate", 1, "", "", "root0", -1)
			s.call("setmeta", 0, "", storeMetaKeys[0], "val0", -1)
			s.readAll()
			f1 := fault
			if fault <= -11 {
				f1 = -2 // single writes have no batch
			}
			s.call("save", 1, "B", "", "", fault)
			s.call("save", 1, "B", "", "", -1)
			s.call("setheight", 2, "", "", "", f1)
			s.call("setheight", 2, "", "", "", -1)
			s.call("setstate", 2, "", "", "root1", f1)
			s.call("setstate", 2, "", "", "root1", -1)
			s.call("setmeta", 0, "", storeMetaKeys[0], "val1", f1)
			s.call("setmeta", 0, "", storeMetaKeys[0], "val1", -1)
			if reopenAfter {
				s.reopen()
			}
			s.readAll()
			w.Close()
			c.Count("storeruns", 1)
		}
	}
	// every write boundary of a block save that replaces another block (and of one that repeats it)
	for _, second := range []string{"B", "A"} {
		for k := 0; k <= 3; k++ {
			for _, reopenAfter := range []bool{false, true} {
				c.Tr.Reset(fmt.Sprintf("overwrite/%s/k%d/%v", second, k, reopenAfter), world.F{"driver": "store", "ih": 1})
				w := world.NewWorld(c.Tr, 1, world.T0)
				s := &storeRun{c: c, w: w, blocks: map[string]*types.SignedHeader{}, datas: map[string]*types.Data{}, byHash: map[string]string{}}
				s.kv = world.NewCrashKV(c.Tr, "store")
				s.st = store.New(s.kv)
				s.call("save", 1, "A", "", "", -1)
				s.call("save", 2, "C", "", "", -1)
				if k%2 == 1 { // the blocks are looked up (by height, by hash) before one of them is replaced
					s.readAll()
				}
				s.call("save", 1, second, "", "", k)
				if reopenAfter {
					s.reopen()
				}
				s.readAll()
				w.Close()
				c.Count("storeruns", 1)
			}
		}
	}
	braw := 6
	if c.Thorough() {
		braw = 30
	}
	for r := 0; r < braw; r++ {
		c.Tr.Reset(fmt.Sprintf("badger/%d", r), world.F{"driver": "store", "ih": 1})
		w := world.NewWorld(c.Tr, 1, world.T0)
		dir, _ := os.MkdirTemp("", "verif-badger-")
		db, err := store.NewDefaultKVStore(dir, "db", "verif")
		if err != nil {
			w.Close()
			continue
		}
		s := &storeRun{c: c, w: w, db: db, dir: dir, blocks: map[string]*types.SignedHeader{}, datas: map[string]*types.Data{}, byHash: map[string]string{}}
		s.st = store.New(db)
		for i := 0; i < 30+rng.Intn(40); i++ {
			s.randomOp(rng, false)
		}
		s.reopen()
		s.readAll()
		s.st.Close()
		os.RemoveAll(dir)
		w.Close()
		c.Count("badgerruns", 1)
	}
}
