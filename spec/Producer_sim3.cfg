SPECIFICATION Spec
CONSTANTS
  IH = 3
  MaxH = 7
  MaxReplies = 6
  MaxCrashes = 2
  TxLists <- MC_TxListsBig
  GuardEmpty = TRUE
  StateFirst = TRUE
  Rec = TRUE
INVARIANTS ChainValid BlocksFromBatches AgreeAtIdle PublishedCommitted Dump
CHECK_DEADLOCK FALSE
