SPECIFICATION Spec
CONSTANTS
  Heights = {1, 2}
  Variants = {"A", "B"}
  MetaKeys = {"d", "l"}
  Values = {"x", "y"}
  AtomicSave = TRUE
  CommitOnError = FALSE
  DropStaleIndex = FALSE
INVARIANTS HashLookupExact SavedRetrievable
PROPERTIES HeightOnlyGrows
CHECK_DEADLOCK FALSE
