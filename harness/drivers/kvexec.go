package drivers

import (
	"errors"
	"sync"
	"context"
	"fmt"
	mrand "math/rand"
	"os"
	"strings"
	"time"

	ds "github.com/ipfs/go-datastore"
	dssync "github.com/ipfs/go-datastore/sync"

	executor "github.com/evstack/ev-node/apps/testapp/kv"
	"github.com/evstack/ev-node/pkg/store"

	"verif/harness/world"
)

type kvInst struct {
	db    ds.Batching
	ex    *executor.KVExecutor
	dir   string
	fault *faultDS // nil on badger
	roots []string // state roots ExecuteTxs has returned so far
}

// RunKVExec drives two independent instances of the real KVExecutor (C15) with the same and with
// different block histories, different finalize timing, mempool injections, re-initialisation,
// re-execution and reopen (a new executor on the same datastore; badger in a scratch directory).
// faultDS is a datastore whose k-th Get (counted from arming) fails once with a transient error.
type faultDS struct {
	ds.Batching
	mu     sync.Mutex
	failAt int // 0 = disarmed
	gets   int
	Fired  bool
}

func (f *faultDS) arm(k int) { f.mu.Lock(); f.failAt, f.gets, f.Fired = k, 0, false; f.mu.Unlock() }
func (f *faultDS) disarm()   { f.mu.Lock(); f.failAt = 0; f.mu.Unlock() }
func (f *faultDS) Get(ctx context.Context, key ds.Key) ([]byte, error) {
	f.mu.Lock()
	if f.failAt > 0 {
		f.gets++
		if f.gets == f.failAt {
			f.failAt = 0
			f.Fired = true
			f.mu.Unlock()
			return nil, errors.New("faultds: transient read failure")
		}
	}
	f.mu.Unlock()
	return f.Batching.Get(ctx, key)
}

func RunKVExec(c *Ctx) {
	rng := mrand.New(mrand.NewSource(c.Seed + 21))
	runs := 120
	if c.Thorough() {
		runs = 1000
	}
	keys := []string{"a", "b", "c", "/a", "a/", "./b", " c "}
	// keys the executor reserves for its own bookkeeping, in canonical and other spellings: a transaction that
	// names one is malformed (the block changes nothing)
	reservedKeys := []string{"/genesis/stateroot", "genesis/stateroot", "//genesis/initialized", "/genesis/initialized/", "finalizedHeight", "/finalizedHeight", "./genesis/stateroot"}
	isReserved := func(norm string) bool {
		return norm == "/genesis/stateroot" || norm == "/genesis/initialized" || norm == "/finalizedHeight"
	}
	for r := 0; r < runs; r++ {
		c.Tr.Reset(fmt.Sprintf("kv/%d", r), world.F{"driver": "kvexec", "ih": 1})
		useBadger := r%10 == 9
		var inst [2]*kvInst
		for i := range inst {
			k := &kvInst{}
			if useBadger {
				k.dir, _ = os.MkdirTemp("", "verif-kv-")
				db, err := store.NewDefaultKVStore(k.dir, "db", "executor")
				if err != nil {
					panic(err)
				}
				k.db = db
			} else {
				k.fault = &faultDS{Batching: dssync.MutexWrap(ds.NewMapDatastore())}
				k.db = k.fault
			}
			k.ex = executor.VerifNewKVExecutor(k.db)
			inst[i] = k
		}
		ctx := context.Background()
		var callAgain []func()
		var call func(i int, op string, txs []string, h int)
		call = func(i int, op string, txs []string, h int) {
			k := inst[i]
			rec := world.F{"inst": i + 1, "op": op, "h": h, "ok": true, "root": "", "txs": []world.F{}, "n": 0, "fault": false}
			if op == "exec-fault" { // the execution meets one transient read failure of its datastore
				op = "exec"
				rec["op"] = op
				if k.fault != nil {
					k.fault.arm(1 + rng.Intn(5))
					defer func() {
						k.fault.disarm()
					}()
				}
			}
			parsed := []world.F{}
			for _, t := range txs {
				var kk, vv string
				bad := true
				for j := 0; j < len(t); j++ {
					if t[j] == '=' {
						kk, vv, bad = t[:j], t[j+1:], j == 0
						break
					}
				}
				kk, vv = strings.TrimSpace(kk), strings.TrimSpace(vv)
				if kk == "" {
					bad = true
				}
				if !bad {
					kk = ds.NewKey(kk).String() // the datastore normalises keys: "a", "/a", "a/" are one key
					if isReserved(kk) {
						bad = true
					}
				}
				parsed = append(parsed, world.F{"k": kk, "v": vv, "bad": bad})
			}
			rec["txs"] = parsed
			func() {
				defer func() {
					if p := recover(); p != nil {
						c.Tr.Emit("Panic", world.F{"node": "kv", "where": op, "msg": fmt.Sprint(p)})
						rec["ok"] = false
					}
				}()
				switch op {
				case "init":
					root, _, err := k.ex.InitChain(ctx, time.Unix(0, 0), 1, world.ChainID)
					rec["ok"], rec["root"] = err == nil, string(root)
				case "exec":
					raw := make([][]byte, len(txs))
					for j := range txs {
						raw[j] = []byte(txs[j])
					}
					// the previous state root the caller passes is its own business: none, the right one, a stale one
					// (a node that replays old blocks), or bytes that never were a root - the result depends on none of them
					var prev []byte
					switch pm := rng.Intn(5); {
					case pm == 1 && len(k.roots) > 0:
						prev = []byte(k.roots[len(k.roots)-1])
					case pm == 2 && len(k.roots) > 0:
						prev = []byte(k.roots[rng.Intn(len(k.roots))])
					case pm == 3:
						prev = []byte("never-a-root")
					case pm == 4 && len(k.roots) > 1:
						prev = []byte(k.roots[0])
					}
					rec["prevmode"] = len(prev)
					root, _, err := k.ex.ExecuteTxs(ctx, raw, uint64(h), time.Unix(int64(h), 0), prev)
					rec["ok"], rec["root"] = err == nil, string(root)
					if err == nil {
						k.roots = append(k.roots, string(root))
					}
				case "final":
					rec["ok"] = k.ex.SetFinal(ctx, uint64(h)) == nil
				case "inject":
					for _, t := range txs {
						k.ex.InjectTx([]byte(t))
					}
				case "gettxs":
					got, err := k.ex.GetTxs(ctx)
					rec["ok"], rec["n"] = err == nil, len(got)
				case "reopen":
					if useBadger {
						if err := k.ex.VerifClose(); err != nil {
							rec["ok"] = false
						}
						db, err := store.NewDefaultKVStore(k.dir, "db", "executor")
						if err != nil {
							rec["ok"] = false
							return
						}
						k.db = db
					}
					k.ex = executor.VerifNewKVExecutor(k.db)
				}
			}()
			if k.fault != nil && k.fault.Fired {
				rec["fault"] = true
				k.fault.Fired = false
			}
			c.Tr.Emit("XCall", rec)
			if rec["fault"] == true && rec["ok"] == false && op == "exec" {
				// the block may or may not have been applied before the read failed: executing it again is harmless
				k.fault.disarm()
				callAgain = append(callAgain, func() { call(i, "exec", txs, h) })
			}
		}
		// a common block history, applied to both instances with independent interleavings of the other calls
		nblocks := 1 + rng.Intn(5)
		var hist [][]string
		for b := 0; b < nblocks; b++ {
			var blk []string
			for j := rng.Intn(4); j > 0; j-- {
				switch rng.Intn(9) {
				case 0:
					blk = append(blk, "malformed-no-equals")
				case 1:
					blk = append(blk, "=novalue")
				case 2:
					if rng.Intn(2) == 0 {
						blk = append(blk, fmt.Sprintf("%s=forged%d", reservedKeys[rng.Intn(len(reservedKeys))], rng.Intn(3)))
					} else {
						blk = append(blk, fmt.Sprintf("%s=%d", keys[rng.Intn(len(keys))], rng.Intn(3)))
					}
				default:
					blk = append(blk, fmt.Sprintf("%s=%d", keys[rng.Intn(len(keys))], rng.Intn(3)))
				}
			}
			hist = append(hist, blk)
		}
		for i := 0; i < 2; i++ {
			if rng.Intn(4) != 0 {
				call(i, "init", nil, 0)
			}
			for b, blk := range hist {
				for j := rng.Intn(3); j > 0; j-- {
					switch rng.Intn(6) {
					case 0:
						call(i, "final", nil, 1+rng.Intn(b+1))
					case 1:
						call(i, "inject", []string{fmt.Sprintf("m=%d", rng.Intn(9))}, 0)
					case 2:
						call(i, "gettxs", nil, 0)
					case 3:
						call(i, "init", nil, 0)
					case 4:
						call(i, "reopen", nil, 0)
					case 5:
						if b > 0 {
							call(i, "exec", hist[b-1], b) // re-execution of the previous block
							call(i, "exec", blk[:0], b+1)
						}
					}
				}
				if rng.Intn(5) == 0 {
					call(i, "exec-fault", blk, b+1)
					for len(callAgain) > 0 {
						f := callAgain[0]
						callAgain = callAgain[1:]
						f()
					}
				} else {
					call(i, "exec", blk, b+1)
				}
			}
			if rng.Intn(2) == 0 {
				call(i, "final", nil, nblocks)
			}
			call(i, "exec", nil, nblocks+1) // an empty block: reports the current root
		}
		for _, k := range inst {
			k.ex.VerifClose()
			if k.dir != "" {
				os.RemoveAll(k.dir)
			}
		}
		c.Count("kvruns", 1)
	}
}
