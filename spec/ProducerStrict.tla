---------------------------- MODULE ProducerStrict ----------------------------
(***************************************************************************)
(* Step-level trace validation of the tier-I module Producer against the   *)
(* real block.Manager.  Every record of a trace recorded from the real     *)
(* code is consumed by exactly one step; that step is an ACTION OF         *)
(* Producer.tla with its parameters bound to the logged fields (two        *)
(* deterministic actions leave no record and are taken silently), and the  *)
(* projection of the real durable image (Obs) is compared with the model   *)
(* state after every step and restart.                                     *)
(*                                                                         *)
(* Where the next record cannot be explained by any action, the run has    *)
(* DRIFTED from the model: the position, the record and the model's        *)
(* control point are appended to `drift`, the rest of the run is skipped   *)
(* and validation continues at the next Reset.  Drift is a statement about *)
(* the model (it no longer describes the code), not a property violation:  *)
(* verdicts come from the monitors.                                        *)
(*                                                                         *)
(* Binding of records to actions (block/manager.go, block/publish_block):  *)
(*   ExecInit / KV block at "down"      RestartLoad (fresh store)          *)
(*   KV height at "starting"            RestartHeight                      *)
(*   Restart                            the remaining restart actions      *)
(*   StepEnter                          Begin                              *)
(*   SeqNext nil|err                    FetchNone                          *)
(*   SeqNext batch|empty                FetchBatchAt (reply bound)         *)
(*   KV meta (batch cursor)             TsGuard                            *)
(*   KV block fin=false                 CreateAndEarlySave                 *)
(*   ExecTxs                            Execute (then SignValidate, silent)*)
(*   KV block fin=true                  FinalSave                          *)
(*   KV state / KV height               SetState / SetHeight               *)
(*   Bcast hdr                          Broadcast                          *)
(*   StepRet err, Halt                  Halt                               *)
(*   Crash                              Crash (Stop when killed at rest)   *)
(***************************************************************************)
EXTENDS Producer, TraceLib

VARIABLES l, run, drifted, hm, drift

svars == <<vars, l, run, drifted, hm, drift>>
xvars == <<l, run, drifted, hm, drift>>

e == Trace[l]
Is(name) == l <= N /\ ~drifted /\ e.ev = name /\ (("node" \in DOMAIN e) => e.node = "seq")
Adv == l' = l + 1 /\ UNCHANGED <<run, drifted, drift>>
Same == UNCHANGED vars

\* the real header hash must be a function of exactly the fields the model's hash commits to
Bound(t, s) == \A p \in hm : (p[1] = t) <=> (p[2] = s)
Bind(t, s) == hm' = hm \cup {<<t, s>>}

\* a non-nil reply with the logged transactions and timestamp (Producer!FetchBatch with the
\* relative timestamp replaced by the absolute one)
FetchBatchAt(kind, txs, ts) ==
    /\ pc = "fetch"
    /\ (kind = "empty") <=> (txs = <<>>)
    /\ replies' = replies + 1
    /\ batch' = [kind |-> kind, txs |-> txs, ts |-> ts]
    /\ taken' = Append(taken, [kind |-> kind, txs |-> txs, ts |-> ts])
    /\ wc' = wc + 1
    /\ pc' = "guard"
    /\ UNCHANGED <<kv, mem, cur, crashes, published, execLog, hist>>

SInit ==
    /\ Init
    /\ l = 1 /\ run = "" /\ drifted = FALSE /\ hm = {} /\ drift = <<>>

SReset ==
    /\ l <= N /\ e.ev = "Reset"
    /\ l' = l + 1 /\ run' = e.run /\ drifted' = (e.ih # IH) /\ hm' = {} /\ drift' = drift
    /\ kv' = [height |-> 0, state |-> NoState, blocks |-> <<>>]
    /\ mem' = NoState /\ pc' = "down" /\ cur' = NoBlock /\ batch' = NoBatch
    /\ replies' = 0 /\ crashes' = 0 /\ published' = {} /\ execLog' = {} /\ taken' = <<>> /\ wc' = 0
    /\ hist' = hist

\* ---------------------------------------------------------------- restart
SExecInit == Is("ExecInit") /\ pc = "down" /\ Adv /\ Same /\ UNCHANGED hm

SRestartDone ==
    /\ Is("Restart") /\ e.ok /\ Adv /\ UNCHANGED hm
    /\ \/ pc = "idle" /\ Same
       \/ pc = "starting" /\ mem.h <= kv.height /\ RestartHeight

\* ---------------------------------------------------------------- durable writes
SKV ==
    /\ Is("KV") /\ Adv
    /\ \/ /\ e.kind = "block" /\ pc = "down" /\ ~kv.state.stored
          /\ e.fin /\ e.h = IH /\ e.ntx = 0
          /\ RestartLoad
          /\ Bound(HashOf(GenesisBlock), e.hash) /\ Bind(HashOf(GenesisBlock), e.hash)
       \/ /\ e.kind = "height" /\ pc = "starting" /\ mem.h > kv.height /\ e.h = mem.h
          /\ RestartHeight /\ UNCHANGED hm
       \/ /\ e.kind = "meta" /\ pc = "guard"
          /\ TsGuard /\ UNCHANGED hm
       \/ /\ e.kind = "block" /\ pc = "create" /\ ~e.fin
          /\ e.h = kv.height + 1 /\ e.ntx = Len(batch.txs)
          /\ CreateAndEarlySave
          /\ Bound(HashOf(cur'), e.hash) /\ Bind(HashOf(cur'), e.hash)
       \/ /\ e.kind = "block" /\ pc = "validated" /\ e.fin
          /\ e.h = cur.h /\ e.ntx = Len(cur.txs)
          /\ FinalSave
          /\ Bound(HashOf(cur), e.hash) /\ Bind(HashOf(cur), e.hash)
       \/ /\ e.kind = "state" /\ e.h = cur.h /\ pc \in {"saved", "heightSet"}
          /\ SetState /\ UNCHANGED hm
       \/ /\ e.kind = "height" /\ e.h = cur.h /\ pc \in {"saved", "stateSet"}
          /\ SetHeight /\ UNCHANGED hm

\* ---------------------------------------------------------------- one production step
SBegin == Is("StepEnter") /\ Adv /\ Begin /\ UNCHANGED hm

SSeqNext ==
    /\ Is("SeqNext") /\ Adv /\ UNCHANGED hm
    /\ IF e.kind \in {"nil", "err"} THEN FetchNone(e.kind) ELSE FetchBatchAt(e.kind, e.txs, e.ts)

SExec ==
    /\ Is("ExecTxs") /\ Adv /\ UNCHANGED hm
    /\ pc = "haveBlock"
    /\ e.h = cur.h /\ e.txs = cur.txs
    /\ IF e.ok THEN e.prev = mem.root /\ Execute(TRUE)
               ELSE Execute(FALSE)

SBcast ==
    /\ Is("Bcast") /\ Adv /\ UNCHANGED hm
    /\ e.h = cur.h
    \* header and data are handed to their broadcasters concurrently: either order
    /\ IF e.kind = "hdr" THEN pc = "committed" /\ Bound(HashOf(cur), e.hash) /\ Broadcast
                         ELSE pc \in {"committed", "idle"} /\ Same

SStepRet ==
    /\ Is("StepRet") /\ Adv /\ UNCHANGED hm /\ Same
    /\ IF e.ok THEN pc = "idle" ELSE pc = "halted"

SHalt == Is("Halt") /\ Adv /\ UNCHANGED hm /\ Halt

SCrash ==
    /\ Is("Crash") /\ Adv /\ UNCHANGED hm
    /\ pc # "executed"
    /\ IF pc = "down" THEN Same ELSE IF pc = "idle" THEN Stop ELSE Crash

\* ---------------------------------------------------------------- silent actions
\* Actions of Producer.tla that leave no record.  They are deterministic and are taken exactly
\* where no record can be consumed: the validation that follows a successful execution, and the
\* loading of a stored state at start-up (taken when the next record is the start-up's height
\* write or its completion).
SSilent ==
    /\ l <= N /\ ~drifted /\ UNCHANGED xvars
    /\ \/ pc = "executed" /\ SignValidate
       \/ /\ pc = "down" /\ kv.state.stored
          /\ (e.ev = "Restart" /\ e.ok) \/ (e.ev = "KV" /\ e.kind = "height")
          /\ e.node = "seq"
          /\ RestartLoad

\* ---------------------------------------------------------------- projection of the real image
ObsOK(o) ==
    /\ o.height = kv.height
    /\ o.stOk = kv.state.stored
    /\ o.stOk => (o.stH = kv.state.h /\ o.stRoot = kv.state.root /\ o.stT = kv.state.t)
    /\ o.up = (pc = "idle")
    /\ pc \in {"idle", "down"}
    /\ o.up => o.memH = mem.h
    /\ {o.blocks[i].h : i \in 1 .. Len(o.blocks)} = DOMAIN kv.blocks
    /\ \A i \in 1 .. Len(o.blocks) :
          LET b == o.blocks[i]
              m == kv.blocks[b.h]
          IN /\ b.txs = m.txs /\ b.t = m.t /\ b.app = m.app
             /\ (b.sig = "P") = (m.sig = "P") /\ (b.ssig = "P") = (m.ssig = "P")
             /\ (b.meta = "ok") = m.meta
             /\ Bound(HashOf(m), b.hash)
             /\ b.prev = "" <=> m.prev = <<>>

SObs == Is("Obs") /\ Adv /\ UNCHANGED hm /\ Same /\ ObsOK(e)

Silent == {"Settle", "Quiesce", "CacheTear", "Drift"}
SOther == l <= N /\ ~drifted /\ e.ev \in Silent /\ Adv /\ UNCHANGED hm /\ Same

Strict == SExecInit \/ SRestartDone \/ SKV \/ SBegin \/ SSeqNext \/ SExec \/ SBcast \/ SStepRet
          \/ SHalt \/ SCrash \/ SObs \/ SOther \/ SSilent

\* ---------------------------------------------------------------- drift
SDrift ==
    /\ l <= N /\ ~drifted /\ e.ev # "Reset"
    /\ ~ENABLED Strict
    /\ drifted' = TRUE /\ l' = l + 1 /\ run' = run /\ hm' = hm
    /\ drift' = Append(drift, [l |-> l, run |-> run, ev |-> e.ev, pc |-> pc, height |-> kv.height])
    /\ Same

SSkip ==
    /\ l <= N /\ drifted /\ e.ev # "Reset"
    /\ l' = l + 1 /\ UNCHANGED <<run, drifted, hm, drift>> /\ Same

SNext == SReset \/ Strict \/ SDrift \/ SSkip

SSpec == SInit /\ [][SNext]_svars

Finish == (l = N + 1) => ndJsonSerialize("drift.ndjson", drift)
Consumed == TLCGet("stats").diameter >= N + 1
==============================================================================
