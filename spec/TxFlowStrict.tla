---------------------------- MODULE TxFlowStrict ----------------------------
(***************************************************************************)
(* Step-level trace validation of the tier-I module TxFlow against the     *)
(* real Reaper, the real single sequencer and the real block producer on   *)
(* one crash-injecting datastore.  Every record is consumed by one step;   *)
(* the steps that change the model state are actions of TxFlow.tla.        *)
(*                                                                         *)
(*   Inject txs                      Inject(t) for every t (commuting)     *)
(*   ExecGetTxs txs                  the mempool the reaper sees = model   *)
(*   KV queue put ; SeqSubmit ok     ReapHandOff (accepted), batch bound   *)
(*   SeqSubmit not ok                ReapHandOff (refused: queue full)     *)
(*   KV seen put                     MarkSeen(t), t the least unmarked one *)
(*                                   (the record does not say which; the   *)
(*                                   order is immaterial)                  *)
(*   ReapEnd                         the reaper is at rest                 *)
(*   StepEnter                       UsePending when a block was saved     *)
(*                                   early and never committed             *)
(*   KV queue del ; SeqNext batch    Take (PopBeforeSave: removed at once) *)
(*   KV block fin=false, ntx > 0     EarlySave                             *)
(*   KV state (of that block)        Commit                                *)
(*   Crash                           Crash                                 *)
(*   KVFail                          ReaperFail / ProducerFail / nothing   *)
(*   blocks without transactions, state / metadata writes, broadcasts,     *)
(*   restarts: no model step                                               *)
(***************************************************************************)
EXTENDS TxFlow, TraceLib

VARIABLES l, run, drifted, drift,
          taken,    \* the queue record of the batch in production was deleted (between KV queue del and SeqNext)
          execList, \* the transaction list of the block being executed, as the execution layer got it (with repetitions)
          rput,     \* the write-ahead record of the hand-off in progress was refused
          marking   \* the transactions of the handed-off batch whose seen-markers are still to come, in the batch's order
                    \* (the real batch is a list and may hold the same bytes twice; the model's batches are sets)
xvars == <<l, run, drifted, drift, taken, marking, rput, execList>>
svars == <<vars, xvars>>

e == Trace[l]
Is(name) == l <= N /\ ~drifted /\ e.ev = name
Adv == l' = l + 1 /\ UNCHANGED <<run, drifted, drift>>
Same == UNCHANGED vars
SetOf(s) == {s[i] : i \in 1 .. Len(s)}
RECURSIVE BagAddSeq(_, _)
BagAddSeq(b, s) == IF s = <<>> THEN b ELSE BagAddSeq(BagAdd(b, Head(s)), Tail(s))
BoundOf(b) == IF b = 0 THEN 1000000 ELSE b
AllowedRun(r) == TRUE

SInit == Init /\ l = 1 /\ run = "" /\ drifted = FALSE /\ drift = <<>> /\ taken = FALSE /\ marking = <<>> /\ rput = FALSE /\ execList = <<>>

SReset ==
    /\ l <= N /\ e.ev = "Reset"
    /\ l' = l + 1 /\ run' = e.run /\ drift' = drift /\ taken' = FALSE /\ marking' = <<>> /\ rput' = FALSE /\ execList' = <<>>
    /\ drifted' = ~(BoundOf(e.bound) = Bound /\ AllowedRun(e))
    /\ mempool' = <<>> /\ seen' = {} /\ queue' = <<>> /\ pcR' = "idle" /\ cand' = {} /\ pcP' = "idle" /\ cur' = {}
    /\ pend' = {} /\ chain' = <<>> /\ injected' = {} /\ crashes' = 0 /\ excused' = {}

\* ---- mempool ----
SInject ==
    /\ Is("Inject") /\ Adv /\ UNCHANGED <<taken, marking, rput, execList>>
    /\ injected' = injected \cup SetOf(e.txs) /\ mempool' = BagAddSeq(mempool, e.txs)      \* Inject(t) for every t of the record
    /\ UNCHANGED <<seen, queue, pcR, cand, pcP, cur, pend, chain, crashes, excused>>
\* (the real mempool is a list and may hold the same bytes twice; the reaper acts on what is not yet marked seen)
SGetTxs == Is("ExecGetTxs") /\ Adv /\ Same /\ UNCHANGED <<taken, marking, rput, execList>> /\ SetOf(e.txs) \ seen = MpSet \ seen

\* ---- reaper ----
SQueuePut ==
    /\ Is("KV") /\ e.kind = "queue" /\ e.op = "put" /\ Adv /\ UNCHANGED <<taken, marking, rput, execList>>
    /\ Len(queue) < Bound /\ ReapHandOff
SSubmit ==
    /\ Is("SeqSubmit") /\ Adv /\ UNCHANGED <<taken, execList>> /\ rput' = FALSE
    /\ IF e.ok THEN pcR = "handed" /\ SetOf(e.txs) = cand /\ Same /\ marking' = e.txs
             ELSE IF rput THEN pcR = "idle" /\ Same /\ marking' = marking        \* the hand-off failed on the refused record
             ELSE Len(queue) >= Bound /\ SetOf(e.txs) = MpSet \ seen /\ ReapHandOff /\ marking' = marking
\* refused writes
SKVFail ==
    /\ Is("KVFail") /\ Adv /\ UNCHANGED <<taken, execList>>
    /\ CASE e.kind = "queue" /\ e.op = "put" -> pcR = "idle" /\ rput' = TRUE /\ marking' = marking /\ Same
         [] e.kind = "seen" -> /\ rput' = rput /\ marking # <<>> /\ marking' = Tail(marking)
                               /\ IF Head(marking) \in cand THEN ReaperFail(Head(marking)) ELSE Same
         [] e.kind = "queue" /\ e.op = "del" -> pcP = "idle" /\ UNCHANGED <<rput, marking>> /\ Same
         [] e.kind \in {"block", "state", "height"} -> UNCHANGED <<rput, marking>> /\ (IF pcP \in {"took", "saved"} THEN ProducerFail ELSE Same)
         [] OTHER -> UNCHANGED <<rput, marking>> /\ Same       \* bookkeeping writes whose failure is only logged
SSeen ==
    /\ Is("KV") /\ e.kind = "seen" /\ Adv /\ UNCHANGED <<taken, rput, execList>>
    /\ marking # <<>> /\ marking' = Tail(marking)
    /\ IF Head(marking) \in cand THEN MarkSeen(Head(marking)) ELSE Same
SReapEnd == Is("ReapEnd") /\ Adv /\ Same /\ UNCHANGED <<taken, marking, rput, execList>> /\ pcR = "idle" /\ marking = <<>>

\* ---- producer ----
SStepEnter ==
    /\ Is("StepEnter") /\ Adv /\ UNCHANGED <<taken, marking, rput, execList>>
    /\ pcP = "idle"
    /\ IF pend # {} THEN UsePending ELSE Same
SQueueDel ==
    /\ Is("KV") /\ e.kind = "queue" /\ e.op = "del" /\ Adv
    /\ pcP = "idle" /\ pend = {} /\ ~taken /\ taken' = TRUE /\ marking' = marking /\ rput' = rput /\ execList' = execList /\ Take
SSeqNext ==
    /\ Is("SeqNext") /\ Adv /\ Same /\ taken' = FALSE /\ marking' = marking /\ rput' = rput /\ execList' = execList
    /\ IF e.kind = "batch" THEN taken /\ pcP = "took" /\ SetOf(e.txs) = cur ELSE ~taken /\ pcP = "idle"
SBlock ==
    /\ Is("KV") /\ e.kind = "block" /\ Adv /\ UNCHANGED <<taken, marking, rput, execList>>
    /\ CASE ~e.fin /\ e.ntx > 0 /\ pcP = "took" -> Cardinality(cur) <= e.ntx /\ EarlySave
         [] OTHER -> Same /\ (e.ntx > 0 => pcP = "saved" /\ Cardinality(cur) <= e.ntx)
SExec == /\ Is("ExecTxs") /\ Adv /\ Same /\ UNCHANGED <<taken, marking, rput>> /\ (e.ok /\ e.txs # <<>> => pcP = "saved" /\ SetOf(e.txs) = cur)
         /\ execList' = IF e.ok THEN e.txs ELSE execList
\* the block counts as committed once the state that includes it is written: a node that dies after that write raises
\* its chain height to the state's height when it starts again (and one that dies before it finds the block pending)
SState ==
    /\ Is("KV") /\ e.kind = "state" /\ Adv /\ UNCHANGED <<taken, marking, rput, execList>>
    /\ IF pcP = "saved" THEN CommitN([t \in cur |-> LET c == Cardinality({i \in 1 .. Len(execList) : execList[i] = t}) IN IF c > 0 THEN c ELSE 1])
                        ELSE Same
SKVOther == Is("KV") /\ e.kind \notin {"queue", "seen", "block", "state"} /\ Adv /\ Same /\ UNCHANGED <<taken, marking, rput, execList>>

SCrash == Is("Crash") /\ Adv /\ taken' = FALSE /\ marking' = <<>> /\ rput' = FALSE /\ execList' = <<>> /\ Crash
\* a step that ends with an error (scripted execution failure): the node goes down with the block saved early
SHalt == Is("Halt") /\ Adv /\ UNCHANGED <<taken, marking, rput, execList>>
         /\ pcR' = "idle" /\ cand' = {} /\ pcP' = "idle" /\ cur' = {}
         /\ UNCHANGED <<mempool, seen, queue, pend, chain, injected, crashes, excused>>

Consumed0 == {"Reset", "KVFail", "Inject", "ExecGetTxs", "KV", "SeqSubmit", "ReapEnd", "StepEnter", "SeqNext", "ExecTxs", "Crash", "Halt"}
SOther == l <= N /\ ~drifted /\ e.ev \notin Consumed0 /\ Adv /\ Same /\ UNCHANGED <<taken, marking, rput, execList>>

Strict == SKVFail \/ SInject \/ SGetTxs \/ SQueuePut \/ SSubmit \/ SSeen \/ SReapEnd \/ SStepEnter \/ SQueueDel \/ SSeqNext
          \/ SBlock \/ SExec \/ SState \/ SKVOther \/ SCrash \/ SHalt \/ SOther

SDrift ==
    /\ l <= N /\ ~drifted /\ e.ev # "Reset" /\ ~ENABLED Strict
    /\ drifted' = TRUE /\ l' = l + 1 /\ run' = run /\ taken' = taken /\ marking' = marking /\ rput' = rput /\ execList' = execList
    /\ drift' = Append(drift, [l |-> l, run |-> run, ev |-> e.ev, pc |-> pcR \o "/" \o pcP, height |-> Len(chain)])
    /\ Same
SSkip == l <= N /\ drifted /\ e.ev # "Reset" /\ l' = l + 1 /\ UNCHANGED <<run, drifted, drift, taken, marking, rput, execList>> /\ Same

SNext == SReset \/ Strict \/ SDrift \/ SSkip
SSpec == SInit /\ [][SNext]_svars
Finish == (l = N + 1) => ndJsonSerialize("drift.ndjson", drift)
Consumed == TLCGet("stats").diameter >= N + 1
==============================================================================
