SPECIFICATION Spec
CONSTANTS
  IH = 1
  MaxH = 3
  MaxReplies = 3
  MaxCrashes = 2
  TxLists <- MC_TxLists
  GuardEmpty = TRUE
  StateFirst = TRUE
  Rec = FALSE
INVARIANTS ChainValid BlocksFromBatches AgreeAtIdle PublishedCommitted ExecInOrder CanRestart
PROPERTIES NoRewrite HeightMonotone
VIEW View
CHECK_DEADLOCK FALSE
