SPECIFICATION LiveSpec
CONSTANTS
  Start = 1
  Last = 6
  MaxFails = 4
  Retries = 3
  Content <- MC_ContentBig
  AdvanceOnGiveUp = FALSE
  FutureAsEmpty = FALSE
INVARIANTS NoSkip AllGenuineEmitted NeverAheadOfDA
PROPERTIES RetrySame CursorStepsByOne AdvanceOnlyAfterOk EventuallyAll
CHECK_DEADLOCK FALSE
