---------------------------- MODULE KeyFile ----------------------------
(***************************************************************************)
(* Tier I reference for the proposer key file (pkg/signer/file/local.go):  *)
(* a file holds cipher = Seal(priv, KDF(pass, salt)), nonce, salt (absent  *)
(* in the legacy format) and the public key in clear text.  The model      *)
(* enumerates what can happen to a file (one field altered, truncated or   *)
(* replaced by the field of another valid file; the file truncated) and    *)
(* which passphrase is offered, and states when Load may yield a signer.   *)
(***************************************************************************)
EXTENDS Integers, FiniteSets, TLC
Fields == {"cipher", "nonce", "salt", "pub"}
Muts == {"none", "flip", "truncate", "swap", "filecut"}
Passes == {"right", "wrong", "empty"}
\* Load may succeed only for the right passphrase on a file whose sealed part is untouched and whose
\* clear-text public key is still the private key's own
MayLoad(mut, field, pass) == pass = "right" /\ mut = "none"
MustLoad(mut, field, pass) == pass = "right" /\ mut = "none"
VARIABLES case
Init == case = [mut |-> "none", field |-> "", pass |-> "right"]
Next == \E m \in Muts, f \in Fields \cup {"", "legacy"}, p \in Passes : case' = [mut |-> m, field |-> f, pass |-> p]
Spec == Init /\ [][Next]_case
\* sanity: the two obligations are consistent
Consistent == MustLoad(case.mut, case.field, case.pass) => MayLoad(case.mut, case.field, case.pass)
=========================================================================
