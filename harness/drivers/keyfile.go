package drivers

import (
	"bytes"
	"runtime"
	"crypto/aes"
	"crypto/cipher"
	"crypto/rand"
	"encoding/json"
	"fmt"
	mrand "math/rand"
	"os"
	"path/filepath"

	"github.com/libp2p/go-libp2p/core/crypto"

	filesigner "github.com/evstack/ev-node/pkg/signer/file"
	"github.com/evstack/ev-node/pkg/signer/noop"
	"github.com/evstack/ev-node/types"

	"verif/harness/world"
)

type keyFileJSON struct {
	PrivKeyEncrypted []byte `json:"priv_key_encrypted"`
	Nonce            []byte `json:"nonce"`
	PubKeyBytes      []byte `json:"pub_key"`
	Salt             []byte `json:"salt,omitempty"`
}

func legacyKey(pass []byte) []byte {
	if len(pass) >= 32 {
		return append([]byte(nil), pass[:32]...)
	}
	key := make([]byte, 32)
	copy(key, pass)
	for i := len(pass); i < 32; i++ {
		key[i] = pass[i%len(pass)] ^ byte(i)
	}
	return key
}

// RunKeyFile (C19): key files created by the real code, mutated field by field (flip, truncate, swap
// with the field of another valid key file), truncated files, legacy salt-less files built by the
// harness, loaded with the right / a wrong / the empty passphrase; export followed by import.
func RunKeyFile(c *Ctx) error {
	rng := mrand.New(mrand.NewSource(c.Seed + 404))
	dir, err := os.MkdirTemp("", "verif-key-")
	if err != nil {
		return err
	}
	defer os.RemoveAll(dir)
	c.Tr.Reset("keyfile", world.F{"driver": "keyfile", "ih": 1})
	msg := []byte("message to sign")
	load := func(path string, mut, field, passKind string, pass []byte, origPub crypto.PubKey) {
		rec := world.F{"mut": mut, "field": field, "pass": passKind, "res": "err", "match": false, "same": false, "addrok": false}
		func() {
			defer func() {
				if p := recover(); p != nil {
					rec["res"] = "panic"
					c.Tr.Emit("Panic", world.F{"node": "key", "where": "load/" + mut + "/" + field, "msg": trunc(fmt.Sprint(p))})
				}
			}()
			s, err := filesigner.LoadFileSystemSigner(filepath.Dir(path), append([]byte(nil), pass...))
			if err != nil {
				return
			}
			rec["res"] = "ok"
			pub, e1 := s.GetPublic()
			sig, e2 := s.Sign(msg)
			addr, e3 := s.GetAddress()
			if e1 == nil && e2 == nil && pub != nil {
				ok, _ := pub.Verify(msg, sig)
				rec["match"] = ok
				rec["same"] = pub.Equals(origPub)
				rec["addrok"] = e3 == nil && string(addr) == string(types.KeyAddress(pub))
			}
		}()
		c.Tr.Emit("KLoad", rec)
	}
	passes := [][]byte{[]byte("correct horse"), []byte("x"), []byte("a passphrase that is quite a bit longer than thirty-two bytes, to be sure"), make([]byte, 32)}
	copy(passes[3], "exactly-32-bytes-passphrase-....")
	nfiles := 2
	if c.Thorough() {
		nfiles = 4
	}
	for fi := 0; fi < nfiles; fi++ {
		pass := passes[fi%len(passes)]
		d := filepath.Join(dir, fmt.Sprintf("k%d", fi))
		s0, err := filesigner.CreateFileSystemSigner(d, append([]byte(nil), pass...))
		if err != nil {
			return err
		}
		path := filepath.Join(d, "signer.json")
		orig, err := os.ReadFile(path)
		if err != nil {
			return err
		}
		origPub, _ := s0.GetPublic()
		// another valid key file, for swaps
		d2 := filepath.Join(dir, fmt.Sprintf("o%d", fi))
		if _, err := filesigner.CreateFileSystemSigner(d2, append([]byte(nil), pass...)); err != nil {
			return err
		}
		other, _ := os.ReadFile(filepath.Join(d2, "signer.json"))
		var kd, od keyFileJSON
		json.Unmarshal(orig, &kd)
		json.Unmarshal(other, &od)
		write := func(k keyFileJSON) {
			bz, _ := json.Marshal(k)
			os.WriteFile(path, bz, 0o600)
		}
		// intact file, all passphrases
		os.WriteFile(path, orig, 0o600)
		load(path, "none", "", "right", pass, origPub)
		// the same file on a machine with another number of CPUs (the key derivation must not depend on it)
		{
			prev := runtime.GOMAXPROCS(0)
			for _, procs := range []int{1, 2, 3, 8} {
				runtime.GOMAXPROCS(procs)
				load(path, "none", "", "right", pass, origPub)
			}
			runtime.GOMAXPROCS(1)
			dp := filepath.Join(dir, fmt.Sprintf("p%d", fi))
			sp, errp := filesigner.CreateFileSystemSigner(dp, append([]byte(nil), pass...))
			runtime.GOMAXPROCS(prev)
			if errp == nil {
				pp, _ := sp.GetPublic()
				load(filepath.Join(dp, "signer.json"), "none", "", "right", pass, pp)
			}
		}
		load(path, "none", "", "wrong", []byte("not the passphrase"), origPub)
		load(path, "none", "", "empty", []byte{}, origPub)
		// export / import round trip
		func() {
			defer func() {
				if p := recover(); p != nil {
					c.Tr.Emit("Panic", world.F{"node": "key", "where": "export", "msg": trunc(fmt.Sprint(p))})
				}
			}()
			raw, err := filesigner.ExportPrivateKey(d, append([]byte(nil), pass...))
			d3 := filepath.Join(dir, fmt.Sprintf("imp%d", fi))
			ok := err == nil
			if ok {
				ok = filesigner.ImportPrivateKey(d3, raw, []byte("new passphrase")) == nil
			}
			same := false
			if ok {
				s3, e := filesigner.LoadFileSystemSigner(d3, []byte("new passphrase"))
				if e == nil {
					p3, _ := s3.GetPublic()
					same = p3.Equals(origPub)
				}
			}
			c.Tr.Emit("KExport", world.F{"ok": ok, "same": same, "where": "fresh-dir"})
		}()
		// the same key handed to import in the long (seed + public key + public key) form that the key library also
		// accepts: the file must load with its passphrase to the same key, and its export must import again
		func() {
			defer func() {
				if p := recover(); p != nil {
					c.Tr.Emit("Panic", world.F{"node": "key", "where": "import-long-form", "msg": trunc(fmt.Sprint(p))})
				}
			}()
			raw, err := filesigner.ExportPrivateKey(d, append([]byte(nil), pass...))
			if err != nil || len(raw) != 64 {
				return
			}
			long := append(append([]byte(nil), raw...), raw[32:]...)
			if _, e := crypto.UnmarshalEd25519PrivateKey(append([]byte(nil), long...)); e != nil {
				return // the library does not take this form: nothing to check
			}
			d4 := filepath.Join(dir, fmt.Sprintf("long%d", fi))
			ok := filesigner.ImportPrivateKey(d4, long, []byte("long form passphrase")) == nil
			same := false
			if ok {
				if s4, e := filesigner.LoadFileSystemSigner(d4, []byte("long form passphrase")); e == nil {
					p4, _ := s4.GetPublic()
					same = p4.Equals(origPub)
				}
			}
			c.Tr.Emit("KExport", world.F{"ok": ok, "same": same, "where": "long-form"})
			if ok && same {
				importOver(c, d4, filepath.Join(dir, fmt.Sprintf("long%d-again", fi)), []byte("long form passphrase"), origPub, "long-form-again")
			}
		}()
		// export, then import over what already sits at the destination
		importOver(c, d, d, pass, origPub, "in-place")
		os.WriteFile(path, orig, 0o600)
		// (what sits at the destination may be shorter or LONGER than what is written: the same key file re-indented,
		// a long comment-like tail, a key stored in the long form)
		longJunk := append([]byte(`{"priv_key_encrypted":"`), bytes.Repeat([]byte("QUFB"), 2000)...)
		longJunk = append(longJunk, []byte(`","nonce":"AAAA","pub_key":"AAAA"}`)...)
		reindented := append(append([]byte(nil), orig...), bytes.Repeat([]byte(" \n"), 300)...)
		for ci, junk := range [][]byte{[]byte("{"), []byte("{}"), []byte(`{"priv_key_encrypted":"AAAA","nonce":"AAAA","pub_key":"AAAA"}`), {}, longJunk, reindented} {
			dj := filepath.Join(dir, fmt.Sprintf("junk%d-%d", fi, ci))
			os.MkdirAll(dj, 0o700)
			os.WriteFile(filepath.Join(dj, "signer.json"), junk, 0o600)
			importOver(c, d, dj, pass, origPub, fmt.Sprintf("over-junk%d", ci))
		}
		os.WriteFile(path, orig, 0o600)
		// field mutations
		fields := map[string]*[]byte{"cipher": &kd.PrivKeyEncrypted, "nonce": &kd.Nonce, "salt": &kd.Salt, "pub": &kd.PubKeyBytes}
		ofields := map[string][]byte{"cipher": od.PrivKeyEncrypted, "nonce": od.Nonce, "salt": od.Salt, "pub": od.PubKeyBytes}
		for _, fname := range []string{"cipher", "nonce", "salt", "pub"} {
			fp := fields[fname]
			saved := append([]byte(nil), (*fp)...)
			positions := []int{0, len(saved) / 2, len(saved) - 1}
			if c.Thorough() {
				positions = nil
				for i := range saved {
					positions = append(positions, i)
				}
			} else {
				positions = append(positions, rng.Intn(len(saved)), rng.Intn(len(saved)))
			}
			for _, pos := range positions {
				*fp = append([]byte(nil), saved...)
				(*fp)[pos] ^= 1 << uint(rng.Intn(8))
				write(kd)
				load(path, "flip", fname, "right", pass, origPub)
			}
			for _, cut := range []int{0, 1, len(saved) / 2, len(saved) - 1} {
				*fp = append([]byte(nil), saved[:cut]...)
				write(kd)
				load(path, "truncate", fname, "right", pass, origPub)
				if fname == "salt" && cut == 0 {
					load(path, "truncate", fname, "empty", []byte{}, origPub)
				}
			}
			*fp = append([]byte(nil), ofields[fname]...)
			write(kd)
			load(path, "swap", fname, "right", pass, origPub)
			*fp = saved
		}
		// truncated file
		for _, cut := range []int{0, 1, len(orig) / 3, len(orig) / 2, len(orig) - 2, len(orig) - 1} {
			os.WriteFile(path, orig[:cut], 0o600)
			load(path, "filecut", "", "right", pass, origPub)
		}
		os.WriteFile(path, orig, 0o600)
	}
	// passphrases are byte strings: leading / trailing white space is part of them, on every entry point alike
	for wi, wp := range []string{" leading", "trailing\n", "\tboth \r\n", "in ner", "\n"} {
		pass := []byte(wp)
		d := filepath.Join(dir, fmt.Sprintf("ws%d", wi))
		s0, err := filesigner.CreateFileSystemSigner(d, append([]byte(nil), pass...))
		if err != nil {
			c.Tr.Emit("KExport", world.F{"ok": false, "same": false, "where": "create-ws"})
			continue
		}
		pub, _ := s0.GetPublic()
		path := filepath.Join(d, "signer.json")
		load(path, "none", "", "right", pass, pub)
		if trimmed := bytes.TrimSpace(pass); len(trimmed) != len(pass) {
			load(path, "none", "", "wrong", trimmed, pub) // another passphrase
		}
		load(path, "none", "", "wrong", append([]byte(" "), pass...), pub)
		// exported with the passphrase it was created under; imported and loaded under a white-space passphrase
		importOverWith(c, d, filepath.Join(dir, fmt.Sprintf("wsimp%d", wi)), pass, pass, pub, "ws-passphrase")
	}
	// legacy (salt-less) files, built with the old key derivation, for several passphrase lengths
	for li, pass := range passes {
		priv, pub, _ := crypto.GenerateEd25519Key(rand.Reader)
		privBytes, _ := priv.Raw()
		pubBytes, _ := pub.Raw()
		blk, _ := aes.NewCipher(legacyKey(pass))
		gcm, _ := cipher.NewGCM(blk)
		nonce := make([]byte, gcm.NonceSize())
		rand.Read(nonce)
		kd := keyFileJSON{PrivKeyEncrypted: gcm.Seal(nil, nonce, privBytes, nil), Nonce: nonce, PubKeyBytes: pubBytes}
		d := filepath.Join(dir, fmt.Sprintf("legacy%d", li))
		os.MkdirAll(d, 0o700)
		bz, _ := json.Marshal(kd)
		path := filepath.Join(d, "signer.json")
		os.WriteFile(path, bz, 0o600)
		load(path, "none", "legacy", "right", pass, pub)
		load(path, "none", "legacy", "wrong", []byte("not the passphrase"), pub)
		load(path, "none", "legacy", "empty", []byte{}, pub)
		// export, then import over the legacy file itself
		importOver(c, d, d, pass, pub, "legacy-in-place")
		// consistency with the other signer implementation's address derivation
		ns, _ := noop.NewNoopSigner(priv)
		a1, _ := ns.GetAddress()
		c.Tr.Emit("KAddr", world.F{"ok": string(a1) == string(types.KeyAddress(pub))})
	}
	c.Count("keyfiles", nfiles+len(passes))
	return nil
}

// importOver exports the key stored in src (under pass) and imports it into dst - over whatever file
// is already there - under a new passphrase; the result must load with the new passphrase, to the same
// key, and must not load with the old one.
func importOver(c *Ctx, src, dst string, pass []byte, pub crypto.PubKey, where string) {
	importOverWith(c, src, dst, pass, []byte("the new passphrase"), pub, where)
}

func importOverWith(c *Ctx, src, dst string, pass, newPass []byte, pub crypto.PubKey, where string) {
	defer func() {
		if p := recover(); p != nil {
			c.Tr.Emit("Panic", world.F{"node": "key", "where": "import-" + where, "msg": trunc(fmt.Sprint(p))})
		}
	}()
	raw, err := filesigner.ExportPrivateKey(src, append([]byte(nil), pass...))
	ok := err == nil
	if ok {
		ok = filesigner.ImportPrivateKey(dst, raw, append([]byte(nil), newPass...)) == nil
	}
	same := false
	if ok {
		s3, e := filesigner.LoadFileSystemSigner(dst, append([]byte(nil), newPass...))
		if e == nil {
			p3, _ := s3.GetPublic()
			same = p3.Equals(pub)
			if same {
				// signatures of the loaded signer verify under the key it reports
				msg := []byte("verif import check")
				sig, e2 := s3.Sign(msg)
				v, e3 := pub.Verify(msg, sig)
				same = e2 == nil && e3 == nil && v
			}
		}
		if _, e := filesigner.LoadFileSystemSigner(dst, []byte("certainly not the passphrase")); e == nil {
			same = false
		}
	}
	c.Tr.Emit("KExport", world.F{"ok": ok, "same": same, "where": where})
}
