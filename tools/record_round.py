#!/usr/bin/env python3
"""tools/record_round.py <suffix> <ID>:<check>[,<check>...] ...
Applies each seeded change of a round in turn (tools/try_mutant.sh), runs the named checks and records which
invariants reported it in seeded/<ID><suffix>/meta.json (verified_by_main)."""
import json, re, subprocess, sys, time
suf = sys.argv[1]
for spec in sys.argv[2:]:
    pid, checks = spec.split(":")
    name = pid + suf
    out = subprocess.run(["/verif/tools/try_mutant.sh", name] + checks.split(","), capture_output=True, text=True).stdout
    res, cur = {}, None
    for line in out.splitlines():
        m = re.match(r"== (\S+) under (\S+): exit (\d+)", line)
        if m:
            cur = m.group(2)
            res[cur] = {"exit": int(m.group(3)), "invariants": []}
            continue
        m = re.match(r"\s+invariant (\S+) at record", line)
        if m and cur and m.group(1) not in res[cur]["invariants"]:
            res[cur]["invariants"].append(m.group(1))
        if line.startswith("INCONCLUSIVE") and cur:
            res[cur]["inconclusive"] = line[:200]
    mp = "/verif/seeded/%s/meta.json" % name
    try:
        meta = json.load(open(mp))
    except Exception:
        meta = {}
    meta["verified_by_main"] = {"date": time.strftime("%Y-%m-%d"), "checks": res,
                                "detected": any(v["exit"] == 1 and v["invariants"] for v in res.values())}
    json.dump(meta, open(mp, "w"), indent=1)
    print(name, json.dumps(res))
