package drivers

import (
	pb "github.com/evstack/ev-node/types/pb/evnode/v1"
	"google.golang.org/protobuf/proto"
	"time"
	"strings"
	"github.com/evstack/ev-node/block"
	"crypto/rand"
	"fmt"
	mrand "math/rand"
	"testing/synctest"

	"github.com/evstack/ev-node/types"

	"verif/harness/world"
)

// Adversarial material (C03): everything here is built WITHOUT the proposer's private key.

func (s *syncRun) advSign(h *types.Header) []byte {
	bz, err := types.DefaultSignaturePayloadProvider(h)
	if err != nil {
		panic(err)
	}
	sig, err := s.w.AdvPriv.Sign(bz)
	if err != nil {
		panic(err)
	}
	return sig
}

// forgeHeader builds one adversarial header blob of the given class for height h.
func (s *syncRun) forgeHeader(class string, h uint64) *types.SignedHeader {
	g := s.headerOf(h) // a fresh copy of the genuine header
	advSigner := types.Signer{PubKey: s.w.AdvPub, Address: s.w.PropAddr}
	switch class {
	case "A1same": // identical header fields, signed with the adversary's key under the proposer's address
		g.Signer = advSigner
		g.Signature = s.advSign(&g.Header)
	case "A1alt": // a fork block: different data hash, consistent, re-signed with the adversary's key
		d := types.Data{Txs: types.Txs{[]byte("forged-tx")}}
		g.DataHash = d.DACommitment()
		g.Signer = advSigner
		g.Signature = s.advSign(&g.Header)
	case "A1time": // field-mutated copy, re-signed
		g.BaseHeader.Time++
		g.Signer = advSigner
		g.Signature = s.advSign(&g.Header)
	case "A3": // field-mutated copy with the original signature
		g.BaseHeader.Time++
	case "A3g": // genuine fields and signer, garbage signature
		sig := make([]byte, 64)
		rand.Read(sig)
		g.Signature = sig
	case "A4ns": // no signer and no signature at all (a "nil guard" must not let it through)
		g.Signature = nil
		g.Signer = types.Signer{}
	case "A4": // unsigned
		g.Signature = nil
	case "A5": // wrong chain id, re-signed
		g.BaseHeader.ChainID = "other-chain"
		g.Signer = advSigner
		g.Signature = s.advSign(&g.Header)
	case "A5own": // adversary's own address and key (self-consistent but not the proposer)
		addr := types.KeyAddress(s.w.AdvPub)
		g.ProposerAddress = addr
		g.Signer = types.Signer{PubKey: s.w.AdvPub, Address: addr}
		g.Signature = s.advSign(&g.Header)
	}
	return g
}

// forgeNext builds a block for the height after the proposer's last one, correctly hash-linked to the
// genuine head (an empty block, so that it needs no data to be applicable): A8adv - signed with the
// adversary's key under the proposer's address; A8uns - unsigned; A8gar - the proposer's signer, garbage signature.
func (s *syncRun) forgeNext(class string) *types.SignedHeader {
	g := s.headerOf(s.top)
	first := s.headerOf(s.ih) // the genuine first block is empty: its data hash is the empty-block marker
	head := g.Hash()
	g.BaseHeader.Height = s.top + 1
	g.BaseHeader.Time += uint64(time.Second)
	g.LastHeaderHash = head
	g.DataHash = first.DataHash
	switch class {
	case "A8adv":
		g.Signer = types.Signer{PubKey: s.w.AdvPub, Address: s.w.PropAddr}
		g.Signature = s.advSign(&g.Header)
	case "A8uns":
		g.Signature = nil
	case "A8gar":
		sig := make([]byte, 64)
		rand.Read(sig)
		g.Signature = sig
	}
	return g
}

func (s *syncRun) forgeData(class string, h uint64) []byte {
	d := s.dataOf(h)
	switch class {
	case "D1": // forged transactions signed by the adversary under the proposer's address
		d.Txs = types.Txs{[]byte("forged-tx")}
		bz, _ := d.MarshalBinary()
		sig, _ := s.w.AdvPriv.Sign(bz)
		sd := &types.SignedData{Data: *d, Signature: sig, Signer: types.Signer{PubKey: s.w.AdvPub, Address: s.w.PropAddr}}
		out, _ := sd.MarshalBinary()
		return out
	case "D1same": // the genuine data, signed by the adversary under the proposer's address
		bz, _ := d.MarshalBinary()
		sig, _ := s.w.AdvPriv.Sign(bz)
		sd := &types.SignedData{Data: *d, Signature: sig, Signer: types.Signer{PubKey: s.w.AdvPub, Address: s.w.PropAddr}}
		out, _ := sd.MarshalBinary()
		return out
	case "D3": // mutated transactions with the original signature
		bz, _ := d.MarshalBinary()
		sig, _ := s.w.Signer.Sign(bz)
		d.Txs = append(types.Txs{[]byte("forged-tx")}, d.Txs...)
		sd := &types.SignedData{Data: *d, Signature: sig, Signer: types.Signer{PubKey: s.w.PropPub, Address: s.w.PropAddr}}
		out, _ := sd.MarshalBinary()
		return out
	case "D4": // unsigned
		sd := &types.SignedData{Data: *d, Signer: types.Signer{PubKey: s.w.PropPub, Address: s.w.PropAddr}}
		out, _ := sd.MarshalBinary()
		return out
	}
	return nil
}

// protoJunk returns well-formed protobuf messages of the wire types with parts missing or nonsensical
// (what a third party can put on the DA layer at no cost): the decoders must refuse or survive them.
func protoJunk(rng *mrand.Rand, genuine []byte) []byte {
	var sh pb.SignedHeader
	if proto.Unmarshal(genuine, &sh) != nil || sh.Header == nil {
		return []byte{0x0a, 0x00}
	}
	mar := func(m proto.Message) []byte {
		bz, err := proto.Marshal(m)
		if err != nil {
			return []byte{0x0a, 0x00}
		}
		return bz
	}
	switch rng.Intn(10) {
	case 0:
		return []byte{0x0a, 0x00} // an empty header sub-message and nothing else
	case 1:
		return mar(&pb.SignedHeader{Header: sh.Header, Signature: sh.Signature}) // no signer
	case 2:
		return mar(&pb.SignedHeader{Signature: sh.Signature, Signer: sh.Signer}) // no header
	case 3:
		return mar(&pb.SignedHeader{Header: sh.Header, Signature: sh.Signature, Signer: &pb.Signer{}}) // empty signer
	case 4:
		return mar(&pb.SignedHeader{Header: sh.Header, Signature: sh.Signature, Signer: &pb.Signer{Address: sh.Signer.GetAddress(), PubKey: []byte{1, 2, 3}}}) // unparsable key
	case 5:
		h := proto.Clone(sh.Header).(*pb.Header)
		h.Version = nil
		return mar(&pb.SignedHeader{Header: h, Signature: sh.Signature, Signer: sh.Signer})
	case 6:
		return mar(&pb.SignedData{Signature: sh.Signature, Signer: sh.Signer}) // signed data without data
	case 7:
		return mar(&pb.SignedData{Data: &pb.Data{Txs: [][]byte{[]byte("x")}}, Signature: sh.Signature}) // data without metadata and signer
	case 8:
		return mar(&pb.SignedData{Data: &pb.Data{Metadata: &pb.Metadata{ChainId: sh.Header.ChainId, Height: sh.Header.Height}}, Signer: &pb.Signer{}})
	default:
		h := proto.Clone(sh.Header).(*pb.Header)
		h.ProposerAddress = nil
		return mar(&pb.SignedHeader{Header: h, Signer: sh.Signer})
	}
}

func junk(rng *mrand.Rand, genuine []byte) []byte {
	if rng.Intn(3) == 0 {
		return protoJunk(rng, genuine)
	}
	switch rng.Intn(6) {
	case 0:
		return []byte{}
	case 1:
		return genuine[:len(genuine)/2]
	case 2:
		return []byte{0x0a, 0xff, 0xff, 0xff, 0xff, 0x0f, 0x01} // absurd length prefix
	case 3:
		b := make([]byte, 1+rng.Intn(200))
		rng.Read(b)
		return b
	case 4:
		return append(append([]byte{}, genuine...), 0x99, 0x98, 0x97)
	default:
		b := append([]byte{}, genuine...)
		b[rng.Intn(len(b))] ^= 0x5a
		return b
	}
}

// inject places one adversarial item. via: da | p2p (headers only).
func (s *syncRun) inject(class string, h uint64, via string, rng *mrand.Rand) {
	if strings.HasPrefix(class, "A8") {
		h = s.top + 1
		if s.isDown() {
			return
		}
		m := s.full.M
		fh := s.forgeNext(class)
		if via == "p2p" && h == s.p2pH {
			s.c.Tr.Emit("Inject", world.F{"node": "full", "class": class, "kind": "hdr", "h": int(h), "via": "p2p", "dah": 0})
			s.full.HStore.AppendItem(fh)
			s.p2pH++
			select {
			case m.VerifHeaderStoreCh() <- struct{}{}:
			default:
			}
		} else {
			s.c.Tr.Emit("Inject", world.F{"node": "full", "class": class, "kind": "hdr", "h": int(h), "via": "da", "dah": int(s.daH)})
			s.w.DA.Place(s.daH, HeaderBlob(fh))
			s.w.DA.SetCurrent(s.daH)
			s.daH++
			select {
			case m.VerifRetrieveCh() <- struct{}{}:
			default:
			}
		}
		synctest.Wait()
		if s.isDown() {
			s.wg.Wait()
			s.full.M = nil
		}
		s.full.Obs("inject")
		return
	}
	if s.isDown() || h < s.ih || h > s.top {
		return
	}
	m := s.full.M
	if class == "P1" || class == "P1parked" || class == "P1split" {
		// unsigned transaction data over P2P (what a peer can put into the data sync store): the genuine
		// metadata of height h with transactions of the adversary's choosing. P1parked: the genuine header
		// of h is delivered first, so that it waits in the cache (with its placeholder, if the block is empty).
		if class == "P1parked" {
			s.deliver("hdr", h, "chan")
			if s.isDown() {
				return
			}
		}
		d := s.dataOf(h)
		if class == "P1split" {
			// the genuine transactions cut at different boundaries (same concatenated bytes, different list)
			if len(d.Txs) == 0 || len(d.Txs[0]) < 2 {
				return
			}
			first := d.Txs[0]
			cut := append(types.Txs{append([]byte(nil), first[:len(first)/2]...), append([]byte(nil), first[len(first)/2:]...)}, d.Txs[1:]...)
			if len(d.Txs) >= 2 && rng.Intn(2) == 0 { // or two transactions glued into one
				cut = append(types.Txs{append(append([]byte(nil), d.Txs[0]...), d.Txs[1]...)}, d.Txs[2:]...)
			}
			d.Txs = cut
		} else {
			d.Txs = types.Txs{[]byte("forged-p2p-tx")}
		}
		s.c.Tr.Emit("Inject", world.F{"node": "full", "class": class, "kind": "data", "h": int(h), "via": "p2pdata", "dah": 0})
		m.VerifDataInCh() <- block.NewDataEvent{Data: d, DAHeight: s.daH}
		synctest.Wait()
		if s.isDown() {
			s.wg.Wait()
			s.full.M = nil
		}
		s.full.Obs("inject")
		return
	}
	var blob []byte
	kind := "hdr"
	var fh *types.SignedHeader
	switch {
	case class == "A6":
		blob = junk(rng, HeaderBlob(s.headerOf(h)))
		kind = "junk"
	case class == "A7":
		blob = HeaderBlob(s.headerOf(h))
	case class[0] == 'D':
		if len(s.dataOf(h).Txs) == 0 && class != "D1" {
			return
		}
		blob = s.forgeData(class, h)
		kind = "data"
	default:
		fh = s.forgeHeader(class, h)
		blob = HeaderBlob(fh)
	}
	if via == "p2p" && (fh == nil || h != s.p2pH) {
		via = "da"
	}
	if via == "p2p" {
		s.c.Tr.Emit("Inject", world.F{"node": "full", "class": class, "kind": kind, "h": int(h), "via": "p2p", "dah": 0})
		s.full.HStore.AppendItem(fh)
		s.p2pH++
		select {
		case m.VerifHeaderStoreCh() <- struct{}{}:
		default:
		}
	} else {
		s.c.Tr.Emit("Inject", world.F{"node": "full", "class": class, "kind": kind, "h": int(h), "via": "da", "dah": int(s.daH)})
		if class == "A7" { // a replay of the genuine blob really is the genuine blob on the DA layer
			s.c.Tr.Emit("Deliver", world.F{"node": "full", "kind": "hdr", "h": int(h), "via": "da", "dah": int(s.daH)})
			s.placed[evKey("hdr", h)] = true
		}
		if class == "A6" {
			s.placeJunk(s.daH, blob)
		} else {
			s.w.DA.Place(s.daH, blob)
		}
		s.w.DA.SetCurrent(s.daH)
		s.daH++
		select {
		case m.VerifRetrieveCh() <- struct{}{}:
		default:
		}
	}
	synctest.Wait()
	if s.isDown() {
		s.wg.Wait()
		s.full.M = nil
	}
	s.full.Obs("inject")
}

var advClasses = []string{"A1same", "A1alt", "A1time", "A3", "A3g", "A4", "A4ns", "A5", "A5own", "A6", "A7", "D1", "D1same", "D3", "D4", "P1", "P1parked", "P1split", "A8adv", "A8uns", "A8gar"}

// RunAdversary interleaves every adversarial class, at every position relative to the genuine
// events of a chain, on every ingress, with genuine traffic on a full node.
func RunAdversary(c *Ctx) {
	rng := mrand.New(mrand.NewSource(c.Seed + 99))
	shapes := []string{"ShapeA", "ShapeE"}
	for _, shapeName := range shapes {
		shape := SyncShapes[shapeName]
		nb := len(shape) + 1
		for _, class := range advClasses {
			for _, via := range []string{"da", "p2p"} {
				if via == "p2p" && (class[0] == 'D' || class[0] == 'P' || class == "A6" || class == "A7") {
					continue
				}
				// position: the adversarial item for height t arrives when the node has applied `applied` blocks
				for t := 1; t <= nb; t++ {
					if strings.HasPrefix(class, "A8") && t != nb {
						continue // these classes always target the height after the proposer's last block
					}
					for applied := 0; applied <= nb; applied++ {
						// (the unsigned-data classes have few cases: all of them in every tier, so that what they show does
						// not depend on the sample)
						if !c.Thorough() && class[0] != 'P' && rng.Intn(3) != 0 {
							continue
						}
						for _, gvia := range []string{"da", "chan"} {
							run := fmt.Sprintf("adv/%s/%s/%s/t%d/a%d/%s", shapeName, class, via, t, applied, gvia)
							synctest.Run(func() {
								s := newSyncRun(c, run, 1, shape, world.F{"src": "adversary", "shape": shapeName})
								defer s.finish()
								if s.startFull() != nil {
									return
								}
								h := s.ih
								for ; h < s.ih+uint64(applied) && h <= s.top; h++ {
									s.deliver("hdr", h, gvia)
									s.deliver("data", h, gvia)
								}
								s.inject(class, s.ih+uint64(t)-1, via, rng)
								// a second copy after the genuine one was possibly seen
								for ; h <= s.top; h++ {
									s.deliver("data", h, gvia)
									s.deliver("hdr", h, gvia)
								}
								if class[0] != 'P' {
									s.inject(class, s.ih+uint64(t)-1, "da", rng)
								}
								s.settle()
								c.Count("advruns", 1)
							})
						}
					}
				}
			}
		}
	}
}
