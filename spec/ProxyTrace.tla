---------------------------- MODULE ProxyTrace ----------------------------
(***************************************************************************)
(* Tier M monitor for C16: every case is run on the real code twice - the  *)
(* DA double called directly, and the same double behind the real          *)
(* jsonrpc.Server reached through the real jsonrpc.Client - and the        *)
(* results of the node helpers are logged: PCall{op, via, n, fit, fault,   *)
(* code, count, nblobs, sent, blobsok}.                                    *)
(***************************************************************************)
EXTENDS DAProxy, TraceLib
VARIABLES l, run, last, viol
tvars == <<case, l, run, last, viol>>
TInit == case = [op |-> "none"] /\ l = 1 /\ run = "" /\ last = [op |-> "none"] /\ viol = <<>>
e == Trace[l]
Is(name) == l <= N /\ e.ev = name
Adv == l' = l + 1
TReset == Is("Reset") /\ Adv /\ run' = e.run /\ last' = [op |-> "none"] /\ UNCHANGED <<case, viol>>
Exp == IF e.op = "submit" THEN <<SubmitCode(e.nb, e.fit, e.fault), SubmitCount(e.nb, e.fit, e.fault)>> ELSE <<FetchCode(e.fault), 0>>
TCall ==
    /\ Is("PCall") /\ Adv
    /\ viol' = viol \o Failed(<<
          <<"C16.Classified", e.code = Exp[1], "the helper classified the outcome differently from the DA interface's meaning">>,
          <<"C16.SubmittedCount", e.op = "submit" => e.count = Exp[2] /\ e.sent = (IF e.nb > 0 /\ e.fit > 0 THEN e.fit ELSE 0),
              "submitted count is not the longest prefix that fits / the backing DA received a different number of blobs">>,
          <<"C16.SameBlobs", (e.op \in {"fetch", "get"} /\ e.fault = "ok") => e.blobsok, "the blobs that came back are not the ones stored at that height / asked for, one per id">>,
          <<"C16.ProxyEqualsDirect", (e.via = "proxy" /\ last.op = e.op) => (e.code = last.code /\ e.count = last.count /\ e.nblobs = last.nblobs),
              "direct and proxied call of the same case disagree">>
          >>, l, run)
    /\ last' = IF e.via = "direct" THEN [op |-> e.op, code |-> e.code, count |-> e.count, nblobs |-> e.nblobs] ELSE [op |-> "none"]
    /\ UNCHANGED <<case, run>>
TPanic == Is("Panic") /\ Adv /\ viol' = viol \o Failed(<< <<"C16.Panic", FALSE, "panic">> >>, l, run) /\ UNCHANGED <<case, run, last>>
TOther == l <= N /\ Adv /\ e.ev \notin {"Reset", "PCall", "Panic"} /\ UNCHANGED <<case, run, last, viol>>
TNext == TReset \/ TCall \/ TPanic \/ TOther
TSpec == TInit /\ [][TNext]_tvars
Finish == (l = N + 1) => ndJsonSerialize("viol.ndjson", viol)
Consumed == TLCGet("stats").diameter = N + 1
=============================================================================
