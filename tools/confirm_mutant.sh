#!/bin/bash
# confirm_mutant.sh <name> <OUTdir> <module-relative dest dir of demo test> <go test -run regex> [module dir (default .)]
# Confirms in a scratch worktree: demo passes without the patch, fails with it, and the module's own tests pass with it.
set -u
name=$1; out=$2; dest=$3; rx=$4; mod=${5:-.}
wt=/tmp/cm-$name
export GOFLAGS=-mod=mod GOPROXY=off
git -C /repo worktree remove --force $wt 2>/dev/null
git -C /repo worktree add --detach $wt HEAD >/dev/null 2>&1 || exit 2
res=""
mkdir -p $wt/$mod/$dest; cp $out/*_test.go $wt/$mod/$dest/ 2>/dev/null
( cd $wt/$mod && go test -vet=off -count=1 -run "$rx" ./$dest/ >/tmp/cm-$name.nopatch.log 2>&1 ) && res="$res demo_without_patch=PASS" || res="$res demo_without_patch=FAIL"
git -C $wt apply /verif/seeded/$name/patch.diff || { echo "patch does not apply"; exit 2; }
( cd $wt/$mod && go test -vet=off -count=1 -run "$rx" ./$dest/ >/tmp/cm-$name.patch.log 2>&1 ) && res="$res demo_with_patch=PASS" || res="$res demo_with_patch=FAIL"
for f in $out/*_test.go; do rm -f $wt/$mod/$dest/$(basename $f); done
( cd $wt/$mod && go build ./... && go test -vet=off -count=1 ./... 2>&1 | grep -v "^ok\|no test files" > /tmp/cm-$name.suite.log ); 
fails=$(grep "^--- FAIL" /tmp/cm-$name.suite.log | grep -vc "TestSaveGenesis_InvalidPath")
res="$res suite_fail_lines=$fails"
echo "$name:$res"; grep "^--- FAIL\|^FAIL" /tmp/cm-$name.suite.log | head -5
git -C /repo worktree remove --force $wt
