---------------------------- MODULE Producer ----------------------------
(***************************************************************************)
(* Tier I (implementation-shaped) model of the sequencer node's block      *)
(* production step: block/manager.go publishBlockInternal, retrieveBatch,  *)
(* execCreateBlock, execValidate, and NewManager/getInitialState as the    *)
(* restart path.  One action per critical section: every durable write,    *)
(* every environment response (sequencing layer, execution layer), Crash   *)
(* and Restart are separate steps, so TLC explores a crash between any two *)
(* durable writes and every reply sequence.                                *)
(*                                                                         *)
(* The model describes the REPAIRED design (timestamp guard on every       *)
(* non-nil batch; state written before chain height).  The two deviations  *)
(* found in the pinned tree are kept as switches so that their             *)
(* counterexamples stay reproducible:                                      *)
(*   GuardEmpty = FALSE  -> guard only on the non-empty path (C01 stall)   *)
(*   StateFirst = FALSE  -> chain height written before state (C04 wedge)  *)
(***************************************************************************)
EXTENDS Integers, Sequences, FiniteSets, TLC

CONSTANTS
    IH,          \* genesis initial height (>= 1)
    MaxH,        \* chain height bound for exhaustive runs
    MaxReplies,  \* number of sequencing-layer replies the environment may give
    MaxCrashes,  \* crash budget
    TxLists,     \* set of transaction lists a batch may carry (non-empty sequences)
    GuardEmpty,  \* BOOLEAN, see above
    StateFirst,  \* BOOLEAN, see above
    Rec          \* BOOLEAN: record environment choices in hist (simulation only)

VARIABLES
    kv,        \* durable image: [height, state, blocks]
    mem,       \* volatile last state ([h, root, t]) while the process is up
    pc,        \* control point of the process
    cur,       \* block being produced (volatile)
    batch,     \* batch taken in this step (volatile)
    replies,   \* number of replies the environment has given so far
    crashes,   \* crashes so far
    published, \* set of [h, hash] handed to the header broadcaster
    execLog,   \* set of [h, txs, prev] successful execution calls
    taken,     \* sequence of non-nil replies handed out ([kind, txs, ts])
    wc,        \* durable writes since the current step / restart began
    hist       \* environment choices, for replay into the real code

vars == <<kv, mem, pc, cur, batch, replies, crashes, published, execLog, taken, wc, hist>>

H(r) == IF Rec THEN Append(hist, r) ELSE hist

NoState == [h |-> IH - 1, root |-> <<>>, t |-> 0, stored |-> FALSE]
NoBlock == [h |-> 0]
NoBatch == [kind |-> "none", txs |-> <<>>, ts |-> 0]

\* A header hash is the tuple of the fields it commits to; the signature is not part of it.
HashOf(b) == <<b.h, b.prev, b.t, b.txs, b.app>>

Stored(h) == h \in DOMAIN kv.blocks

\* The block getInitialState saves at the initial height: empty, genesis time, signed.
GenesisBlock == [h |-> IH, prev |-> <<>>, t |-> 0, txs |-> <<>>, app |-> <<>>,
                 sig |-> "P", ssig |-> "P", meta |-> FALSE]

Init ==
    /\ kv = [height |-> 0, state |-> NoState, blocks |-> <<>>]
    /\ mem = NoState
    /\ pc = "down"
    /\ cur = NoBlock
    /\ batch = NoBatch
    /\ replies = 0
    /\ crashes = 0
    /\ published = {}
    /\ execLog = {}
    /\ taken = <<>>
    /\ wc = 0
    /\ hist = <<>>

Max(a, b) == IF a > b THEN a ELSE b

PutBlock(b) == [kv EXCEPT !.blocks = (b.h :> b) @@ @]

\* ---------------------------------------------------------------- restart
\* NewManager: getInitialState (fresh: InitChain + save genesis block), then SetHeight.
RestartLoad ==
    /\ pc = "down"
    /\ wc' = IF kv.state.stored THEN 0 ELSE 1
    /\ IF kv.state.stored
          THEN /\ mem' = kv.state
               /\ kv' = kv
          ELSE /\ mem' = NoState
               /\ kv' = PutBlock(GenesisBlock)
    /\ pc' = "starting"
    /\ hist' = H([a |-> "restart", kind |-> "", ts |-> "", txs |-> <<>>, ok |-> TRUE, w |-> 0, height |-> 0, sth |-> 0])
    /\ UNCHANGED <<cur, batch, replies, crashes, published, execLog, taken>>

RestartHeight ==
    /\ pc = "starting"
    /\ kv' = [kv EXCEPT !.height = Max(@, mem.h)]
    /\ wc' = IF mem.h > kv.height THEN wc + 1 ELSE wc
    /\ pc' = "idle"
    /\ UNCHANGED <<mem, cur, batch, replies, crashes, published, execLog, taken, hist>>

\* ---------------------------------------------------------------- one production step
LastT == IF kv.height < IH THEN 0 ELSE kv.blocks[kv.height].t

Begin ==
    /\ pc = "idle"
    /\ kv.height < MaxH
    /\ wc' = 0
    /\ hist' = H([a |-> "step", kind |-> "", ts |-> "", txs |-> <<>>, ok |-> TRUE, w |-> 0, height |-> kv.height, sth |-> mem.h])
    /\ IF Stored(kv.height + 1)
          THEN /\ cur' = kv.blocks[kv.height + 1]      \* "using pending block"
               /\ pc' = "haveBlock"
          ELSE /\ cur' = NoBlock
               /\ pc' = "fetch"
    /\ batch' = NoBatch
    /\ UNCHANGED <<kv, mem, replies, crashes, published, execLog, taken>>

TsOf(rel) == CASE rel = "earlier" -> LastT - 1
               [] rel = "equal"   -> LastT
               [] rel = "later"   -> LastT + 1

\* the sequencing layer answers: absent batch / transient error -> the step ends quietly
FetchNone(kind) ==
    /\ pc = "fetch"
    /\ replies < MaxReplies
    /\ kind \in {"nil", "err"}
    /\ replies' = replies + 1
    /\ pc' = "idle"
    /\ hist' = H([a |-> "seq", kind |-> kind, ts |-> "later", txs |-> <<>>, ok |-> TRUE, w |-> 0, height |-> 0, sth |-> 0])
    /\ UNCHANGED <<kv, mem, cur, batch, crashes, published, execLog, taken, wc>>

\* a non-nil batch (possibly empty): the batch cursor is persisted (one durable write)
FetchBatch(kind, txs, rel) ==
    /\ pc = "fetch"
    /\ replies < MaxReplies
    /\ kind \in {"batch", "empty"}
    /\ (kind = "empty") <=> (txs = <<>>)
    /\ rel = "earlier" => LastT > 0
    /\ replies' = replies + 1
    /\ batch' = [kind |-> kind, txs |-> txs, ts |-> TsOf(rel)]
    /\ taken' = Append(taken, [kind |-> kind, txs |-> txs, ts |-> TsOf(rel)])
    /\ wc' = wc + 1
    /\ pc' = "guard"
    /\ hist' = H([a |-> "seq", kind |-> kind, ts |-> rel, txs |-> txs, ok |-> TRUE, w |-> 0, height |-> 0, sth |-> 0])
    /\ UNCHANGED <<kv, mem, cur, crashes, published, execLog>>

TsGuard ==
    /\ pc = "guard"
    /\ IF (GuardEmpty \/ batch.kind = "batch") /\ batch.ts < LastT
          THEN pc' = "halted"           \* publishBlock returns an error: the node halts
          ELSE pc' = "create"
    /\ UNCHANGED <<kv, mem, cur, batch, replies, crashes, published, execLog, taken, wc, hist>>

PrevHash == IF kv.height < IH THEN <<>> ELSE HashOf(kv.blocks[kv.height])
PrevSig  == IF kv.height < IH THEN "none" ELSE "prev"

\* createBlock + early save (signature of the previous block, no metadata)
CreateAndEarlySave ==
    /\ pc = "create"
    /\ LET b == [h |-> kv.height + 1, prev |-> PrevHash, t |-> batch.ts, txs |-> batch.txs,
                 app |-> mem.root, sig |-> PrevSig, ssig |-> "none", meta |-> FALSE]
       IN /\ cur' = b
          /\ kv' = PutBlock(b)
    /\ wc' = wc + 1
    /\ pc' = "haveBlock"
    /\ UNCHANGED <<mem, batch, replies, crashes, published, execLog, taken, hist>>

Execute(ok) ==
    /\ pc = "haveBlock"
    /\ hist' = H([a |-> "exec", kind |-> "", ts |-> "", txs |-> <<>>, ok |-> ok, w |-> 0, height |-> 0, sth |-> 0])
    /\ IF ok
          THEN /\ execLog' = execLog \cup {[h |-> cur.h, txs |-> cur.txs, prev |-> mem.root]}
               /\ pc' = "executed"
          ELSE /\ execLog' = execLog
               /\ pc' = "halted"
    /\ UNCHANGED <<kv, mem, cur, batch, replies, crashes, published, taken, wc>>

\* the validation a full node applies (execValidate), against the in-memory last state
ValidNext(st, b) ==
    /\ b.h = st.h + 1
    /\ (b.h > 1 => b.t >= st.t)
    /\ b.app = st.root

SignValidate ==
    /\ pc = "executed"
    /\ IF ValidNext(mem, cur)
          THEN /\ cur' = [cur EXCEPT !.sig = "P", !.ssig = "P", !.meta = TRUE]
               /\ pc' = "validated"
          ELSE /\ cur' = cur
               /\ pc' = "halted"
    /\ UNCHANGED <<kv, mem, batch, replies, crashes, published, execLog, taken, wc, hist>>

FinalSave ==
    /\ pc = "validated"
    /\ kv' = PutBlock(cur)
    /\ wc' = wc + 1
    /\ pc' = "saved"
    /\ UNCHANGED <<mem, cur, batch, replies, crashes, published, execLog, taken, hist>>

NewState == [h |-> cur.h, root |-> mem.root \o cur.txs, t |-> cur.t, stored |-> TRUE]

SetHeight ==
    /\ pc = IF StateFirst THEN "stateSet" ELSE "saved"
    /\ kv' = [kv EXCEPT !.height = Max(@, cur.h)]
    /\ wc' = wc + 1
    /\ pc' = IF StateFirst THEN "committed" ELSE "heightSet"
    /\ UNCHANGED <<mem, cur, batch, replies, crashes, published, execLog, taken, hist>>

SetState ==
    /\ pc = IF StateFirst THEN "saved" ELSE "heightSet"
    /\ kv' = [kv EXCEPT !.state = NewState]
    /\ mem' = NewState
    /\ wc' = wc + 1
    /\ pc' = IF StateFirst THEN "stateSet" ELSE "committed"
    /\ UNCHANGED <<cur, batch, replies, crashes, published, execLog, taken, hist>>

Broadcast ==
    /\ pc = "committed"
    /\ published' = published \cup {[h |-> cur.h, hash |-> HashOf(cur)]}
    /\ pc' = "idle"
    /\ hist' = H([a |-> "expect", kind |-> "", ts |-> "", txs |-> <<>>, ok |-> TRUE, w |-> 0, height |-> kv.height, sth |-> mem.h])
    /\ UNCHANGED <<kv, mem, cur, batch, replies, crashes, execLog, taken, wc>>

\* an error returned by the step stops the aggregation loop: the node halts and is restarted
Halt ==
    /\ pc = "halted"
    /\ pc' = "down"
    /\ mem' = NoState /\ cur' = NoBlock /\ batch' = NoBatch
    /\ UNCHANGED <<kv, replies, crashes, published, execLog, taken, wc, hist>>

Crash ==
    /\ pc \notin {"down", "idle", "halted"}
    /\ crashes < MaxCrashes
    /\ crashes' = crashes + 1
    /\ pc' = "down"
    /\ mem' = NoState /\ cur' = NoBlock /\ batch' = NoBatch
    /\ hist' = H([a |-> "crash", kind |-> "", ts |-> "", txs |-> <<>>, ok |-> TRUE, w |-> wc, height |-> 0, sth |-> 0])
    /\ UNCHANGED <<kv, replies, published, execLog, taken, wc>>

\* the process is stopped (or killed) at rest, between two production steps: nothing is in flight
Stop ==
    /\ pc = "idle"
    /\ crashes < MaxCrashes
    /\ crashes' = crashes + 1
    /\ pc' = "down"
    /\ mem' = NoState /\ cur' = NoBlock /\ batch' = NoBatch
    /\ UNCHANGED <<kv, replies, published, execLog, taken, wc, hist>>

Next ==
    \/ RestartLoad \/ RestartHeight \/ Begin
    \/ \E k \in {"nil", "err"} : FetchNone(k)
    \/ \E r \in {"earlier", "equal", "later"} :
          \/ FetchBatch("empty", <<>>, r)
          \/ \E txs \in TxLists : FetchBatch("batch", txs, r)
    \/ TsGuard \/ CreateAndEarlySave
    \/ \E ok \in BOOLEAN : Execute(ok)
    \/ SignValidate \/ FinalSave \/ SetHeight \/ SetState \/ Broadcast
    \/ Halt \/ Crash \/ Stop

Fairness ==
    /\ WF_vars(RestartLoad) /\ WF_vars(RestartHeight) /\ WF_vars(Begin)
    /\ WF_vars(TsGuard) /\ WF_vars(CreateAndEarlySave) /\ SF_vars(Execute(TRUE))
    /\ WF_vars(SignValidate) /\ WF_vars(FinalSave) /\ WF_vars(SetHeight) /\ WF_vars(SetState)
    /\ WF_vars(Broadcast) /\ WF_vars(Halt)
    /\ SF_vars(\E txs \in TxLists : FetchBatch("batch", txs, "later"))

Spec == Init /\ [][Next]_vars
LiveSpec == Spec /\ Fairness

\* ---------------------------------------------------------------- properties
Heights == IH .. kv.height

RECURSIVE Flat(_)
Flat(ss) == IF ss = <<>> THEN <<>> ELSE Head(ss) \o Flat(Tail(ss))

RootBefore(h) == Flat([i \in 1 .. (h - IH) |-> kv.blocks[IH + i - 1].txs])

\* C01: every committed block extends the chain by one, links to its predecessor, does not
\* go back in time, carries the root of all earlier blocks, and is signed by the proposer.
ChainValid ==
    \A h \in Heights :
        /\ Stored(h)
        /\ kv.blocks[h].h = h
        /\ kv.blocks[h].sig = "P" /\ kv.blocks[h].ssig = "P"
        /\ kv.blocks[h].app = RootBefore(h)
        /\ h > IH => /\ kv.blocks[h].prev = HashOf(kv.blocks[h - 1])
                     /\ kv.blocks[h].t >= kv.blocks[h - 1].t
        /\ h = IH => kv.blocks[h].prev = <<>>

\* C01: each committed block after the first is built from one handed-out batch, in order
RECURSIVE Embeds(_, _, _)
Embeds(h, i, n) ==   \* blocks h..kv.height embed into taken[i..n]
    IF h > kv.height THEN TRUE
    ELSE IF i > n THEN FALSE
    ELSE IF taken[i].txs = kv.blocks[h].txs /\ taken[i].ts = kv.blocks[h].t
            THEN Embeds(h + 1, i + 1, n)
            ELSE Embeds(h, i + 1, n)
BlocksFromBatches == kv.height >= IH => Embeds(IH + 1, 1, Len(taken))

\* C04: at rest the recorded height, the recorded state and the stored blocks agree
AgreeAtIdle ==
    pc = "idle" => /\ mem.h = kv.height
                   /\ (kv.state.stored => kv.state.h = kv.height)
                   /\ (~kv.state.stored => kv.height = IH - 1)

\* C04: a committed or published height never gets a different block
NoRewrite ==
    [][\A h \in IH .. kv.height : Stored(h) => HashOf(kv'.blocks[h]) = HashOf(kv.blocks[h])]_vars
PublishedCommitted ==
    \A p \in published : p.h <= kv.height /\ HashOf(kv.blocks[p.h]) = p.hash
HeightMonotone == [][kv'.height >= kv.height]_vars

\* execution layer is called for consecutive heights with the root of all earlier blocks
ExecInOrder ==
    \A e \in execLog :
        /\ e.h <= kv.height + 1
        /\ Stored(e.h) => e.txs = kv.blocks[e.h].txs

\* never wedged: from every reachable state the node can commit another block
\* (checked as a liveness property under fairness, without a state constraint on height)
Progress == \A n \in IH .. MaxH : (kv.height < n) ~> (kv.height >= n \/ replies >= MaxReplies)

\* the node is never left unable to start: Restart is always enabled when down
CanRestart == pc = "down" => ENABLED RestartLoad

View == <<kv, mem, pc, cur, batch, replies, crashes, published, taken>>
==========================================================================
