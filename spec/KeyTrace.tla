---------------------------- MODULE KeyTrace ----------------------------
(***************************************************************************)
(* Tier M monitor for C19: KLoad{mut, field, pass, res, match, same,       *)
(* addrok} is one call of the real LoadFileSystemSigner on a key file the  *)
(* real code created and the harness mutated; match = a signature made by  *)
(* the loaded signer verifies under the public key it reports; same = that *)
(* key is the one the file was created with; addrok = its address is the   *)
(* one full nodes derive from that public key.                             *)
(***************************************************************************)
EXTENDS KeyFile, TraceLib
VARIABLES l, run, viol
tvars == <<case, l, run, viol>>
TInit == case = [mut |-> "none", field |-> "", pass |-> "right"] /\ l = 1 /\ run = "" /\ viol = <<>>
e == Trace[l]
Is(name) == l <= N /\ e.ev = name
Adv == l' = l + 1
TReset == Is("Reset") /\ Adv /\ run' = e.run /\ UNCHANGED <<case, viol>>
TLoad == /\ Is("KLoad") /\ Adv
         /\ viol' = viol \o Failed(<<
               <<"C19.NoPanic", e.res # "panic", "loading a key file panicked">>,
               <<"C19.OnlyRightPassphraseIntactFile", e.res = "ok" => MayLoad(e.mut, e.field, e.pass) \/ (e.match /\ e.same /\ e.addrok /\ e.pass = "right"),
                   "a wrong passphrase or a corrupted / truncated key file yielded a signer">>,
               <<"C19.WorkingMatchingSigner", e.res = "ok" => e.match /\ e.same /\ e.addrok,
                   "the loaded signer's signatures do not verify under the public key it reports, or it is not the saved key, or its address is not derived from that key">>,
               <<"C19.LoadsWithItsPassphrase", MustLoad(e.mut, e.field, e.pass) => e.res = "ok", "an intact key file did not load with its passphrase">>
               >>, l, run)
         /\ UNCHANGED <<case, run>>
TExport == /\ Is("KExport") /\ Adv
           /\ viol' = viol \o Failed(<< <<"C19.ExportImport", e.ok /\ e.same, "export followed by import did not preserve the key">> >>, l, run)
           /\ UNCHANGED <<case, run>>
TAddr == /\ Is("KAddr") /\ Adv
         /\ viol' = viol \o Failed(<< <<"C19.AddressDerivation", e.ok, "signer implementations derive different addresses from the same key">> >>, l, run)
         /\ UNCHANGED <<case, run>>
TOther == l <= N /\ Adv /\ e.ev \notin {"Reset", "KLoad", "KExport", "KAddr"} /\ UNCHANGED <<case, run, viol>>
TNext == TReset \/ TLoad \/ TExport \/ TAddr \/ TOther
TSpec == TInit /\ [][TNext]_tvars
Finish == (l = N + 1) => ndJsonSerialize("viol.ndjson", viol)
Consumed == TLCGet("stats").diameter = N + 1
=========================================================================
