// Package drivers maps TLC-generated behaviours, exhaustive fault enumerations and seeded
// random schedules onto the real objects built from /repo, and records world traces.
package drivers

import (
	"bufio"
	"encoding/json"
	"fmt"
	"os"
	"path/filepath"
	"sort"

	"verif/harness/world"
)

// Ctx is the invocation context of one driver run.
type Ctx struct {
	Tr      *world.Tracer
	Seed    int64
	Tier    string
	BehDir  string
	Stats   map[string]int
	Samples []string
}

func (c *Ctx) Thorough() bool { return c.Tier == "thorough" }

func (c *Ctx) Count(k string, n int) {
	if c.Stats == nil {
		c.Stats = map[string]int{}
	}
	c.Stats[k] += n
}

// Tok is one environment choice of a model behaviour (the hist variable of a tier-I module).
type Tok map[string]any

func (t Tok) S(k string) string {
	if v, ok := t[k].(string); ok {
		return v
	}
	return ""
}
func (t Tok) I(k string) int {
	if v, ok := t[k].(float64); ok {
		return int(v)
	}
	return 0
}
func (t Tok) B(k string) bool {
	if v, ok := t[k].(bool); ok {
		return v
	}
	return false
}
func (t Tok) L(k string) []string {
	var out []string
	if v, ok := t[k].([]any); ok {
		for _, x := range v {
			out = append(out, fmt.Sprint(x))
		}
	}
	return out
}

// LoadBehaviours reads every b_*.ndjson file of a directory (written by TLC's simulator).
func LoadBehaviours(dir string) (names []string, behs [][]Tok, err error) {
	files, err := filepath.Glob(filepath.Join(dir, "b_*.ndjson"))
	if err != nil {
		return nil, nil, err
	}
	sort.Strings(files)
	for _, f := range files {
		fh, err := os.Open(f)
		if err != nil {
			return nil, nil, err
		}
		var toks []Tok
		sc := bufio.NewScanner(fh)
		sc.Buffer(make([]byte, 1<<20), 1<<24)
		for sc.Scan() {
			if len(sc.Bytes()) == 0 {
				continue
			}
			var t Tok
			if err := json.Unmarshal(sc.Bytes(), &t); err != nil {
				fh.Close()
				return nil, nil, fmt.Errorf("%s: %w", f, err)
			}
			toks = append(toks, t)
		}
		fh.Close()
		if len(toks) > 0 {
			names = append(names, filepath.Base(f))
			behs = append(behs, toks)
		}
	}
	return names, behs, nil
}
