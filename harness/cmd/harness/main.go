// Command harness runs one conformance driver against the code in /repo (built with
// -tags verif) and writes a world trace (ndjson) for validation by TLC.
package main

import (
	"encoding/json"
	"flag"
	"fmt"
	"os"

	"verif/harness/drivers"
	"verif/harness/world"
)

func main() {
	if len(os.Args) < 2 {
		fmt.Fprintln(os.Stderr, "usage: harness <driver> [flags]")
		os.Exit(2)
	}
	drv := os.Args[1]
	fs := flag.NewFlagSet(drv, flag.ExitOnError)
	out := fs.String("out", "trace.ndjson", "trace output")
	stats := fs.String("stats", "", "stats json output")
	seed := fs.Int64("seed", 1, "seed")
	tier := fs.String("tier", "quick", "quick|thorough")
	beh := fs.String("beh", "", "directory with TLC behaviours (b_*.ndjson)")
	arg := fs.String("arg", "", "driver specific argument")
	fs.Parse(os.Args[2:])

	tr, err := world.NewTracer(*out)
	if err != nil {
		fmt.Fprintln(os.Stderr, err)
		os.Exit(2)
	}
	c := &drivers.Ctx{Tr: tr, Seed: *seed, Tier: *tier, BehDir: *beh, Stats: map[string]int{}}
	fn, ok := drivers.Registry[drv]
	if !ok {
		fmt.Fprintln(os.Stderr, "unknown driver", drv)
		os.Exit(2)
	}
	if err := fn(c, *arg); err != nil {
		tr.Close()
		fmt.Fprintln(os.Stderr, "driver error:", err)
		os.Exit(2)
	}
	if err := tr.Close(); err != nil {
		fmt.Fprintln(os.Stderr, err)
		os.Exit(2)
	}
	c.Stats["runs"] = tr.Runs
	c.Stats["events"] = tr.Lines
	if *stats != "" {
		bz, _ := json.Marshal(map[string]any{"stats": c.Stats, "samples": c.Samples})
		os.WriteFile(*stats, bz, 0o644)
	}
}
