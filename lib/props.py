"""Per-property pipelines. Each takes a vlib.Run and returns nothing; violations are
accumulated on the Run and turned into the verdict by Run.finish()."""
from vlib import Inconclusive

TRUST = [
    "TLC and the CommunityModules Json reader",
    "the environment doubles of /verif/harness/world (sequencing, execution, DA, P2P stores) are the environment semantics",
    "Batch.Commit of the datastore is atomic (as with badger); the crash-injecting datastore models a process crash as 'no write after the fuse'",
    "the harness's own signature classification with its copy of the proposer key",
]


def producer(r, prefixes):
    # tier I: exhaustive design check (safety) and liveness on the repaired design
    r.tlc_exhaustive("MCProducer.tla", "Producer.cfg")
    r.tlc_exhaustive("MCProducer.tla", "Producer_live.cfg", workers=8)
    if r.tier == "thorough":
        r.tlc_exhaustive("MCProducer.tla", "Producer_ih3.cfg")
    # spec -> code: TLC-simulated behaviours replayed into the real block.Manager
    n = 120 if r.tier == "quick" else 600
    beh = r.tlc_simulate("MCProducer.tla", "Producer_sim.cfg", n, 70, name="beh1")
    t1 = r.drive("producer", ["-arg", "1"], beh=beh, name="producer-model-ih1")
    r.tlc_validate("ProducerTrace", t1, prefixes)
    beh3 = r.tlc_simulate("MCProducer.tla", "Producer_sim3.cfg", n // 2, 70, name="beh3")
    t3 = r.drive("producer", ["-arg", "3"], beh=beh3, name="producer-model-ih3")
    r.tlc_validate("ProducerTrace", t3, prefixes)
    # code -> spec: exhaustive crash-point enumeration and seeded random histories
    t2 = r.drive("producer", name="producer-enum")
    r.tlc_validate("ProducerTrace", t2, prefixes)


def c01(r):
    producer(r, ["C01."])


def c04(r):
    producer(r, ["C04."])


PIPELINES = {"C01": c01, "C04": c04}
ASSUME = {}
FINISH = {}


def REPLAY_MONITOR(pid, path):
    import os
    import re
    m = re.match(r"%s-([A-Za-z0-9]+)-" % pid, os.path.basename(path))
    return m.group(1) if m else {"C01": "ProducerTrace", "C04": "ProducerTrace"}[pid]
