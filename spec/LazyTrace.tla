---------------------------- MODULE LazyTrace ----------------------------
(***************************************************************************)
(* Tier M monitor for the aggregation loop's timing (C17).  The real       *)
(* AggregationLoop runs in virtual time with the production function       *)
(* replaced by a recorder; events carry virtual milliseconds since the     *)
(* loop started: LazyCfg{lazy, bt, lz}, Notify{t}, ProdStart{t},           *)
(* ProdEnd{t}, LazyEnd{t}.  The obligations are those of LazyAgg.tla.      *)
(***************************************************************************)
EXTENDS TraceLib

VARIABLES l, run, cfg, busy, lastStart, lastDur, owe, oweBy, nstarts, viol
vars == <<l, run, cfg, busy, lastStart, lastDur, owe, oweBy, nstarts, viol>>

Init == /\ l = 1 /\ run = "" /\ cfg = [lazy |-> FALSE, bt |-> 1, lz |-> 1] /\ busy = FALSE /\ lastStart = -1 /\ lastDur = 0
        /\ owe = FALSE /\ oweBy = -1 /\ nstarts = 0 /\ viol = <<>>
e == Trace[l]
Is(name) == l <= N /\ e.ev = name
Adv == l' = l + 1

TReset == /\ Is("Reset") /\ Adv /\ run' = e.run /\ busy' = FALSE /\ lastStart' = -1 /\ lastDur' = 0 /\ owe' = FALSE /\ oweBy' = -1 /\ nstarts' = 0
          /\ UNCHANGED <<cfg, viol>>
TCfg == /\ Is("LazyCfg") /\ Adv /\ cfg' = [lazy |-> e.lazy, bt |-> e.bt, lz |-> e.lz]
        /\ UNCHANGED <<run, busy, lastStart, lastDur, owe, oweBy, nstarts, viol>>

\* a notification: a (further) production must start within one block interval, counted from now when
\* idle and from the end of the production in flight otherwise
TNotify == /\ Is("Notify") /\ Adv
           /\ owe' = TRUE
           /\ oweBy' = IF owe THEN oweBy ELSE IF busy THEN -1 ELSE e.t + cfg.bt
           /\ UNCHANGED <<run, cfg, busy, lastStart, lastDur, nstarts, viol>>

Gap == e.t - lastStart
IdleGap == IF cfg.lazy THEN cfg.lz ELSE cfg.bt

TStart ==
    /\ Is("ProdStart") /\ Adv
    /\ viol' = viol \o Failed(<<
          <<"C17.NotFasterThanBlockInterval", (lastStart >= 0 /\ cfg.lz >= cfg.bt) => Gap >= cfg.bt, "two blocks were produced less than one block interval apart">>,
          <<"C17.NotFaster.shortIdleInterval", (lastStart >= 0 /\ cfg.lz < cfg.bt) => Gap >= cfg.bt, "idle interval shorter than the block interval: the idle timer produces blocks faster than one per block interval">>,
          <<"C17.NoLostWakeup", (cfg.lazy /\ owe /\ oweBy >= 0) => e.t <= oweBy, "a notification did not lead to a block within one block interval">>,
          <<"C17.Regular", (lastStart >= 0 /\ ~owe) => Gap <= MaxOf(IdleGap, lastDur) + 1, "without demand the next block came later than the idle / block interval">>,
          <<"C17.NormalEveryBlockInterval", (~cfg.lazy /\ lastStart >= 0) => Gap <= MaxOf(cfg.bt, lastDur) + 1, "normal mode: block not produced once per block interval">>
          >>, l, run)
    /\ busy' = TRUE /\ lastStart' = e.t /\ owe' = FALSE /\ oweBy' = -1 /\ nstarts' = nstarts + 1
    /\ UNCHANGED <<run, cfg, lastDur>>

TEnd == /\ Is("ProdEnd") /\ Adv
        /\ busy' = FALSE /\ lastDur' = e.t - lastStart
        /\ oweBy' = IF owe /\ oweBy < 0 THEN e.t + cfg.bt + 1 ELSE oweBy
        /\ UNCHANGED <<run, cfg, lastStart, owe, nstarts, viol>>

TFinish == /\ Is("LazyEnd") /\ Adv
           /\ viol' = viol \o Failed(<<
                 <<"C17.NoLostWakeup", (cfg.lazy /\ owe /\ oweBy >= 0) => e.t <= oweBy, "a notification did not lead to a block within one block interval">>,
                 <<"C17.Produces", nstarts >= 2, "the loop produced fewer than two blocks in the whole run">>
                 >>, l, run)
           /\ UNCHANGED <<run, cfg, busy, lastStart, lastDur, owe, oweBy, nstarts>>

TOther == /\ l <= N /\ Adv /\ e.ev \notin {"Reset", "LazyCfg", "Notify", "ProdStart", "ProdEnd", "LazyEnd"}
          /\ UNCHANGED <<run, cfg, busy, lastStart, lastDur, owe, oweBy, nstarts, viol>>

Next == TReset \/ TCfg \/ TNotify \/ TStart \/ TEnd \/ TFinish \/ TOther
Spec == Init /\ [][Next]_vars
Finish == (l = N + 1) => ndJsonSerialize("viol.ndjson", viol)
Consumed == TLCGet("stats").diameter = N + 1
==========================================================================
