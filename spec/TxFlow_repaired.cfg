SPECIFICATION LiveSpec
CONSTANTS
  Txs = {"a", "b", "c"}
  Bound = 1
  MaxCrashes = 2
  PopBeforeSave = FALSE
INVARIANTS NoLossStrict NoDupWithoutCrash
PROPERTIES EventuallyIncluded
CHECK_DEADLOCK FALSE
