SPECIFICATION LiveSpec
CONSTANTS
  Producers = {"retrieve", "hstore"}
  Others = {"includer"}
  Cap = 1
  GenesisInFuture = TRUE
  DelayIgnoresCancel = FALSE
  Reporters = {"sync", "includer"}
  ReportOnCancel = {"sync", "includer"}
  ErrCap = 2
  Unjoined = {"includer"}
  SendIgnoresCancel = FALSE
INVARIANTS EveryActivityReturned
PROPERTIES StopsEventually StopsPromptly RunReturns
CHECK_DEADLOCK FALSE
