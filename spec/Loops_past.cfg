SPECIFICATION LiveSpec
CONSTANTS
  Producers = {"retrieve", "hstore"}
  Others = {"includer"}
  Cap = 1
  GenesisInFuture = FALSE
  DelayIgnoresCancel = FALSE
  SendIgnoresCancel = FALSE
PROPERTIES StopsEventually StopsPromptly
CHECK_DEADLOCK FALSE
