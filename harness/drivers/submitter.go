package drivers

import (
	logging "github.com/ipfs/go-log/v2"
	proxy "github.com/evstack/ev-node/da/jsonrpc"
	coreda "github.com/evstack/ev-node/core/da"
	"strings"
	"context"
	"errors"
	"fmt"
	"math/rand"
	"sync"
	"testing/synctest"
	"time"

	"verif/harness/world"
)

// subRun drives one sequencer node: production steps are taken by the driver, while the real
// HeaderSubmissionLoop, DataSubmissionLoop and DAIncluderLoop run unmodified in virtual time
// against the scripted DA double (C06, C07, C08).
type subRun struct {
	lateLoop string
	c       *Ctx
	w       *world.World
	n       *world.Node
	ctx     context.Context
	cancel  context.CancelFunc
	wg      *sync.WaitGroup
	mu      sync.Mutex
	crashed bool
	nodeErr string
	limit   uint64
	seedTx  int
}

const daBlockTime = time.Second

func newSubRun(c *Ctx, run string, ih uint64, limit uint64, cfg world.F) *subRun {
	if cfg == nil {
		cfg = world.F{}
	}
	cfg["ih"] = int(ih)
	cfg["driver"] = "submitter"
	cfg["limit"] = int(limit)
	c.Tr.Reset(run, cfg)
	w := world.NewWorld(c.Tr, ih, world.T0)
	n := w.NewNode(world.NodeOpts{Name: "seq", Aggregator: true, MaxPending: limit, DABlockTime: daBlockTime, BlockTime: 100 * time.Millisecond, MempoolTTL: 2})
	subRunCount++
	if subRunCount%3 == 0 {
		// every third run: the node reaches the DA double through the JSON-RPC client's own logic (size filter,
		// error translation) with a small blob-size limit; errors lose their identity as on the wire
		n.DAOverride = proxiedDA(w.DA, 700)
	}
	if subRunCount%2 == 0 && n.KV != nil {
		n.KV.Yield = 4 // every other run: durable writes are scheduling points (the other loops run in between)
	}
	return &subRun{c: c, w: w, n: n, limit: limit}
}

var subRunCount int

func (s *subRun) loop(name string, f func(ctx context.Context)) {
	s.wg.Add(1)
	ctx, cancel := s.ctx, s.cancel
	go func() {
		defer s.wg.Done()
		defer func() {
			if r := recover(); r != nil {
				if cs, ok := r.(world.CrashSentinel); ok {
					s.mu.Lock()
					first := !s.crashed
					s.crashed = true
					s.mu.Unlock()
					if first {
						s.c.Tr.Emit("Crash", world.F{"node": "seq", "at": cs.At, "during": name})
					}
					cancel()
					return
				}
				s.c.Tr.Emit("Panic", world.F{"node": "seq", "where": name, "msg": fmt.Sprint(r)})
				cancel()
				return
			}
			s.c.Tr.Emit("LoopRet", world.F{"node": "seq", "name": name})
		}()
		f(ctx)
	}()
}

func (s *subRun) start() error {
	err := s.n.Start(context.Background())
	if err != nil {
		s.n.Obs("restart")
		return err
	}
	s.ctx, s.cancel = context.WithCancel(context.Background())
	s.wg = &sync.WaitGroup{}
	s.mu.Lock()
	s.crashed, s.nodeErr = false, ""
	s.mu.Unlock()
	m := s.n.M
	errCh := make(chan error, 1)
	// lateLoop: that loop's goroutine gets going only after the others have been through their first round (goroutine
	// start-up order and delay are the scheduler's choice); one shot
	late := func(name string, f func(ctx context.Context)) func(ctx context.Context) {
		if s.lateLoop != name {
			return f
		}
		s.lateLoop = ""
		return func(ctx context.Context) {
			select {
			case <-time.After(daBlockTime * 5 / 2):
			case <-ctx.Done():
				return
			}
			f(ctx)
		}
	}
	s.loop("HeaderSubmissionLoop", late("HeaderSubmissionLoop", func(ctx context.Context) { m.HeaderSubmissionLoop(ctx) }))
	s.loop("DataSubmissionLoop", late("DataSubmissionLoop", func(ctx context.Context) { m.DataSubmissionLoop(ctx) }))
	s.loop("DAIncluderLoop", func(ctx context.Context) { m.DAIncluderLoop(ctx, errCh) })
	ctx, cancel := s.ctx, s.cancel
	s.wg.Add(1)
	go func() {
		defer s.wg.Done()
		select {
		case err := <-errCh:
			s.mu.Lock()
			s.nodeErr = err.Error()
			s.mu.Unlock()
			s.c.Tr.Emit("NodeErr", world.F{"node": "seq", "err": trunc(err.Error())})
			cancel()
		case <-ctx.Done():
		}
	}()
	synctest.Wait()
	s.n.Obs("restart")
	return nil
}

func (s *subRun) down() bool {
	s.mu.Lock()
	defer s.mu.Unlock()
	return s.crashed || s.nodeErr != "" || s.n.M == nil
}

func (s *subRun) stop(clean bool) {
	if s.n.M == nil {
		return
	}
	s.cancel()
	s.wg.Wait()
	if clean {
		if err := s.n.M.SaveCache(); err != nil {
			s.c.Tr.Emit("SaveCacheErr", world.F{"node": "seq", "err": trunc(err.Error())})
		}
	}
	s.c.Tr.Emit("Stop", world.F{"node": "seq", "clean": clean})
	s.n.M = nil
}

// reapDead notices a crash (fuse) or node error raised inside a loop and takes the process down.
func (s *subRun) reapDead() {
	s.mu.Lock()
	dead := (s.crashed || s.nodeErr != "") && s.n.M != nil
	s.mu.Unlock()
	if dead {
		s.cancel()
		s.wg.Wait()
		s.c.Tr.Emit("Stop", world.F{"node": "seq", "clean": false})
		s.n.M = nil
	}
}

func (s *subRun) height() int {
	s.c.Tr.Mute()
	defer s.c.Tr.Unmute()
	if s.n.Store == nil {
		return 0
	}
	h, _ := s.n.Store.Height(context.Background())
	return int(h)
}

// produce takes one production step. kind: none (empty batch) or a tx kind name.
func (s *subRun) produce(kind string) {
	if s.down() {
		return
	}
	h0 := s.producePre(kind)
	s.produceStep()
	s.producePost(h0)
}

func (s *subRun) producePre(kind string) int {
	h0 := s.height()
	if uint64(h0) >= s.w.Genesis.InitialHeight { // the first block is the pre-built genesis block
		lt := 0
		s.c.Tr.Mute()
		if sh, _, err := s.n.Store.GetBlockData(context.Background(), uint64(h0)); err == nil {
			lt = world.Ms(sh.Time())
		}
		s.c.Tr.Unmute()
		if kind == "none" {
			s.n.SeqD.Script = append(s.n.SeqD.Script, world.SeqReply{Kind: "empty", TsMs: lt + 1000})
		} else {
			b := []byte("tx-" + kind)
			if strings.HasPrefix(kind, "HUGE") { // a transaction that makes its block's data blob larger than the DA client's limit
				b = append(b, []byte(strings.Repeat("x", 900))...)
			}
			s.w.IDs.Name(b, kind)
			s.n.SeqD.Script = append(s.n.SeqD.Script, world.SeqReply{Kind: "batch", Txs: [][]byte{b}, TsMs: lt + 1000})
		}
	}
	ph, pd := s.n.M.VerifPendingCounts()
	s.c.Tr.Emit("StepBegin", world.F{"node": "seq", "pendH": int(ph), "pendD": int(pd), "limit": int(s.limit), "height": h0})
	return h0
}

func (s *subRun) produceStep() {
	err := s.n.Step(context.Background())
	if err != nil && !errors.Is(err, world.ErrCrashed) {
		s.c.Tr.Emit("Halt", world.F{"node": "seq"})
	}
}

func (s *subRun) producePost(h0 int) {
	h1 := s.height()
	if h1 == h0 {
		// nothing produced: drop the reply that was queued for this step, if it was not consumed
		if r := s.n.SeqD.Remaining(); r > 0 {
			s.n.SeqD.Script = s.n.SeqD.Script[:len(s.n.SeqD.Script)-r]
		}
	}
	s.c.Tr.Emit("StepEnd", world.F{"node": "seq", "h0": h0, "h1": h1})
	synctest.Wait()
	s.reapDead()
	s.n.Obs("produce")
}

// produceStalled takes a production step whose execution is parked in the execution layer while
// virtual time passes (the submission loops tick in the middle of the step: after the early
// save, before the block is committed); the execution then fails or succeeds.
func (s *subRun) produceStalled(kind string, fail bool) {
	if s.down() {
		return
	}
	gate := make(chan struct{})
	s.n.Exec.Gate = gate
	if fail {
		s.n.Exec.FailNext = 1
	}
	h0 := s.producePre(kind)
	done := make(chan struct{})
	go func() {
		defer close(done)
		s.produceStep()
	}()
	synctest.Wait() // the step is parked inside ExecuteTxs
	time.Sleep(2 * daBlockTime)
	synctest.Wait()
	s.n.Exec.Gate = nil
	close(gate)
	<-done
	s.producePost(h0)
}

// tick advances virtual time by one DA block time (both submission loops tick).
func (s *subRun) tick() {
	time.Sleep(daBlockTime)
	synctest.Wait()
	s.reapDead()
	s.n.Obs("tick")
}

// outcome maps a model reply (n blobs held afterwards, acknowledged or not) onto the DA double's script.
func outcome(n int, ack bool, rng *rand.Rand) string {
	switch {
	case n == 0:
		return []string{"timeout", "mempool", "toobig", "err", "err"}[rng.Intn(5)]
	case ack:
		return fmt.Sprintf("prefix:%d", n) // n >= number of blobs means all
	default:
		return fmt.Sprintf("acklost:%d", n)
	}
}

// settle: the DA layer accepts and acknowledges everything; time passes; production continues.
func (s *subRun) settle(extraBlocks int, idle bool) {
	s.n.KV.Disarm()
	s.w.DA.SubmitScript = nil
	s.w.DA.Default = "ok"
	s.n.Exec.FailFinal, s.n.Exec.FailNext = 0, 0
	s.c.Tr.Emit("Settle", world.F{"node": "seq"})
	if s.down() {
		if s.n.M != nil {
			s.stop(false)
		}
		if s.start() != nil {
			s.c.Tr.Emit("Quiesce", world.F{"node": "seq", "up": false, "h0": 0, "h1": 0, "want": extraBlocks})
			return
		}
	}
	h0 := s.height()
	for i := 0; i < extraBlocks+6; i++ {
		if s.down() { // a fault injected before the settle phase may only surface now: restart once more
			if s.n.M != nil {
				s.stop(false)
			}
			if s.start() != nil {
				break
			}
		}
		if i < extraBlocks+3 {
			k := "none"
			if !idle {
				s.seedTx++
				k = fmt.Sprintf("s%d", s.seedTx)
			}
			s.produce(k)
		}
		s.tick()
		s.tick()
		s.tick()
	}
	for i := 0; i < 12; i++ {
		s.tick()
	}
	s.n.Obs("settled")
	s.c.Tr.Emit("Quiesce", world.F{"node": "seq", "up": !s.down(), "h0": h0, "h1": s.height(), "want": extraBlocks})
}

func (s *subRun) finish() {
	if s.n.M != nil {
		s.stop(false)
	}
	s.w.Close()
}

// RunSubmitBehaviour replays one Submitter.tla behaviour.
func RunSubmitBehaviour(c *Ctx, name string, toks []Tok, ih uint64, limit uint64) {
	rng := rand.New(rand.NewSource(c.Seed + int64(len(name))*131))
	synctest.Run(func() {
		s := newSubRun(c, fmt.Sprintf("beh/ih%d/L%d/%s", ih, limit, name), ih, limit, world.F{"src": "model"})
		defer s.finish()
		if s.start() != nil {
			return
		}
		for _, t := range toks {
			switch t.S("a") {
			case "produce":
				k := t.S("k")
				if k == "refused" {
					k = "none"
				}
				s.produce(k)
			case "replyH", "replyD":
				s.w.DA.SubmitScript = append(s.w.DA.SubmitScript, outcome(t.I("n"), t.S("r") == "ack", rng))
			case "tickH", "tickD":
				s.tick()
			case "crash":
				if !s.down() {
					s.stop(false)
				}
			case "stop":
				if !s.down() {
					s.stop(true)
				}
			case "restart":
				if s.n.M != nil {
					s.stop(rng.Intn(2) == 0)
				}
				s.start()
			}
		}
		s.settle(int(limit)+1, false)
		c.Count("behaviours", 1)
	})
}

// RunSubmitScenarios: seeded fault sequences, idle chains, limits, initial heights, crash points
// (write fuse inside the bookkeeping after an acceptance and inside the inclusion step).
func RunSubmitScenarios(c *Ctx) {
	rng := rand.New(rand.NewSource(c.Seed*13 + 7))
	kinds := []string{"ok", "ok", "prefix:1", "prefix:2", "timeout", "mempool", "toobig", "err", "acklost:9", "acklost:1", "cancel"}
	reps := 12
	if c.Thorough() {
		reps = 60
	}
	for _, ih := range []uint64{1, 3} {
		for _, limit := range []uint64{0, 1, 2, 3} {
			// idle chain: only empty blocks, DA accepts everything
			synctest.Run(func() {
				s := newSubRun(c, fmt.Sprintf("idle/ih%d/L%d", ih, limit), ih, limit, world.F{"src": "idle"})
				defer s.finish()
				if s.start() != nil {
					return
				}
				for i := 0; i < 8; i++ {
					s.produce("none")
					s.tick()
				}
				s.settle(int(limit)+1, true)
				c.Count("scenarios", 1)
			})
			// the loops tick in the middle of a production step (execution stalled), which then fails / succeeds
			for _, fail := range []bool{true, false} {
				for _, kind := range []string{"none", "a", "none-notick", "a-notick"} {
					synctest.Run(func() {
						s := newSubRun(c, fmt.Sprintf("execstall/ih%d/L%d/%v/%s", ih, limit, fail, kind), ih, limit, world.F{"src": "execstall"})
						tickBefore := true
						if len(kind) > 7 {
							kind = kind[:len(kind)-7]
							tickBefore = false
						}
						defer s.finish()
						if s.start() != nil {
							return
						}
						s.produce("none")
						s.tick()
						s.produce("none")
						if tickBefore {
							s.tick()
						}
						s.produceStalled(kind, fail)
						s.tick()
						if s.down() {
							if s.n.M != nil {
								s.stop(false)
							}
							s.start()
						}
						s.settle(int(limit)+1, kind == "none")
						c.Count("scenarios", 1)
					})
				}
			}
			// a DA outage that outlasts a whole submission call (all its attempts) while the limit is reached: nothing
			// changes on the node's side in the meantime; when the DA layer accepts again, production resumes
			if limit >= 1 {
				for _, outage := range []string{"err", "timeout", "mempool"} {
					synctest.Run(func() {
						s := newSubRun(c, fmt.Sprintf("longoutage/ih%d/L%d/%s", ih, limit, outage), ih, limit, world.F{"src": "longoutage"})
						defer s.finish()
						if s.start() != nil {
							return
						}
						s.produce("none")
						s.tick()
						s.tick()
						s.w.DA.Default = outage
						for i := 0; i < int(limit)+1; i++ {
							s.seedTx++
							s.produce(fmt.Sprintf("p%d", s.seedTx))
						}
						for i := 0; i < 100 && !s.down(); i++ {
							s.tick()
						}
						s.settle(int(limit)+1, false)
						c.Count("scenarios", 1)
					})
				}
			}
			// a block whose data is larger than what the DA client accepts, between blocks that fit (the node reaches the DA
			// double through the JSON-RPC client's own logic): everything in front of it is submitted and included, nothing
			// behind it is ever reported as submitted or included
			if limit == 0 {
				synctest.Run(func() {
					s := newSubRun(c, fmt.Sprintf("oversize/ih%d", ih), ih, limit, world.F{"src": "oversize"})
					defer s.finish()
					s.n.DAOverride = proxiedDA(s.w.DA, 700)
					if s.start() != nil {
						return
					}
					s.produce("none")
					s.produce("a")
					hugeH := s.height() + 1
					s.produce("HUGE")
					s.produce("b")
					s.produce("none")
					for i := 0; i < 12 && !s.down(); i++ {
						s.tick()
					}
					s.c.Tr.Emit("OversizeEnd", world.F{"node": "seq", "huge": hugeH, "up": !s.down()})
					c.Count("scenarios", 1)
				})
			}
			// submissions that are never answered (requests swallowed by a short outage) while the limit is reached: the
			// node gives such a call up after its own deadline, sends again, and production resumes
			if limit >= 1 {
				synctest.Run(func() {
					s := newSubRun(c, fmt.Sprintf("hung/ih%d/L%d", ih, limit), ih, limit, world.F{"src": "hung"})
					defer s.finish()
					if s.start() != nil {
						return
					}
					s.produce("none")
					s.tick()
					s.tick()
					s.w.DA.HangUntil = time.Now().Add(2 * daBlockTime)
					for i := 0; i < int(limit)+1; i++ {
						s.seedTx++
						s.produce(fmt.Sprintf("p%d", s.seedTx))
					}
					for i := 0; i < 4 && !s.down(); i++ {
						s.tick()
					}
					time.Sleep(90 * time.Second) // longer than the node's deadline for one submission call
					synctest.Wait()
					s.reapDead()
					s.settle(int(limit)+1, false)
					c.Count("scenarios", 1)
				})
			}
			// a DA layer that acknowledges only a prefix of a submission and then fails for longer than one
			// submission call keeps retrying: what it acknowledged must stop counting against the limit
			if limit >= 2 {
				for _, k := range []int{1, int(limit) - 1} {
					synctest.Run(func() {
						s := newSubRun(c, fmt.Sprintf("partialoutage/ih%d/L%d/k%d", ih, limit, k), ih, limit, world.F{"src": "partialoutage"})
						defer s.finish()
						if s.start() != nil {
							return
						}
						s.produce("none")
						s.tick()
						s.tick()
						s.w.DA.Default = "err"
						for i := 0; i < int(limit); i++ {
							s.seedTx++
							s.produce(fmt.Sprintf("p%d", s.seedTx))
						}
						s.w.DA.SubmitScript = []string{fmt.Sprintf("prefix:%d", k), fmt.Sprintf("prefix:%d", k)}
						for i := 0; i < 45 && !s.down(); i++ {
							s.tick()
						}
						s.seedTx++
						s.produce(fmt.Sprintf("p%d", s.seedTx))
						s.tick()
						s.settle(int(limit)+1, false)
						c.Count("scenarios", 1)
					})
				}
			}
			for r := 0; r < reps; r++ {
				synctest.Run(func() {
					s := newSubRun(c, fmt.Sprintf("faults/ih%d/L%d/%d", ih, limit, r), ih, limit, world.F{"src": "faults"})
					defer s.finish()
					if s.start() != nil {
						return
					}
					n := 4 + rng.Intn(6)
					fuseBudget := 2
					for i := 0; i < n; i++ {
						for j := rng.Intn(3); j >= 0; j-- {
							k := []string{"none", "a", "a", "b", "none", "BIG-" + strings.Repeat("x", 300)}[rng.Intn(6)]
							s.produce(k)
						}
						for j := rng.Intn(3); j > 0; j-- {
							s.w.DA.SubmitScript = append(s.w.DA.SubmitScript, kinds[rng.Intn(len(kinds))])
						}
						if rng.Intn(6) == 0 {
							s.n.Exec.FailFinal = 1
						}
						if rng.Intn(5) == 0 && fuseBudget > 0 && !s.down() {
							fuseBudget--
							s.n.KV.Arm(rng.Intn(5))
						}
						s.tick()
						s.n.KV.Disarm()
						if rng.Intn(3) == 0 {
							s.tick()
						}
						if s.down() || rng.Intn(7) == 0 {
							if s.n.M != nil {
								s.stop(rng.Intn(2) == 0)
							}
							s.start()
						}
					}
					s.settle(int(limit)+1, false)
					c.Count("scenarios", 1)
				})
			}
		}
	}
}

// RunSubmitCrashEnum: the process dies at every durable-write boundary of a submission round (the fuse counts the
// writes of all loops of that round: header bookkeeping, data bookkeeping, inclusion), for the first round after
// start and for a later one, then restarts on the same storage and has to get everything submitted and included.
func RunSubmitCrashEnum(c *Ctx) {
	type pat struct {
		name   string
		first  []string // blocks produced before the first round
		second []string // blocks produced before the second round (nil: crash in the first round)
		late   string   // a loop that starts late (the process is killed after the first round of the others)
	}
	pats := []pat{
		{"first", []string{"a", "none", "b"}, nil, ""},
		{"first-txs-only", []string{"a", "b"}, nil, ""},
		{"second", []string{"a"}, []string{"b", "none", "c"}, ""},
		// one of the two submission loops is still starting up while the other completes its first round
		{"late-data", []string{"a", "none", "b"}, nil, "DataSubmissionLoop"},
		{"late-header", []string{"a", "none", "b"}, nil, "HeaderSubmissionLoop"},
	}
	for _, ih := range []uint64{1, 3} {
		for _, limit := range []uint64{0, 3} {
			for _, pt := range pats {
				run := func(k int, name string) (writes int) {
					synctest.Run(func() {
						s := newSubRun(c, name, ih, limit, world.F{"src": "crashenum"})
						defer s.finish()
						s.lateLoop = pt.late
						if s.start() != nil {
							return
						}
						for _, b := range pt.first {
							s.produce(b)
						}
						if pt.second != nil {
							s.tick()
							for _, b := range pt.second {
								s.produce(b)
							}
						}
						w0 := s.n.KV.Writes()
						if k >= 0 {
							s.n.KV.Arm(k)
						}
						s.tick() // a round takes more than one instant (the DA call has latency): two periods cover it
						if !s.down() {
							s.tick()
						}
						s.n.KV.Disarm()
						writes = s.n.KV.Writes() - w0
						if pt.late != "" && k < 0 && !s.down() {
							s.stop(false) // killed before the late loop has run at all
						}
						if s.down() {
							if s.n.M != nil {
								s.stop(false)
							}
							s.start()
						}
						s.settle(int(limit)+1, false)
						c.Count("crashruns", 1)
					})
					return
				}
				base := fmt.Sprintf("crash/ih%d/L%d/%s", ih, limit, pt.name)
				W := run(-1, base+"/measure")
				for k := 0; k <= W; k++ {
					run(k, fmt.Sprintf("%s/k%d", base, k))
				}
			}
		}
	}
}

// proxiedDA puts the real JSON-RPC client (da/jsonrpc API: client-side size filter, error handling) in front
// of the DA double without a network: the RPC stubs call the double directly and flatten its errors to their
// message, which is all that crosses the wire.
func proxiedDA(d *world.DADouble, maxBlob uint64) coreda.DA {
	api := &proxy.API{Logger: logging.Logger("verif-proxied-da"), MaxBlobSize: maxBlob}
	flat := func(err error) error {
		if err == nil {
			return nil
		}
		return errors.New(err.Error())
	}
	api.Internal.Get = func(ctx context.Context, ids []coreda.ID, ns []byte) ([]coreda.Blob, error) {
		r, err := d.Get(ctx, ids, ns)
		return r, flat(err)
	}
	api.Internal.GetIDs = func(ctx context.Context, h uint64, ns []byte) (*coreda.GetIDsResult, error) {
		r, err := d.GetIDs(ctx, h, ns)
		return r, flat(err)
	}
	api.Internal.GetProofs = func(ctx context.Context, ids []coreda.ID, ns []byte) ([]coreda.Proof, error) {
		r, err := d.GetProofs(ctx, ids, ns)
		return r, flat(err)
	}
	api.Internal.Commit = func(ctx context.Context, blobs []coreda.Blob, ns []byte) ([]coreda.Commitment, error) {
		r, err := d.Commit(ctx, blobs, ns)
		return r, flat(err)
	}
	api.Internal.Validate = func(ctx context.Context, ids []coreda.ID, proofs []coreda.Proof, ns []byte) ([]bool, error) {
		r, err := d.Validate(ctx, ids, proofs, ns)
		return r, flat(err)
	}
	api.Internal.Submit = func(ctx context.Context, blobs []coreda.Blob, gp float64, ns []byte) ([]coreda.ID, error) {
		r, err := d.Submit(ctx, blobs, gp, ns)
		return r, flat(err)
	}
	api.Internal.SubmitWithOptions = func(ctx context.Context, blobs []coreda.Blob, gp float64, ns []byte, opts []byte) ([]coreda.ID, error) {
		r, err := d.SubmitWithOptions(ctx, blobs, gp, ns, opts)
		return r, flat(err)
	}
	api.Internal.GasMultiplier = func(ctx context.Context) (float64, error) { return d.GasMultiplier(ctx) }
	api.Internal.GasPrice = func(ctx context.Context) (float64, error) { return d.GasPrice(ctx) }
	return api
}
