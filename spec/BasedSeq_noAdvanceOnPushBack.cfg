SPECIFICATION Spec
CONSTANTS
  DAContent <- MC_DA
  Limits = {3, 4, 6}
  MaxCalls = 5
  Drift = 3
  AdvanceOnPushBack = FALSE
  StopOnFuture = TRUE
  CarryBlocksScan = TRUE
INVARIANTS DAOrderExactlyOnce SizeBound
CHECK_DEADLOCK FALSE
