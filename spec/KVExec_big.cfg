SPECIFICATION Spec
CONSTANTS
  Keys = {"a", "b"}
  Vals = {"1", "2"}
  MaxOps = 4
  InitRecomputes = FALSE
  FinalInRoot = FALSE
INVARIANTS EqualHistoriesEqualRoots InitIdempotent
CHECK_DEADLOCK FALSE
