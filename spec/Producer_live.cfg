SPECIFICATION LiveSpec
CONSTANTS
  IH = 1
  MaxH = 3
  MaxReplies = 3
  MaxCrashes = 1
  TxLists <- MC_TxLists1
  GuardEmpty = TRUE
  StateFirst = TRUE
  Rec = FALSE
PROPERTIES Progress
CHECK_DEADLOCK FALSE
