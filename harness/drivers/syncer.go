package drivers

import (
	kvexecutor "github.com/evstack/ev-node/apps/testapp/kv"
	coreexecutor "github.com/evstack/ev-node/core/execution"
	dssync "github.com/ipfs/go-datastore/sync"
	ds "github.com/ipfs/go-datastore"
	"context"
	"errors"
	"fmt"
	"math/rand"
	"sync"
	"testing/synctest"
	"time"

	"google.golang.org/protobuf/proto"

	"github.com/evstack/ev-node/block"
	"github.com/evstack/ev-node/types"

	"verif/harness/world"
)

// syncRun drives one full node (real SyncLoop, RetrieveLoop, store-retrieve loops and
// DAIncluderLoop in a synctest bubble) fed with the chain of a real sequencer node.
type syncRun struct {
	c       *Ctx
	w       *world.World
	seq     *world.Node
	full    *world.Node
	ih      uint64
	top     uint64
	kv      bool // built on the reference key-value execution layer
	// every p2pFaultEvery-th P2P delivery is preceded by one failing read of the P2P store (0 = never)
	p2pFaultEvery int
	p2pCount      int
	// orderlyOnErr: when the node halts with a fatal error the driver does what FullNode.Run does (orderly shutdown)
	orderlyOnErr bool
	// quietObs: no observation after every single delivery (long chains)
	quietObs bool
	cancel  context.CancelFunc
	ctx     context.Context
	wg      *sync.WaitGroup
	mu      sync.Mutex
	crashed bool
	nodeErr string
	daH     uint64 // next DA height to place blobs at
	p2pH    uint64 // next height the P2P header store expects
	p2pD    uint64
	loops   int
	placed  map[string]bool // "hdr/3": the item is on the DA layer or in the P2P store (a persistent source)
	onP2P   map[string]bool
}

func evKey(kind string, h uint64) string { return fmt.Sprintf("%s/%d", kind, h) }

// buildChain produces the proposer chain with the real producer: block IH is the (empty)
// genesis block, the following blocks carry the given tx lists.
// syncKVMode: the next run is built on the reference key-value execution layer (apps/testapp/kv) instead of the
// execution double's own state machine: transactions are "key=value" (unique keys per block, so that a state root
// stands for exactly one history), every node has its own executor database that survives the node's crashes,
// and a restarted node gets a new executor instance on that database.
var syncKVMode bool

func kvBackend(e *world.ExecDouble) {
	db := dssync.MutexWrap(ds.NewMapDatastore())
	e.Reopen = func() coreexecutor.Executor { return kvexecutor.VerifNewKVExecutor(db) }
	e.Fresh = func() coreexecutor.Executor { return kvexecutor.VerifNewKVExecutor(dssync.MutexWrap(ds.NewMapDatastore())) }
}

func (s *syncRun) buildChain(shape [][]string) {
	s.c.Tr.Emit("Phase", world.F{"name": "produce"})
	s.seq = s.w.NewNode(world.NodeOpts{Name: "seq", Aggregator: true})
	s.kv = syncKVMode
	if s.kv {
		kvBackend(s.seq.Exec)
	}
	s.seq.KV.Quiet = true
	if err := s.seq.Start(context.Background()); err != nil {
		panic(err)
	}
	s.seq.Step(context.Background())
	for bi, txs := range shape {
		var bz [][]byte
		for _, nm := range txs {
			b := []byte("tx-" + nm)
			if nm == "EMPTY" {
				b = []byte{}
			}
			if s.kv && nm != "EMPTY" {
				b = []byte(fmt.Sprintf("%s%d=%d", nm, bi, bi))
			}
			s.w.IDs.Name(b, nm)
			bz = append(bz, b)
		}
		kind := "batch"
		if len(bz) == 0 {
			kind = "empty"
		}
		h, _ := s.seq.Store.Height(context.Background())
		sh, _, _ := s.seq.Store.GetBlockData(context.Background(), h)
		s.seq.SeqD.Script = append(s.seq.SeqD.Script, world.SeqReply{Kind: kind, Txs: bz, TsMs: world.Ms(sh.Time()) + 1000})
		if err := s.seq.Step(context.Background()); err != nil {
			panic(fmt.Sprintf("producer step failed while building the reference chain: %v", err))
		}
	}
	h, _ := s.seq.Store.Height(context.Background())
	s.top = h
	// the reference chain, as the monitor's constant
	blocks := []world.F{}
	for x := s.ih; x <= s.top; x++ {
		sh, d, err := s.seq.Store.GetBlockData(context.Background(), x)
		if err != nil {
			panic(err)
		}
		var sg []byte
		if p, e := s.seq.Store.GetSignature(context.Background(), x); e == nil {
			sg = *p
		}
		blocks = append(blocks, s.seq.BlockRec(x, sh, d, sg))
	}
	s.c.Tr.Emit("Chain", world.F{"blocks": blocks, "top": int(s.top), "ih": int(s.ih)})
	s.daH = 1
	s.p2pH, s.p2pD = s.ih, s.ih
	s.placed = map[string]bool{}
	s.onP2P = map[string]bool{}
}

func (s *syncRun) loop(name string, f func(ctx context.Context)) {
	s.wg.Add(1)
	s.loops++
	ctx := s.ctx
	cancel := s.cancel
	go func() {
		defer s.wg.Done()
		defer func() {
			if r := recover(); r != nil {
				if cs, ok := r.(world.CrashSentinel); ok {
					s.mu.Lock()
					first := !s.crashed
					s.crashed = true
					s.mu.Unlock()
					if first {
						s.c.Tr.Emit("Crash", world.F{"node": "full", "at": cs.At, "during": name})
					}
					cancel()
					return
				}
				s.c.Tr.Emit("Panic", world.F{"node": "full", "where": name, "msg": fmt.Sprint(r)})
				cancel()
				return
			}
			s.c.Tr.Emit("LoopRet", world.F{"node": "full", "name": name})
		}()
		f(ctx)
	}()
}

// startFull starts the full node process on its current image and launches the loops
// exactly as FullNode.Run does for a non-aggregator.
func (s *syncRun) startFull() error {
	if err := s.full.Start(context.Background()); err != nil {
		s.full.Obs("restart")
		return err
	}
	s.ctx, s.cancel = context.WithCancel(context.Background())
	s.wg = &sync.WaitGroup{}
	s.crashed = false
	m := s.full.M
	errCh := make(chan error, 2)
	s.loop("RetrieveLoop", func(ctx context.Context) { m.RetrieveLoop(ctx) })
	s.loop("HeaderStoreRetrieveLoop", func(ctx context.Context) { m.HeaderStoreRetrieveLoop(ctx) })
	s.loop("DataStoreRetrieveLoop", func(ctx context.Context) { m.DataStoreRetrieveLoop(ctx) })
	s.loop("SyncLoop", func(ctx context.Context) { m.SyncLoop(ctx, errCh) })
	s.loop("DAIncluderLoop", func(ctx context.Context) { m.DAIncluderLoop(ctx, errCh) })
	ctx, cancel := s.ctx, s.cancel
	s.wg.Add(1)
	go func() {
		defer s.wg.Done()
		select {
		case err := <-errCh:
			s.mu.Lock()
			s.nodeErr = err.Error()
			s.mu.Unlock()
			s.c.Tr.Emit("NodeErr", world.F{"node": "full", "err": trunc(err.Error())})
			cancel()
		case <-ctx.Done():
		}
	}()
	synctest.Wait()
	s.full.Obs("restart")
	return nil
}

func trunc(s string) string {
	if len(s) > 160 {
		return s[:160]
	}
	return s
}

// stopFull cancels the loops and waits for them. clean => caches are saved (orderly shutdown).
func (s *syncRun) stopFull(clean bool) {
	if s.full.M == nil {
		return
	}
	s.cancel()
	s.wg.Wait()
	if clean {
		if err := s.full.M.SaveCache(); err != nil {
			s.c.Tr.Emit("SaveCacheErr", world.F{"node": "full", "err": trunc(err.Error())})
		}
		s.c.Tr.Emit("Stop", world.F{"node": "full", "clean": true})
	} else {
		s.c.Tr.Emit("Stop", world.F{"node": "full", "clean": false})
	}
	s.full.M = nil
}

func (s *syncRun) isDown() bool {
	s.mu.Lock()
	defer s.mu.Unlock()
	return s.crashed || s.nodeErr != "" || s.full.M == nil
}

func (s *syncRun) headerOf(h uint64) *types.SignedHeader {
	sh, _, err := s.seq.Store.GetBlockData(context.Background(), h)
	if err != nil {
		panic(err)
	}
	return sh
}

func (s *syncRun) dataOf(h uint64) *types.Data {
	_, d, err := s.seq.Store.GetBlockData(context.Background(), h)
	if err != nil {
		panic(err)
	}
	return d
}

// HeaderBlob / DataBlob are the bytes the proposer's submitter puts on the DA layer.
func HeaderBlob(sh *types.SignedHeader) []byte {
	p, err := sh.ToProto()
	if err != nil {
		panic(err)
	}
	bz, err := proto.Marshal(p)
	if err != nil {
		panic(err)
	}
	return bz
}

func (s *syncRun) dataBlob(d *types.Data) []byte {
	bz, _ := d.MarshalBinary()
	sig, err := s.w.Signer.Sign(bz)
	if err != nil {
		panic(err)
	}
	sd := &types.SignedData{Data: *d, Signature: sig, Signer: types.Signer{PubKey: s.w.PropPub, Address: s.w.PropAddr}}
	out, err := sd.MarshalBinary()
	if err != nil {
		panic(err)
	}
	return out
}

// deliver hands one genuine event to the full node. via: chan | da | p2p.
func (s *syncRun) deliver(kind string, h uint64, via string) {
	if h < s.ih || h > s.top || s.isDown() {
		return
	}
	m := s.full.M
	if via == "p2p" {
		if (kind == "hdr" && h != s.p2pH) || (kind == "data" && h != s.p2pD) {
			via = "chan"
		}
	}
	if kind == "data" && len(s.dataOf(h).Txs) == 0 && via != "p2p" {
		return // empty blocks have no data event on DA / sync channel
	}
	dah := 0
	switch via {
	case "chan":
		s.c.Tr.Emit("Deliver", world.F{"node": "full", "kind": kind, "h": int(h), "via": via, "dah": int(s.daH)})
		if kind == "hdr" {
			m.VerifHeaderInCh() <- block.NewHeaderEvent{Header: s.headerOf(h), DAHeight: s.daH}
		} else {
			m.VerifDataInCh() <- block.NewDataEvent{Data: s.dataOf(h), DAHeight: s.daH}
		}
	case "da":
		var blob []byte
		if kind == "hdr" {
			blob = HeaderBlob(s.headerOf(h))
		} else {
			blob = s.dataBlob(s.dataOf(h))
		}
		dah = int(s.daH)
		s.placed[evKey(kind, h)] = true
		s.c.Tr.Emit("Deliver", world.F{"node": "full", "kind": kind, "h": int(h), "via": via, "dah": dah})
		s.w.DA.Place(s.daH, blob)
		s.w.DA.SetCurrent(s.daH)
		s.daH++
		select {
		case m.VerifRetrieveCh() <- struct{}{}:
		default:
		}
	case "p2p":
		s.c.Tr.Emit("Deliver", world.F{"node": "full", "kind": kind, "h": int(h), "via": via, "dah": 0})
		s.placed[evKey(kind, h)] = true
		s.onP2P[evKey(kind, h)] = true
		s.p2pCount++
		// a failure armed earlier that the node never ran into (its cursor was already past that item) hits the
		// read of this item: the node retries on its next tick, so time has to pass here as well
		faulted := (kind == "hdr" && s.full.HStore.Armed()) || (kind == "data" && s.full.DStore.Armed())
		if faulted {
			s.c.Tr.Emit("P2PReadFault", world.F{"node": "full", "kind": kind, "h": int(h), "stale": true})
		}
		if s.p2pFaultEvery > 0 && s.p2pCount%s.p2pFaultEvery == 0 {
			faulted = true
			// the node's first read of the store for this item fails once; the item stays in the store
			s.c.Tr.Emit("P2PReadFault", world.F{"node": "full", "kind": kind, "h": int(h)})
			if kind == "hdr" {
				s.full.HStore.FailNextReads(1)
			} else {
				s.full.DStore.FailNextReads(1)
			}
		}
		if kind == "hdr" {
			s.full.HStore.AppendItem(s.headerOf(h))
			s.p2pH++
			select {
			case m.VerifHeaderStoreCh() <- struct{}{}:
			default:
			}
		} else {
			s.full.DStore.AppendItem(s.dataOf(h))
			s.p2pD++
			select {
			case m.VerifDataStoreCh() <- struct{}{}:
			default:
			}
		}
		if faulted {
			// the item is in the store; the node polls the stores again on its own block-time ticker
			synctest.Wait()
			time.Sleep(3 * time.Second)
		}
	}
	synctest.Wait()
	if s.isDown() {
		s.wg.Wait()
		if s.orderlyOnErr && !s.hasCrashed() && s.full.M != nil {
			// a fatal error (not a crash): FullNode.Run joins the workers and shuts down in an orderly way
			if err := s.full.M.SaveCache(); err != nil {
				s.c.Tr.Emit("SaveCacheErr", world.F{"node": "full", "err": trunc(err.Error())})
			}
			s.c.Tr.Emit("Stop", world.F{"node": "full", "clean": true})
		}
		s.full.M = nil
	}
	if !s.quietObs {
		s.full.Obs("deliver")
	}
}

func (s *syncRun) hasCrashed() bool { s.mu.Lock(); defer s.mu.Unlock(); return s.crashed }

// settle: no more faults. Items that are on the DA layer or in the P2P stores are NOT handed to
// the node again - it has to fetch them itself (DA rescan from its cursor, store polling), as
// after a real restart. Items that were only ever pushed through the sync channels (or never
// delivered) are placed on the DA layer now. Then the polling signals fire until quiescence.
func (s *syncRun) settle() {
	s.full.KV.Disarm()
	s.c.Tr.Emit("Settle", world.F{"node": "full"})
	if s.isDown() {
		if s.full.M != nil {
			s.stopFull(false)
		}
		s.mu.Lock()
		s.nodeErr = ""
		s.mu.Unlock()
		if err := s.startFull(); err != nil {
			s.c.Tr.Emit("Quiesce", world.F{"node": "full", "height": 0, "top": int(s.top), "up": false})
			return
		}
	}
	for h := s.ih; h <= s.top; h++ {
		for _, kind := range []string{"hdr", "data"} {
			if kind == "data" && len(s.dataOf(h).Txs) == 0 {
				continue
			}
			if s.placed[evKey(kind, h)] {
				via := "persistent-da"
				if s.onP2P[evKey(kind, h)] {
					via = "persistent-p2p"
				}
				s.c.Tr.Emit("Deliver", world.F{"node": "full", "kind": kind, "h": int(h), "via": via, "dah": 0})
				continue
			}
			s.deliver(kind, h, "da")
		}
	}
	if !s.isDown() {
		// the polling signals that the node's own tickers would send as time passes
		s.c.Tr.Emit("Signal", world.F{"node": "full", "what": "all"})
	}
	for round := 0; round < 3 && !s.isDown(); round++ {
		m := s.full.M
		for _, ch := range []chan struct{}{m.VerifRetrieveCh(), m.VerifHeaderStoreCh(), m.VerifDataStoreCh()} {
			select {
			case ch <- struct{}{}:
			default:
			}
		}
		synctest.Wait()
	}
	if s.isDown() && s.full.M != nil {
		s.wg.Wait()
		s.full.M = nil
	}
	s.full.Obs("settled")
	height := 0
	if s.full.Store != nil {
		s.c.Tr.Mute()
		x, _ := s.full.Store.Height(context.Background())
		s.c.Tr.Unmute()
		height = int(x)
	}
	s.c.Tr.Emit("Quiesce", world.F{"node": "full", "height": height, "top": int(s.top), "up": !s.isDown()})
}

// stopInFlight: a clean stop that arrives while the node is in the middle of applying a block
// (parked at a durable-write boundary) and further events are still queued in its channels.
func (s *syncRun) stopInFlight(evs [][2]any, pauseAfter int) {
	if s.isDown() {
		return
	}
	m := s.full.M
	if pauseAfter > 0 { // 0: a writer is already parked
		s.full.KV.PauseAfter(pauseAfter)
	}
	for _, e := range evs {
		kind, h := e[0].(string), e[1].(uint64)
		if kind == "data" && len(s.dataOf(h).Txs) == 0 {
			continue
		}
		var blob []byte
		if kind == "hdr" {
			blob = HeaderBlob(s.headerOf(h))
		} else {
			blob = s.dataBlob(s.dataOf(h))
		}
		s.placed[evKey(kind, h)] = true
		s.c.Tr.Emit("Deliver", world.F{"node": "full", "kind": kind, "h": int(h), "via": "da", "dah": int(s.daH)})
		s.w.DA.Place(s.daH, blob)
		s.w.DA.SetCurrent(s.daH)
		s.daH++
	}
	select {
	case m.VerifRetrieveCh() <- struct{}{}:
	default:
	}
	synctest.Wait()
	paused := s.full.KV.IsPaused()
	s.c.Tr.Emit("StopInFlight", world.F{"node": "full", "paused": paused})
	s.cancel()
	s.full.KV.Release()
	s.wg.Wait()
	if err := s.full.M.SaveCache(); err != nil {
		s.c.Tr.Emit("SaveCacheErr", world.F{"node": "full", "err": trunc(err.Error())})
	}
	// events still queued in the channels die with the process: the monitor must not count them as received
	s.c.Tr.Emit("Stop", world.F{"node": "full", "clean": false})
	s.full.M = nil
	s.mu.Lock()
	s.nodeErr = ""
	s.crashed = false
	s.mu.Unlock()
	s.startFull()
}

func (s *syncRun) finish() {
	if s.full.M != nil {
		s.stopFull(false)
	}
	s.w.Close()
}

func newSyncRun(c *Ctx, run string, ih uint64, shape [][]string, cfg world.F) *syncRun {
	if cfg == nil {
		cfg = world.F{}
	}
	cfg["ih"] = int(ih)
	cfg["driver"] = "syncer"
	c.Tr.Reset(run, cfg)
	w := world.NewWorld(c.Tr, ih, world.T0)
	s := &syncRun{c: c, w: w, ih: ih}
	s.buildChain(shape)
	s.full = w.NewNode(world.NodeOpts{Name: "full", Aggregator: false, DAStart: 1, DABlockTime: time.Second, BlockTime: 100 * time.Millisecond})
	s.full.Exec.ShareRoots(s.seq.Exec)
	if s.kv {
		kvBackend(s.full.Exec)
	}
	syncRunCount++
	if syncRunCount%2 == 0 && s.full.KV != nil {
		// every other run: the full node's datastore writes yield the processor before they land (as writes to a
		// disk do), so the loops that were just signalled run between any two durable writes of block application
		s.full.KV.Yield = 4
	}
	c.Tr.Emit("Phase", world.F{"name": "sync"})
	return s
}

var syncRunCount int

// Shapes known to the Syncer model (MCSyncer.tla); the first block of a real chain is the
// empty genesis block, which the model's shapes include as their first element.
var SyncShapes = map[string][][]string{
	"ShapeA":   {{"a"}, {"b"}},
	// a block whose transaction list contains a transaction of zero length (nothing in the node filters them)
	"ShapeZ": {{"a", "EMPTY"}, {"EMPTY", "b", "EMPTY"}},
	"ShapeDup": {{"a"}, {}, {"a"}},
	"ShapeE":   {{}, {"a"}, {}},
	"ShapeBig": {{"a"}, {}, {"a"}, {"b", "c"}, {}, {"b", "c"}},
}

// RunSyncBehaviour replays one Syncer.tla behaviour: deliveries in the model's order through
// the sync channels, clean restarts, and crashes (write fuse) inside block application.
func RunSyncBehaviour(c *Ctx, name string, toks []Tok, ih uint64, shapeName string) {
	synctest.Run(func() {
		s := newSyncRun(c, "beh/"+shapeName+"/"+name, ih, SyncShapes[shapeName], world.F{"src": "model", "shape": shapeName})
		defer s.finish()
		if err := s.startFull(); err != nil {
			return
		}
		vias := []string{"chan", "da", "p2p"}
		for i := 0; i < len(toks); i++ {
			t := toks[i]
			switch t.S("a") {
			case "deliver":
				// a crash token that follows belongs to this delivery
				if i+1 < len(toks) && toks[i+1].S("a") == "crash" {
					s.full.KV.Arm(toks[i+1].I("w"))
				}
				// a refused write that follows belongs to this delivery too: the write after the first w is refused
				if i+1 < len(toks) && toks[i+1].S("a") == "wfail" {
					s.orderlyOnErr = true
					s.full.KV.FailWrite(toks[i+1].I("w") + 1)
				}
				via := vias[(int(c.Seed)+i+len(name))%3]
				s.deliver(t.S("kind"), uint64(t.I("h")), via)
				s.full.KV.Disarm()
				s.full.KV.FailWrite(0)
			case "restart":
				if t.S("kind") == "clean" {
					if !s.isDown() {
						s.stopFull(true)
						s.startFull()
					}
				} else {
					if s.full.M != nil {
						s.stopFull(false)
					}
					s.mu.Lock()
					s.nodeErr = ""
					s.mu.Unlock()
					s.startFull()
				}
			}
		}
		s.settle()
		c.Count("behaviours", 1)
	})
}

// stopQueued: the next block b is missing only its data; header(b+1) (fetched from DA height d)
// and data(b) (fetched from DA height d+1) are queued in the sync channels at the same time, so
// SyncLoop may take them in either order; the node is stopped cleanly while it is applying
// block b (parked after the given number of durable writes) with the other event still queued.
func (s *syncRun) stopQueued(b uint64, pauseAfter int, dataFirst bool) {
	if s.isDown() || b+1 > s.top || len(s.dataOf(b).Txs) == 0 {
		return
	}
	m := s.full.M
	d := s.daH
	s.w.DA.Place(d, HeaderBlob(s.headerOf(b+1)))
	s.w.DA.Place(d+1, s.dataBlob(s.dataOf(b)))
	s.w.DA.SetCurrent(d + 1)
	s.daH = d + 2
	s.placed[evKey("hdr", b+1)] = true
	s.placed[evKey("data", b)] = true
	s.full.KV.PauseAfter(pauseAfter)
	// the loop waits in its select: whichever event is sent first it takes first. Both orders are produced - with the
	// data first the loop starts applying block b at once and the header of b+1 is the event left in the channel.
	if dataFirst {
		s.c.Tr.Emit("Deliver", world.F{"node": "full", "kind": "data", "h": int(b), "via": "queued", "dah": int(d + 1)})
		s.c.Tr.Emit("Deliver", world.F{"node": "full", "kind": "hdr", "h": int(b + 1), "via": "queued", "dah": int(d)})
		m.VerifDataInCh() <- block.NewDataEvent{Data: s.dataOf(b), DAHeight: d + 1}
		m.VerifHeaderInCh() <- block.NewHeaderEvent{Header: s.headerOf(b + 1), DAHeight: d}
	} else {
		s.c.Tr.Emit("Deliver", world.F{"node": "full", "kind": "hdr", "h": int(b + 1), "via": "queued", "dah": int(d)})
		s.c.Tr.Emit("Deliver", world.F{"node": "full", "kind": "data", "h": int(b), "via": "queued", "dah": int(d + 1)})
		m.VerifHeaderInCh() <- block.NewHeaderEvent{Header: s.headerOf(b + 1), DAHeight: d}
		m.VerifDataInCh() <- block.NewDataEvent{Data: s.dataOf(b), DAHeight: d + 1}
	}
	synctest.Wait()
	paused := s.full.KV.IsPaused()
	s.c.Tr.Emit("StopInFlight", world.F{"node": "full", "paused": paused})
	s.cancel()
	s.full.KV.Release()
	s.wg.Wait()
	if err := s.full.M.SaveCache(); err != nil {
		s.c.Tr.Emit("SaveCacheErr", world.F{"node": "full", "err": trunc(err.Error())})
	}
	s.c.Tr.Emit("Stop", world.F{"node": "full", "clean": false})
	s.full.M = nil
	s.mu.Lock()
	s.nodeErr = ""
	s.crashed = false
	s.mu.Unlock()
	s.startFull()
}

// RunSyncStopQueued runs the stop-with-queued-events scenario for every non-empty block of a few chains.
func RunSyncStopQueued(c *Ctx) {
	reps := 3
	if c.Thorough() {
		reps = 10
	}
	for _, ih := range []uint64{1, 2} {
		for _, shapeName := range []string{"ShapeA", "ShapeE", "ShapeBig", "ShapeZ"} {
			shape := SyncShapes[shapeName]
			for b := ih + 1; b < ih+uint64(len(shape)); b++ {
				for pa := 1; pa <= 3; pa++ {
					for rep := 0; rep < reps; rep++ {
						synctest.Run(func() {
							s := newSyncRun(c, fmt.Sprintf("queued/ih%d/%s/b%d/p%d/%d", ih, shapeName, b, pa, rep), ih, shape, world.F{"src": "stopqueued", "shape": shapeName})
							defer s.finish()
							if s.startFull() != nil {
								return
							}
							for h := s.ih; h < b; h++ {
								s.deliver("hdr", h, "chan")
								s.deliver("data", h, "chan")
							}
							s.deliver("hdr", b, "chan")
							s.stopQueued(b, pa, rep%2 == 1)
							s.settle()
							c.Count("stopqueued", 1)
						})
					}
				}
			}
		}
	}
}

// RunSyncHandOverStop: the sync loop is parked inside the application of a block (at a durable write) while the
// DA scan hands the rest of the chain over to it; the events wait in the channels when an orderly stop arrives
// (caches - with the DA marks the scan has set - are saved); after the restart the scan starts again from the
// persisted DA height and must hand the same blobs over again.
func RunSyncHandOverStop(c *Ctx) {
	for _, ih := range []uint64{1, 2} {
		for _, shapeName := range []string{"ShapeA", "ShapeE", "ShapeBig"} {
			for pa := 1; pa <= 3; pa++ {
				synctest.Run(func() {
					s := newSyncRun(c, fmt.Sprintf("handover/ih%d/%s/p%d", ih, shapeName, pa), ih, SyncShapes[shapeName], world.F{"src": "handover", "shape": shapeName})
					defer s.finish()
					if s.startFull() != nil {
						return
					}
					var rest [][2]any
					for h := s.ih + 1; h <= s.top; h++ {
						rest = append(rest, [2]any{"hdr", h}, [2]any{"data", h})
					}
					s.full.KV.PauseAfter(pa)
					s.c.Tr.Emit("Deliver", world.F{"node": "full", "kind": "hdr", "h": int(s.ih), "via": "chan", "dah": int(s.daH)})
					s.full.M.VerifHeaderInCh() <- block.NewHeaderEvent{Header: s.headerOf(s.ih), DAHeight: s.daH}
					synctest.Wait() // the first block is being applied: the writer is parked
					s.stopInFlight(rest, 0)
					s.settle()
					c.Count("handover", 1)
				})
			}
		}
	}
}

// RunSyncFarAhead: a long chain (several hundred blocks, every block with its own transactions) whose LAST block's
// data reaches the node first - while its chain height is still far below - followed by everything else in order:
// whatever the node does with an event that far ahead of its chain, it must end at the proposer's height.
func RunSyncFarAhead(c *Ctx) {
	for _, n := range []int{300} {
		for _, via := range []string{"chan", "da"} {
			synctest.Run(func() {
				shape := make([][]string, n)
				for i := range shape {
					if i%7 != 3 {
						shape[i] = []string{fmt.Sprintf("t%d", i)}
					}
				}
				shape[n-1] = []string{"last"}
				s := newSyncRun(c, fmt.Sprintf("farahead/n%d/%s", n, via), 1, shape, world.F{"src": "farahead", "shape": "long"})
				defer s.finish()
				if s.startFull() != nil {
					return
				}
				s.quietObs = true
				s.deliver("data", s.top, via)
				for h := s.ih; h <= s.top; h++ {
					s.deliver("hdr", h, via)
					if h != s.top {
						s.deliver("data", h, via)
					}
				}
				s.settle()
				c.Count("farahead", 1)
			})
		}
	}
}

// RunSyncWriteError: a durable write of block application is refused with an error (not a crash): the node
// halts with a fatal error, shuts down in an orderly way (caches saved), is restarted and gets every block again.
func RunSyncWriteError(c *Ctx) {
	for _, ih := range []uint64{1, 3} {
		for _, shapeName := range []string{"ShapeA", "ShapeE"} {
			shape := SyncShapes[shapeName]
			nb := len(shape) + 1
			for k := 1; k <= 3*nb; k++ {
				for _, via := range []string{"chan", "da"} {
					synctest.Run(func() {
						s := newSyncRun(c, fmt.Sprintf("writeerr/ih%d/%s/k%d/%s", ih, shapeName, k, via), ih, shape, world.F{"src": "writeerr", "shape": shapeName})
						defer s.finish()
						if s.startFull() != nil {
							return
						}
						s.orderlyOnErr = true
						s.full.KV.FailWrite(k)
						for h := s.ih; h <= s.top; h++ {
							s.deliver("hdr", h, via)
							s.deliver("data", h, via)
						}
						s.full.KV.FailWrite(0)
						s.settle()
						c.Count("writeerr", 1)
					})
				}
			}
		}
	}
}

// RunSyncCrashEnum crashes the full node at every durable-write boundary while it applies
// each block of a chain (also while it applies several blocks in one go), restarts it
// uncleanly and re-delivers in a seeded order.
func RunSyncCrashEnum(c *Ctx) {
	rng := rand.New(rand.NewSource(c.Seed + 17))
	for _, ih := range []uint64{1, 3} {
		for _, shapeName := range []string{"ShapeA", "ShapeDup", "ShapeE"} {
			shape := SyncShapes[shapeName]
			nblocks := len(shape) + 1
			// mode 0: deliver in order, crash while applying block k; mode 1: deliver everything
			// but the first block's header first (nothing applies), then that header: all apply in one go
			for mode := 0; mode < 2; mode++ {
				maxW := 3 * nblocks
				for k := 0; k <= maxW; k++ {
					for nested := -1; nested <= 3; nested++ {
						if nested >= 0 && !c.Thorough() && rng.Intn(4) != 0 {
							continue
						}
						run := fmt.Sprintf("crash/ih%d/%s/m%d/k%d/n%d", ih, shapeName, mode, k, nested)
						// every fourth configuration runs on the reference key-value execution layer with its own durable state
						kvm := shapeName == "ShapeA" && (k+mode+int(ih))%2 == 0
						if kvm {
							run = "kv-" + run
						}
						synctest.Run(func() {
							syncKVMode = kvm
							s := newSyncRun(c, run, ih, shape, world.F{"src": "crashenum", "shape": shapeName})
							syncKVMode = false
							defer s.finish()
							if s.startFull() != nil {
								return
							}
							s.full.KV.Arm(k)
							order := [][2]any{}
							if mode == 0 {
								for h := s.ih; h <= s.top; h++ {
									order = append(order, [2]any{"hdr", h}, [2]any{"data", h})
								}
							} else {
								for h := s.ih + 1; h <= s.top; h++ {
									order = append(order, [2]any{"data", h}, [2]any{"hdr", h})
								}
								order = append(order, [2]any{"data", s.ih}, [2]any{"hdr", s.ih})
							}
							via := []string{"da", "chan"}[(k+mode)%2]
							for _, o := range order {
								s.deliver(o[0].(string), o[1].(uint64), via)
							}
							s.full.KV.Disarm()
							if s.isDown() {
								if s.full.M != nil {
									s.stopFull(false)
								}
								if nested >= 0 {
									s.full.KV.Arm(nested)
								}
								if s.startFull() == nil {
									perm := rng.Perm(len(order))
									for _, i := range perm {
										s.deliver(order[i][0].(string), order[i][1].(uint64), "chan")
									}
								}
								s.full.KV.Disarm()
							}
							s.settle()
							c.Count("crashruns", 1)
						})
					}
				}
			}
		}
	}
}

// RunSyncRandom: longer chains, random permutations / duplications / channel splits, clean restarts.
// RunSyncP2PAfterIdle: the node's polling of the P2P stores ticks for a while on stores that are still empty
// (nothing has been gossiped yet), then the whole chain arrives over P2P only - for every initial height.
func RunSyncP2PAfterIdle(c *Ctx) {
	for _, ih := range []uint64{1, 2, 3} {
		for _, order := range []string{"hdr-first", "data-first", "alternating"} {
			synctest.Run(func() {
				s := newSyncRun(c, fmt.Sprintf("p2pidle/ih%d/%s", ih, order), ih, SyncShapes["ShapeA"], world.F{"src": "p2pidle", "shape": "ShapeA"})
				defer s.finish()
				if s.startFull() != nil {
					return
				}
				time.Sleep(2 * time.Second) // several polls of the empty stores
				synctest.Wait()
				switch order {
				case "hdr-first":
					for h := s.ih; h <= s.top; h++ {
						s.deliver("hdr", h, "p2p")
					}
					for h := s.ih; h <= s.top; h++ {
						s.deliver("data", h, "p2p")
					}
				case "data-first":
					for h := s.ih; h <= s.top; h++ {
						s.deliver("data", h, "p2p")
					}
					for h := s.ih; h <= s.top; h++ {
						s.deliver("hdr", h, "p2p")
					}
				default:
					for h := s.ih; h <= s.top; h++ {
						s.deliver("hdr", h, "p2p")
						s.deliver("data", h, "p2p")
					}
				}
				s.settle()
				c.Count("p2pidle", 1)
			})
		}
	}
}

func RunSyncRandom(c *Ctx, runs int) {
	rng := rand.New(rand.NewSource(c.Seed*31 + 5))
	for r := 0; r < runs; r++ {
		ih := []uint64{1, 1, 2, 4}[rng.Intn(4)]
		n := 3 + rng.Intn(8)
		if c.Thorough() {
			n = 3 + rng.Intn(27)
		}
		shape := make([][]string, n)
		pool := []string{"a", "b", "c", "d"}
		for i := range shape {
			switch rng.Intn(4) {
			case 0:
				shape[i] = nil
			case 1:
				shape[i] = []string{pool[rng.Intn(2)]} // repeats identical tx lists often
			default:
				k := 1 + rng.Intn(3)
				for j := 0; j < k; j++ {
					shape[i] = append(shape[i], pool[rng.Intn(len(pool))])
				}
			}
		}
		synctest.Run(func() {
			s := newSyncRun(c, fmt.Sprintf("rand/%d", r), ih, shape, world.F{"src": "random", "shape": "random"})
			defer s.finish()
			if s.startFull() != nil {
				return
			}
			if rng.Intn(2) == 0 {
				s.p2pFaultEvery = 2 + rng.Intn(3)
			}
			if r%3 == 2 {
				// P2P-heavy run: the sync services' stores fill in height order (as go-header fills them); headers and
				// data arrive over P2P only, in runs of random length, some first reads of the store fail once
				hN, dN := s.ih, s.ih
				for hN <= s.top || dN <= s.top {
					if (rng.Intn(2) == 0 && hN <= s.top) || dN > s.top {
						for k := 1 + rng.Intn(3); k > 0 && hN <= s.top; k-- {
							s.deliver("hdr", hN, "p2p")
							hN++
						}
					} else {
						for k := 1 + rng.Intn(3); k > 0 && dN <= s.top; k-- {
							s.deliver("data", dN, "p2p")
							dN++
						}
					}
					if rng.Intn(10) == 0 && !s.isDown() {
						s.stopFull(true)
						s.startFull()
					}
				}
				s.settle()
				c.Count("randomruns", 1)
				return
			}
			type ev struct {
				kind string
				h    uint64
			}
			var evs []ev
			for h := s.ih; h <= s.top; h++ {
				evs = append(evs, ev{"hdr", h}, ev{"data", h})
				if rng.Intn(3) == 0 {
					evs = append(evs, ev{[]string{"hdr", "data"}[rng.Intn(2)], h})
				}
			}
			// locally shuffled: mostly in order with bounded displacement, sometimes fully random
			if rng.Intn(3) == 0 {
				rng.Shuffle(len(evs), func(i, j int) { evs[i], evs[j] = evs[j], evs[i] })
			} else {
				for i := range evs {
					j := i + rng.Intn(5)
					if j < len(evs) {
						evs[i], evs[j] = evs[j], evs[i]
					}
				}
			}
			inflightAt := -1
			if rng.Intn(2) == 0 && len(evs) > 4 {
				inflightAt = rng.Intn(len(evs) - 3)
			}
			for i := 0; i < len(evs); i++ {
				e := evs[i]
				if i == inflightAt {
					k := 2 + rng.Intn(3)
					var batch [][2]any
					for j := i; j < i+k && j < len(evs); j++ {
						batch = append(batch, [2]any{evs[j].kind, evs[j].h})
					}
					s.stopInFlight(batch, 1+rng.Intn(6))
					i += len(batch) - 1
					continue
				}
				via := []string{"chan", "da", "p2p", "da"}[rng.Intn(4)]
				s.deliver(e.kind, e.h, via)
				if rng.Intn(12) == 0 && !s.isDown() && i < len(evs)-1 {
					s.stopFull(true)
					s.startFull()
				}
			}
			s.settle()
			c.Count("randomruns", 1)
		})
	}
	_ = errors.New
}
