package drivers

import (
	"context"
	"errors"
	"fmt"
	"math/rand"
	"os"
	"path/filepath"
	"syscall"
	"time"

	"verif/harness/world"
)

// prodRun drives one sequencer node step by step (C01, C04; reused by C08 and C11).
type prodRun struct {
	kv    bool // built on the reference key-value execution layer
	txSeq int
	c      *Ctx
	w      *world.World
	n      *world.Node
	ctx    context.Context
	obsAll bool
	steps  int
	drift  int
}

func newProdRun(c *Ctx, run string, ih uint64, cfg world.F) *prodRun {
	if cfg == nil {
		cfg = world.F{}
	}
	cfg["ih"] = int(ih)
	cfg["driver"] = "producer"
	c.Tr.Reset(run, cfg)
	w := world.NewWorld(c.Tr, ih, world.T0)
	n := w.NewNode(world.NodeOpts{Name: "seq", Aggregator: true})
	p := &prodRun{c: c, w: w, n: n, ctx: context.Background(), obsAll: true, kv: prodKVMode}
	if p.kv {
		kvBackend(n.Exec)
		n.SeqD.KVFormat = true
	}
	return p
}

// prodKVMode: the next runs are built on the reference key-value execution layer with its own database, which
// survives the node's crashes (what the execution double's own pure state function cannot show: an execution layer
// that has applied something the stored chain does not contain). Transactions are then "key=value" with fresh keys.
var prodKVMode bool

func (p *prodRun) close() { p.w.Close() }

func (p *prodRun) txBytes(name string) []byte {
	b := []byte("tx-" + name)
	if p.kv {
		p.txSeq++
		b = []byte(fmt.Sprintf("%s%d=%d", name, p.txSeq, p.txSeq))
		name = fmt.Sprintf("%s.%d", name, p.txSeq)
	}
	p.w.IDs.Name(b, name)
	return b
}

// lastT is the time (ms) of the last committed block, 0 before the first block.
func (p *prodRun) lastT() int {
	st := p.n.Store
	if st == nil {
		return 0
	}
	p.c.Tr.Mute()
	defer p.c.Tr.Unmute()
	h, _ := st.Height(p.ctx)
	if h < p.w.Genesis.InitialHeight {
		return 0
	}
	sh, _, err := st.GetBlockData(p.ctx, h)
	if err != nil {
		return 0
	}
	return world.Ms(sh.Time())
}

// pushReply queues one sequencing-layer reply. rel: earlier | equal | later.
func (p *prodRun) pushReply(kind, rel string, txs [][]byte) {
	lt := p.lastT()
	ts := lt
	switch rel {
	case "earlier":
		ts = lt - 500
		if ts < 0 {
			ts = 0
		}
	case "later":
		ts = lt + 1000
	}
	p.n.SeqD.Script = append(p.n.SeqD.Script, world.SeqReply{Kind: kind, Txs: txs, TsMs: ts})
}

func (p *prodRun) up() bool { return p.n.M != nil }

// restart starts the process on the current image; fuse >= 0 arms the write fuse first.
// The fuse is left armed (it may blow in a later step) unless keep is false.
func (p *prodRun) restart(fuse int) error {
	if fuse >= 0 {
		p.n.KV.Arm(fuse)
	}
	err := p.n.Start(p.ctx)
	if errors.Is(err, world.ErrCrashed) {
		p.n.KV.Disarm()
	}
	p.n.Obs("restart")
	return err
}

// step runs one production step. An error return means the aggregation loop would stop:
// the node halts (and is restarted by the caller later).
func (p *prodRun) step(fuse int) error {
	if !p.up() {
		return errors.New("down")
	}
	if fuse >= 0 {
		p.n.KV.Arm(fuse)
	}
	p.steps++
	err := p.n.Step(p.ctx)
	p.n.KV.Disarm()
	if err != nil && !errors.Is(err, world.ErrCrashed) {
		p.c.Tr.Emit("Halt", world.F{"node": "seq"})
		p.n.M = nil
	}
	if p.obsAll {
		p.n.Obs("step")
	}
	return err
}

// settle: no more faults; the environment answers well-formed; K further steps.
func (p *prodRun) settle(k int) {
	p.n.KV.Disarm()
	p.n.Exec.FailNext = 0
	// drop what is left of the script: from now on replies are well-formed
	p.n.SeqD.Script = p.n.SeqD.Script[:len(p.n.SeqD.Script)-p.n.SeqD.Remaining()]
	p.n.SeqD.SetMaxTs(p.lastT())
	p.c.Tr.Emit("Settle", world.F{"node": "seq"})
	h0 := p.height()
	for i := 0; i < k; i++ {
		if !p.up() {
			if err := p.restart(-1); err != nil {
				continue
			}
		}
		p.step(-1)
	}
	if !p.obsAll {
		p.n.Obs("settled")
	}
	p.c.Tr.Emit("Quiesce", world.F{"node": "seq", "h0": h0, "h1": p.height(), "k": k})
}

func (p *prodRun) height() int {
	p.c.Tr.Mute()
	defer p.c.Tr.Unmute()
	st := p.n.Store
	if st == nil {
		return 0
	}
	h, _ := st.Height(p.ctx)
	return int(h)
}

// ---------------------------------------------------------------- model behaviours

// RunProducerBehaviour replays the environment choices of one Producer.tla behaviour.
func RunProducerBehaviour(c *Ctx, name string, toks []Tok, ih uint64) {
	p := newProdRun(c, "beh/"+name, ih, world.F{"src": "model"})
	defer p.close()
	i := 0
	// collect the tokens that belong to the operation starting at i (until the next step/restart)
	group := func(i int) (int, []Tok) {
		j := i + 1
		for j < len(toks) && toks[j].S("a") != "step" && toks[j].S("a") != "restart" {
			j++
		}
		return j, toks[i+1 : j]
	}
	for i < len(toks) {
		t := toks[i]
		j, sub := group(i)
		fuse := -1
		for _, s := range sub {
			switch s.S("a") {
			case "seq":
				var txs [][]byte
				for _, nm := range s.L("txs") {
					txs = append(txs, p.txBytes(nm))
				}
				p.pushReply(s.S("kind"), s.S("ts"), txs)
			case "exec":
				if !s.B("ok") {
					p.n.Exec.FailNext = 1
				}
			case "crash":
				fuse = s.I("w")
			case "expect":
				// strict conformance (informational): the model's height/state after the step
			}
		}
		switch t.S("a") {
		case "restart":
			if p.up() { // the model's crash point lies after the last durable write of the start: kill the process at rest
				c.Tr.Emit("Crash", world.F{"node": "seq", "at": -1, "during": "rest"})
				p.n.M = nil
			}
			p.restart(fuse)
		case "step":
			if !p.up() {
				if err := p.restart(-1); err != nil {
					i = j
					continue
				}
			}
			p.step(fuse)
			for _, s := range sub {
				if s.S("a") == "expect" {
					if p.height() != s.I("height") {
						p.drift++
						c.Tr.Emit("Drift", world.F{"node": "seq", "what": "height", "model": s.I("height"), "real": p.height()})
					}
				}
			}
		}
		i = j
	}
	p.settle(3)
	c.Count("behaviours", 1)
	c.Count("drift", p.drift)
}

// ---------------------------------------------------------------- crash enumeration

type prodScenario struct {
	ih     uint64
	prefix int    // blocks committed before the target step
	target string // first | batch | empty | pending | dup
}

func (s prodScenario) String() string {
	if prodKVMode {
		return fmt.Sprintf("kv-ih%d/p%d/%s", s.ih, s.prefix, s.target)
	}
	return fmt.Sprintf("ih%d/p%d/%s", s.ih, s.prefix, s.target)
}

// prepare brings a fresh node to the point just before the target step and returns it.
func (s prodScenario) prepare(c *Ctx, run string) *prodRun {
	p := newProdRun(c, run, s.ih, world.F{"src": "crashenum"})
	p.restart(-1)
	for b := 0; b < s.prefix; b++ {
		if b > 0 { // block 1 is the pre-saved genesis block and takes no batch
			if b%2 == 0 {
				p.pushReply("empty", "later", nil)
			} else {
				p.pushReply("batch", "later", [][]byte{p.txBytes(fmt.Sprintf("p%d", b)), p.txBytes("a")})
			}
		}
		p.step(-1)
	}
	switch s.target {
	case "batch":
		p.pushReply("batch", "later", [][]byte{p.txBytes("a"), p.txBytes("b")})
	case "dup": // same tx list as an earlier block
		p.pushReply("batch", "equal", [][]byte{p.txBytes("p1"), p.txBytes("a")})
	case "empty":
		p.pushReply("empty", "later", nil)
	case "pending":
		// a block was early-saved, execution failed, the node halted and was restarted
		p.pushReply("batch", "later", [][]byte{p.txBytes("a")})
		p.n.Exec.FailNext = 1
		p.step(-1)
		p.restart(-1)
	}
	return p
}

// RunProducerCrashEnum crashes the node at every durable-write boundary of every scenario's
// target step (positions are measured on the real code), optionally again during recovery.
func RunProducerCrashEnum(c *Ctx) {
	runProducerCrashEnum(c, false)
	// the same enumeration for the blocks that carry transactions, on the reference key-value execution layer with
	// its own durable database (run names crash/kv-...): what the executor has applied must be what the chain says
	prodKVMode = true
	defer func() { prodKVMode = false }()
	runProducerCrashEnum(c, true)
}

func runProducerCrashEnum(c *Ctx, kv bool) {
	rng := rand.New(rand.NewSource(c.Seed))
	var scen []prodScenario
	for _, ih := range []uint64{1, 3} {
		if !kv {
			scen = append(scen, prodScenario{ih, 0, "first"})
		}
		for _, pre := range []int{1, 2, 3} {
			for _, tg := range []string{"batch", "empty", "pending", "dup"} {
				if tg == "dup" && pre < 2 {
					continue
				}
				if kv && (tg == "empty" || tg == "dup" || pre == 3 || (ih == 3 && pre != 2)) {
					continue
				}
				scen = append(scen, prodScenario{ih, pre, tg})
			}
		}
	}
	for _, s := range scen {
		// measure: writes of the target step, and of restart+step after it
		p := s.prepare(c, "crash/"+s.String()+"/measure")
		w0 := p.n.KV.Writes()
		p.step(-1)
		W := p.n.KV.Writes() - w0
		p.settle(2)
		p.close()
		c.Count("scenarios", 1)
		for k := 0; k <= W; k++ {
			// single crash at position k, plain recovery
			p := s.prepare(c, fmt.Sprintf("crash/%s/k%d", s, k))
			p.step(k)
			p.restart(-1)
			w1 := p.n.KV.Writes()
			if p.up() {
				p.step(-1)
			}
			R := p.n.KV.Writes() - w1
			p.settle(3)
			p.close()
			c.Count("crashruns", 1)
			// nested: crash again at position j of the recovery (restart + first step)
			for j := 0; j <= R; j++ {
				if !c.Thorough() && rng.Intn(3) != 0 {
					continue
				}
				p := s.prepare(c, fmt.Sprintf("crash/%s/k%d/j%d", s, k, j))
				p.step(k)
				p.n.KV.Arm(j)
				err := p.n.Start(p.ctx)
				p.n.Obs("restart")
				if err == nil {
					p.steps++
					e2 := p.n.Step(p.ctx)
					if e2 != nil && !errors.Is(e2, world.ErrCrashed) {
						p.c.Tr.Emit("Halt", world.F{"node": "seq"})
						p.n.M = nil
					}
					p.n.Obs("step")
				}
				p.n.KV.Disarm()
				p.settle(3)
				p.close()
				c.Count("crashruns", 1)
				c.Count("nested", 1)
			}
		}
	}
	if kv {
		return
	}
	// crash during the very first start of a fresh node
	for _, ih := range []uint64{1, 3} {
		for k := 0; k <= 2; k++ {
			p := newProdRun(c, fmt.Sprintf("crash/fresh/ih%d/k%d", ih, k), ih, world.F{"src": "crashenum"})
			p.restart(k)
			p.settle(3)
			p.close()
			c.Count("crashruns", 1)
		}
	}
}

// ---------------------------------------------------------------- seeded random histories

// RunProducerRandom drives long random reply sequences with arbitrary transaction bytes.
func RunProducerRandom(c *Ctx, runs, maxLen int) {
	rng := rand.New(rand.NewSource(c.Seed*7919 + 1))
	for r := 0; r < runs; r++ {
		ih := []uint64{1, 1, 2, 5}[rng.Intn(4)]
		n := 5 + rng.Intn(maxLen)
		p := newProdRun(c, fmt.Sprintf("rand/%d", r), ih, world.F{"src": "random"})
		p.obsAll = n <= 40
		p.restart(-1)
		crashes := 0
		emptyRootUsed := false
		for i := 0; i < n; i++ {
			if !p.up() {
				f := -1
				if rng.Intn(6) == 0 && crashes < 6 {
					f = rng.Intn(3)
					crashes++
				}
				if p.restart(f) != nil {
					continue
				}
			}
			switch x := rng.Intn(20); {
			case x < 9:
				k := 1 + rng.Intn(4)
				txs := make([][]byte, k)
				for j := range txs {
					switch rng.Intn(12) {
					case 0:
						txs[j] = []byte{} // empty transaction
					case 1:
						txs[j] = p.txBytes("a") // repeated bytes
					case 2:
						if c.Thorough() && rng.Intn(4) == 0 {
							txs[j] = make([]byte, 1<<20)
							rng.Read(txs[j])
						} else {
							txs[j] = make([]byte, 4096)
							rng.Read(txs[j])
						}
					default:
						txs[j] = make([]byte, 1+rng.Intn(48))
						rng.Read(txs[j])
					}
				}
				p.pushReply("batch", []string{"later", "later", "equal", "earlier"}[rng.Intn(4)], txs)
			case x < 14:
				p.pushReply("empty", []string{"later", "later", "equal", "earlier"}[rng.Intn(4)], nil)
			case x < 16:
				p.pushReply("nil", "later", nil)
			case x < 18:
				p.pushReply("err", "later", nil)
			default:
				// no new reply: whatever is queued (or the default) is used
			}
			if rng.Intn(10) == 0 {
				p.n.Exec.FailNext = 1
			}
			if !emptyRootUsed && r%2 == 0 && i >= 2 && rng.Intn(6) == 0 {
				// once per run: the execution layer reports an empty state root for a block (the next header must
				// carry that root, and the next execution must start from it)
				p.n.Exec.EmptyRootNext = 1
				emptyRootUsed = true
			}
			f := -1
			if rng.Intn(8) == 0 && crashes < 6 {
				f = rng.Intn(6)
				crashes++
			}
			p.step(f)
			if !p.obsAll && i%25 == 24 {
				p.n.Obs("sample")
			}
		}
		p.settle(3)
		p.close()
		c.Count("randomruns", 1)
		c.Count("randomsteps", n)
	}
	_ = time.Now
}

// ---------------------------------------------------------------- torn cache files

// RunProducerCacheTear: a crash in the middle of writing the on-disk caches at shutdown. The caches
// are saved twice; whether a file is rewritten in place (same inode: any prefix of the new content is a
// reachable crash state) or replaced atomically (new inode: only the old or the new complete content,
// plus a stray temporary file, are reachable) is OBSERVED, and only reachable states are produced.
func RunProducerCacheTear(c *Ctx) {
	for _, ih := range []uint64{1, 3} {
		// discover the cache files
		probe := newProdRun(c, fmt.Sprintf("cachetear/ih%d/probe", ih), ih, world.F{"src": "cachetear"})
		probe.restart(-1)
		probe.step(-1)
		probe.pushReply("batch", "later", [][]byte{probe.txBytes("a")})
		probe.step(-1)
		probe.saveCache()
		var files []string
		filepath.Walk(probe.n.Root, func(p string, info os.FileInfo, err error) error {
			if err == nil && !info.IsDir() {
				rel, _ := filepath.Rel(probe.n.Root, p)
				files = append(files, rel)
			}
			return nil
		})
		probe.settle(1)
		probe.close()
		for _, rel := range files {
			for _, cut := range []string{"zero", "mid", "last"} {
				p := newProdRun(c, fmt.Sprintf("cachetear/ih%d/%s/%s", ih, filepath.Base(filepath.Dir(rel))+"-"+filepath.Base(rel), cut), ih, world.F{"src": "cachetear"})
				p.restart(-1)
				p.step(-1)
				p.pushReply("batch", "later", [][]byte{p.txBytes("a")})
				p.step(-1)
				p.saveCache() // an earlier clean shutdown
				full := filepath.Join(p.n.Root, rel)
				old, _ := os.ReadFile(full)
				ino0 := inode(full)
				p.pushReply("batch", "later", [][]byte{p.txBytes("b")})
				p.step(-1)
				if p.up() {
					p.n.M.HeaderCache().SetDAIncluded("some-hash-so-that-the-files-change", 5)
					p.n.M.DataCache().SetSeen("another-hash")
				}
				p.saveCache() // the shutdown that is interrupted
				cur, _ := os.ReadFile(full)
				if len(cur) == 0 {
					p.settle(2)
					p.close()
					continue
				}
				mode := "inplace"
				if inode(full) != ino0 {
					mode = "replaced"
				}
				switch mode {
				case "inplace":
					n := map[string]int{"zero": 0, "mid": len(cur) / 2, "last": len(cur) - 1}[cut]
					if n < 0 {
						n = 0
					}
					os.WriteFile(full, cur[:n], 0o644)
				case "replaced":
					// reachable: the old complete file (crash before the rename) and a torn temporary file next to it
					if cut != "last" {
						os.WriteFile(full, old, 0o644)
					}
					os.WriteFile(full+".tmp-crash", cur[:len(cur)/2], 0o644)
				}
				c.Tr.Emit("CacheTear", world.F{"node": "seq", "file": rel, "cut": cut, "mode": mode})
				p.n.M = nil
				p.restart(-1)
				p.settle(2)
				p.close()
				c.Count("cachetear", 1)
			}
		}
	}
}

// saveCache performs the cache part of an orderly shutdown; a node that halted is started again first.
func (p *prodRun) saveCache() bool {
	if !p.up() {
		if p.restart(-1) != nil || !p.up() {
			return false
		}
	}
	return p.n.M.SaveCache() == nil
}

func inode(path string) uint64 {
	fi, err := os.Stat(path)
	if err != nil {
		return 0
	}
	if st, ok := fi.Sys().(*syscall.Stat_t); ok {
		return st.Ino
	}
	return 0
}
