SPECIFICATION LiveSpec
CONSTANTS
  Txs = {"a", "b", "c"}
  Bound = 1
  MaxCrashes = 2
  PopBeforeSave = FALSE
  ReInject = FALSE
  WriteFails = FALSE
INVARIANTS NoLossStrict NoDupWithoutCrash
PROPERTIES EventuallyIncluded
CHECK_DEADLOCK FALSE
