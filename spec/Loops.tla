---------------------------- MODULE Loops ----------------------------
(***************************************************************************)
(* Tier I control skeleton of a node's background loops (node/full.go      *)
(* worker fan-out; block/aggregation.go, reaper.go, submitter.go,          *)
(* da_includer.go, retriever.go, store.go, sync.go): each loop is either   *)
(* in its start-up delay, waiting for a tick/signal, working, handing an   *)
(* event to another loop over a bounded channel, or has returned.  Cancel  *)
(* may arrive in any control state; the property is that afterwards every  *)
(* loop returns (Run's wg.Wait terminates).                                *)
(*                                                                         *)
(* Deviations kept as switches:                                            *)
(*   DelayIgnoresCancel = TRUE  the production loop's start-up delay is a  *)
(*                      plain sleep (pinned tree before the fix)           *)
(*   SendIgnoresCancel = TRUE   event hand-off is a plain blocking send    *)
(*                      (block/retriever.go, block/store.go): it only      *)
(*                      blocks when the channel is full                    *)
(*                                                                         *)
(* Error reporting (node/full.go Run): the loops in Reporters hand a fatal *)
(* error to Run over errCh with a plain blocking send and return; Run      *)
(* receives from errCh at most once (in the select that also watches the   *)
(* parent context), cancels the node context and then only waits for the   *)
(* workers.  The loops in ReportOnCancel report an error that was caused   *)
(* by the cancellation itself (SyncLoop: trySyncNextBlock returns          *)
(* ctx.Err(); DAIncluderLoop: an execution layer that honours the context  *)
(* fails SetFinal); the aggregation loop suppresses such errors.           *)
(*   ErrCap             capacity of errCh (pinned tree: 1; with two        *)
(*                      reporters that both fail after a stop request the  *)
(*                      second send blocks forever and Run hangs)          *)
(***************************************************************************)
EXTENDS Integers, FiniteSets, TLC

CONSTANTS Producers,  \* loops that hand events to the consumer (retrieve / store polling loops)
          Others,     \* loops that only wait and work
          Cap,        \* capacity of the event channel
          GenesisInFuture, DelayIgnoresCancel, SendIgnoresCancel,
          Reporters,        \* loops that report a fatal error to Run over errCh
          ReportOnCancel,   \* those of them that also report an error caused by the cancellation
          ErrCap,           \* capacity of errCh
          Unjoined          \* deviation: loops started outside the WaitGroup that Run joins ({} on the current tree)

Consumer == "sync"
LoopsAll == Producers \cup Others \cup {Consumer, "aggregation"}

VARIABLES pc, chan, cancelled, delayLeft,
          errq,     \* errors waiting in errCh
          runpc     \* Run: "select" (listening to errCh and the parent context) | "joining" (wg.Wait) | "done"
vars == <<pc, chan, cancelled, delayLeft, errq, runpc>>

Init == /\ pc = [x \in LoopsAll |-> IF x = "aggregation" /\ GenesisInFuture THEN "delay" ELSE "waiting"]
        /\ chan = 0 /\ cancelled = FALSE /\ delayLeft = IF GenesisInFuture THEN 2 ELSE 0
        /\ errq = 0 /\ runpc = "select"

Cancel == ~cancelled /\ cancelled' = TRUE /\ UNCHANGED <<pc, chan, delayLeft, errq, runpc>>

\* time passes for the start-up delay
DelayTick == /\ pc["aggregation"] = "delay" /\ delayLeft > 0 /\ delayLeft' = delayLeft - 1
             /\ (cancelled => DelayIgnoresCancel)      \* a cancellable wait ends before more time passes
             /\ UNCHANGED <<pc, chan, cancelled, errq, runpc>>
DelayEnd == /\ pc["aggregation"] = "delay" /\ (delayLeft = 0 \/ (cancelled /\ ~DelayIgnoresCancel))
            /\ pc' = [pc EXCEPT !["aggregation"] = IF cancelled /\ ~DelayIgnoresCancel THEN "returned" ELSE "waiting"]
            /\ UNCHANGED <<chan, cancelled, delayLeft, errq, runpc>>

Wake(x) == /\ pc[x] = "waiting" /\ ~cancelled /\ pc' = [pc EXCEPT ![x] = "working"] /\ UNCHANGED <<chan, cancelled, delayLeft, errq, runpc>>
Return(x) == /\ pc[x] = "waiting" /\ cancelled /\ pc' = [pc EXCEPT ![x] = "returned"] /\ UNCHANGED <<chan, cancelled, delayLeft, errq, runpc>>
\* work ends (every blocking call inside takes the context); a producer then hands an event over
WorkDone(x) == /\ pc[x] = "working"
               /\ pc' = [pc EXCEPT ![x] = IF x \in Producers /\ ~cancelled THEN "sending" ELSE "waiting"]
               /\ UNCHANGED <<chan, cancelled, delayLeft, errq, runpc>>
Send(x) == /\ pc[x] = "sending" /\ chan < Cap /\ chan' = chan + 1 /\ pc' = [pc EXCEPT ![x] = "waiting"]
           /\ UNCHANGED <<cancelled, delayLeft, errq, runpc>>
AbortSend(x) == /\ pc[x] = "sending" /\ cancelled /\ ~SendIgnoresCancel /\ pc' = [pc EXCEPT ![x] = "waiting"]
                /\ UNCHANGED <<chan, cancelled, delayLeft, errq, runpc>>
Recv == /\ pc[Consumer] = "waiting" /\ ~cancelled /\ chan > 0 /\ chan' = chan - 1 /\ UNCHANGED <<pc, cancelled, delayLeft, errq, runpc>>

\* ---- fatal errors and Run (node/full.go) -------------------------------------------
\* a reporter's work fails: a genuine failure at any time, or a failure caused by the cancellation
Fail(x) == /\ pc[x] = "working" /\ x \in Reporters /\ (cancelled => x \in ReportOnCancel)
           /\ pc' = [pc EXCEPT ![x] = "reporting"] /\ UNCHANGED <<chan, cancelled, delayLeft, errq, runpc>>
\* errCh <- err (plain blocking send), then the loop returns
Report(x) == /\ pc[x] = "reporting" /\ errq < ErrCap
             /\ errq' = errq + 1 /\ pc' = [pc EXCEPT ![x] = "returned"] /\ UNCHANGED <<chan, cancelled, delayLeft, runpc>>
\* unbuffered errCh: the send completes only while Run is in its select
Rendezvous(x) == /\ pc[x] = "reporting" /\ ErrCap = 0 /\ runpc = "select"
                 /\ pc' = [pc EXCEPT ![x] = "returned"] /\ cancelled' = TRUE /\ runpc' = "joining"
                 /\ UNCHANGED <<chan, delayLeft, errq>>
RunRecv == /\ runpc = "select" /\ errq > 0 /\ errq' = errq - 1 /\ cancelled' = TRUE /\ runpc' = "joining"
           /\ UNCHANGED <<pc, chan, delayLeft>>
RunStop == /\ runpc = "select" /\ cancelled /\ runpc' = "joining" /\ UNCHANGED <<pc, chan, cancelled, delayLeft, errq>>
AllReturned == \A x \in LoopsAll : pc[x] = "returned"
JoinedReturned == \A x \in LoopsAll \ Unjoined : pc[x] = "returned"
RunJoin == /\ runpc = "joining" /\ JoinedReturned /\ runpc' = "done" /\ UNCHANGED <<pc, chan, cancelled, delayLeft, errq>>

Next == Cancel \/ DelayTick \/ DelayEnd \/ Recv
        \/ (\E x \in LoopsAll : Wake(x) \/ Return(x) \/ WorkDone(x))
        \/ (\E p \in Producers : Send(p) \/ AbortSend(p))
        \/ (\E r \in Reporters : Fail(r) \/ Report(r) \/ Rendezvous(r))
        \/ RunRecv \/ RunStop \/ RunJoin
Spec == Init /\ [][Next]_vars
Fair == /\ WF_vars(DelayEnd) /\ WF_vars(DelayTick)
        /\ \A y \in LoopsAll : WF_vars(Return(y)) /\ WF_vars(WorkDone(y))
        /\ \A z \in Producers : WF_vars(Send(z)) /\ WF_vars(AbortSend(z))
        /\ \A r \in Reporters : WF_vars(Report(r)) /\ WF_vars(Rendezvous(r))
        /\ WF_vars(RunRecv) /\ WF_vars(RunStop) /\ WF_vars(RunJoin)
LiveSpec == Spec /\ Fair

\* C13: once asked to stop, every activity returns ... promptly: without waiting for the start-up delay to run out
StopsEventually == cancelled ~> AllReturned
\* ... and the node shuts down: Run gets past wg.Wait
RunReturns == cancelled ~> (runpc = "done")
\* ... having waited for every activity: nothing of the node is still running when Run returns
EveryActivityReturned == runpc = "done" => AllReturned
StopsPromptly == [][(cancelled /\ pc["aggregation"] = "delay") => ~(delayLeft' < delayLeft)]_vars
==========================================================================
