// Package world contains the environment doubles, the crash-injecting datastore, the
// trace writer and the state projection used by every conformance driver.
package world

import (
	"bufio"
	"encoding/json"
	"fmt"
	"os"
	"sync"
)

// F is one trace record (field -> value). Values must be JSON ints, strings, bools,
// arrays or objects with a fixed key set per event name (TLC reads them as records).
type F map[string]any

// Tracer serialises events of all doubles of one process into one totally ordered
// ndjson file. The sequence number is taken under the same mutex that orders the write.
type Tracer struct {
	mu   sync.Mutex
	f    *os.File
	w    *bufio.Writer
	n    int
	run  string
	Runs int
	// Lines counts the records written since the file was opened.
	Lines int
	// PerRun collects, for evidence, the number of events per run.
	off bool
}

func NewTracer(path string) (*Tracer, error) {
	f, err := os.Create(path)
	if err != nil {
		return nil, err
	}
	return &Tracer{f: f, w: bufio.NewWriterSize(f, 1<<20)}, nil
}

// Reset starts a new run inside the same file. The monitor specifications re-initialise
// their state on this event.
func (t *Tracer) Reset(run string, cfg F) {
	t.mu.Lock()
	t.run = run
	t.n = 0
	t.Runs++
	t.mu.Unlock()
	rec := F{"run": run}
	for k, v := range cfg {
		rec[k] = v
	}
	t.Emit("Reset", rec)
}

// Mute / Unmute suppress emission (used while the harness itself reads through doubles).
// Mute / Unmute are no-ops: no read path of the doubles emits events, and suppressing emission while one
// goroutine computes an observation would drop the events of concurrently running loops.
func (t *Tracer) Mute()   {}
func (t *Tracer) Unmute() {}

func (t *Tracer) Emit(ev string, rec F) {
	t.mu.Lock()
	defer t.mu.Unlock()
	if t.off {
		return
	}
	t.n++
	t.Lines++
	out := make(map[string]any, len(rec)+2)
	for k, v := range rec {
		out[k] = v
	}
	out["ev"] = ev
	out["n"] = t.n
	bz, err := json.Marshal(out)
	if err != nil {
		panic(fmt.Sprintf("trace marshal %s: %v", ev, err))
	}
	t.w.Write(bz)
	t.w.WriteByte('\n')
}

func (t *Tracer) Close() error {
	t.mu.Lock()
	defer t.mu.Unlock()
	if err := t.w.Flush(); err != nil {
		return err
	}
	return t.f.Close()
}

// Strs returns a non-nil string slice (JSON [] instead of null).
func Strs(s []string) []string {
	if s == nil {
		return []string{}
	}
	return s
}

// Ints returns a non-nil int slice.
func Ints(s []int) []int {
	if s == nil {
		return []int{}
	}
	return s
}
