---------------------------- MODULE DAProxy ----------------------------
(***************************************************************************)
(* Tier I reference for C16: what the node-side helpers                    *)
(* (types/da.go SubmitWithHelpers / RetrieveWithHelpers) must report for   *)
(* every operation, argument class and fault of the backing DA layer - and *)
(* it must be the same whether the DA layer is called in-process or        *)
(* through the JSON-RPC client and server (da/jsonrpc).                    *)
(* Submit: n blobs are offered, `fit` of them (a prefix) fit the client's  *)
(* size limit; the backing DA answers with a fault or accepts.             *)
(***************************************************************************)
EXTENDS Integers, Sequences, FiniteSets, TLC

\* "prefix1": the backing DA layer has a tighter limit of its own and takes only the first blob it is offered (one id, no error)
SubmitFaults == {"none", "prefix1", "timeout", "mempool", "toobig", "seqnum", "deadline", "err", "cancel", "acklost"}
FetchFaults == {"ok", "notfound", "future", "errlist", "errchunk"}

\* expected status code (names of core/da StatusCode) and submitted count
SubmitCode(n, fit, fault) ==
    IF n = 0 THEN "Success"
    ELSE IF fit = 0 THEN "TooBig"                     \* not even the first blob fits: nothing is sent
    ELSE CASE fault \in {"none", "prefix1"} -> "Success"
           [] fault = "timeout" -> "NotIncludedInBlock"
           [] fault = "mempool" -> "AlreadyInMempool"
           [] fault = "toobig" -> "TooBig"
           [] fault = "seqnum" -> "IncorrectAccountSequence"
           [] fault = "deadline" -> "ContextDeadline"
           [] fault = "cancel" -> "ContextCanceled"
           [] OTHER -> "Error"
SubmitCount(n, fit, fault) == IF n > 0 /\ fit > 0 /\ fault = "none" THEN fit
                              ELSE IF n > 0 /\ fit > 0 /\ fault = "prefix1" THEN 1 ELSE 0

FetchCode(fault) ==
    CASE fault = "ok" -> "Success"
      [] fault = "notfound" -> "NotFound"
      [] fault = "future" -> "HeightFromFuture"
      [] OTHER -> "Error"

\* the case space, enumerated by TLC (each case is then instantiated on the real code)
VARIABLES case
Init == case = [op |-> "none"]
Next == \/ \E n \in 0 .. 4, fit \in 0 .. 4, f \in SubmitFaults : fit <= n /\ case' = [op |-> "submit", n |-> n, fit |-> fit, fault |-> f]
        \/ \E f \in FetchFaults : case' = [op |-> "fetch", fault |-> f]
Spec == Init /\ [][Next]_case
\* sanity of the table: a caller never marks an unsent blob as submitted
CountSound == case.op = "submit" => SubmitCount(case.n, case.fit, case.fault) <= case.fit
OnlySuccessCounts == case.op = "submit" => (SubmitCount(case.n, case.fit, case.fault) > 0 => SubmitCode(case.n, case.fit, case.fault) = "Success")
=========================================================================
