SPECIFICATION Spec
INVARIANT NormIdempotent
CHECK_DEADLOCK FALSE
