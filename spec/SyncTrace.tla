---------------------------- MODULE SyncTrace ----------------------------
(***************************************************************************)
(* Tier M monitor for a full node following the proposer (C02, C05, and    *)
(* the full-node side of C03).  The reference chain is produced by the     *)
(* real sequencer node and logged once (Chain).  Events: deliveries of     *)
(* genuine (Deliver) or adversarial (Inject) items over DA, P2P or the     *)
(* sync channels, calls received by the full node's execution layer,       *)
(* crashes / restarts, and the projection of the full node's store after   *)
(* every delivery (Obs).                                                   *)
(***************************************************************************)
EXTENDS TraceLib

VARIABLES l, run, ih, chain, top, phase, got, lastH, nextExec, fresh, maxExec, viol

vars == <<l, run, ih, chain, top, phase, got, lastH, nextExec, fresh, maxExec, viol>>

NoB == [h |-> 0, hh |-> 0, hash |-> "?", prev |-> "?", t |-> 0, txs |-> <<>>, app |-> <<>>, appok |-> FALSE,
        dh |-> FALSE, sig |-> "none", ssig |-> "none", meta |-> "none", cid |-> FALSE, idx |-> FALSE, dc |-> "?"]
HasBlock(bs, h) == \E i \in 1 .. Len(bs) : bs[i].h = h
BlockAt(bs, h) == IF HasBlock(bs, h) THEN bs[CHOOSE i \in 1 .. Len(bs) : bs[i].h = h] ELSE NoB
C(h) == BlockAt(chain, h)
ChainRootBefore(h) == FlatSeq([i \in 1 .. (h - ih) |-> C(ih + i - 1).txs])
IsEmptyBlk(h) == C(h).txs = <<>>
Complete(g, h) == \A x \in ih .. h : <<"hdr", x>> \in g /\ (IsEmptyBlk(x) \/ <<"data", x>> \in g)

\* Signature of the known finding C02-alias: the node is stuck below a non-empty block whose
\* transaction list is identical to that of another block of the chain (items are remembered as
\* "seen" by data commitment, so the second one is dropped).
AliasStall(hgt) == LET s == hgt + 1 IN s <= top /\ ~IsEmptyBlk(s) /\ \E x \in ih .. top : x # s /\ C(x).txs = C(s).txs

Same(b, c) == b.hash = c.hash /\ b.txs = c.txs /\ b.app = c.app /\ b.appok /\ b.t = c.t /\ b.hh = c.hh

ObsChecks(o) == <<
    <<"C02.Prefix", \A h \in ih .. o.height : HasBlock(o.blocks, h) /\ Same(BlockAt(o.blocks, h), C(h)), "a height up to the node's chain height does not hold the proposer's block">>,
    <<"C05.BlocksPresent", \A h \in ih .. o.height : HasBlock(o.blocks, h) /\ Same(BlockAt(o.blocks, h), C(h)) /\ BlockAt(o.blocks, h).idx, "a height up to the recorded chain height has no retrievable block identical to the proposer's">>,
    <<"C03.OnlyGenuine", \A h \in ih .. o.height : BlockAt(o.blocks, h).sig = "P" /\ BlockAt(o.blocks, h).ssig = "P", "a block in the node's chain is not signed by the genesis proposer's key">>,
    <<"C02.HeightMonotone", o.height >= lastH, "chain height decreased">>,
    <<"C02.NoOvershoot", o.height <= top, "chain height beyond the proposer's chain">>,
    <<"C02.AppliedWhatArrived", (o.up /\ o.tag \in {"deliver", "settled"}) => (AliasStall(o.height) \/ \A h \in ih .. top : Complete(got, h) => o.height >= h),
        "both parts of all blocks up to h were received but the node has not applied h">>,
    <<"C02.AppliedWhatArrived.alias", (o.up /\ o.tag \in {"deliver", "settled"}) => (~AliasStall(o.height) \/ \A h \in ih .. top : Complete(got, h) => o.height >= h),
        "stuck below a block whose tx list equals another block's (data de-duplicated by commitment)">>,
    <<"C05.StateMatches", (o.up /\ o.tag \in {"deliver", "settled", "restart"}) =>
          /\ (o.stOk => o.stH = o.height /\ o.stRootOk /\ o.stRoot = ChainRootBefore(o.height + 1))
          /\ (~o.stOk => o.height = ih - 1), "recorded state does not correspond to the recorded chain height">>
    >>

Init ==
    /\ l = 1 /\ run = "" /\ ih = 1 /\ chain = <<>> /\ top = 0 /\ phase = "" /\ got = {} /\ lastH = 0
    /\ nextExec = 1 /\ fresh = FALSE /\ maxExec = 0 /\ viol = <<>>

e == Trace[l]
Is(name) == l <= N /\ e.ev = name
Adv == l' = l + 1
Full == "node" \in DOMAIN e /\ e.node = "full"

TReset ==
    /\ Is("Reset") /\ Adv
    /\ run' = e.run /\ ih' = e.ih /\ chain' = <<>> /\ top' = 0 /\ phase' = "" /\ got' = {} /\ lastH' = 0
    /\ nextExec' = e.ih /\ fresh' = FALSE /\ maxExec' = e.ih - 1
    /\ UNCHANGED viol

TChain ==
    /\ Is("Chain") /\ Adv
    /\ chain' = e.blocks /\ top' = e.top
    /\ UNCHANGED <<run, ih, phase, got, lastH, nextExec, fresh, maxExec, viol>>

TPhase ==
    /\ Is("Phase") /\ Adv /\ phase' = e.name
    /\ UNCHANGED <<run, ih, chain, top, got, lastH, nextExec, fresh, maxExec, viol>>

TDeliver ==
    /\ Is("Deliver") /\ Adv
    /\ got' = got \cup {<<e.kind, e.h>>}
    /\ UNCHANGED <<run, ih, chain, top, phase, lastH, nextExec, fresh, maxExec, viol>>

TObs ==
    /\ Is("Obs") /\ Full /\ Adv
    /\ viol' = viol \o Failed(ObsChecks(e), l, run)
    /\ lastH' = MaxOf(lastH, e.height)
    /\ UNCHANGED <<run, ih, chain, top, phase, got, nextExec, fresh, maxExec>>

TExec ==
    /\ Is("ExecTxs") /\ Full /\ Adv
    /\ viol' = viol \o Failed(<<
          <<"C02.AppliedInOrder", e.ok => IF fresh THEN e.h >= ih /\ e.h <= maxExec + 1 ELSE e.h = nextExec,
              "execution layer asked to execute a height out of order">>,
          <<"C02.AppliedProposersTxs", e.ok => e.txs = C(e.h).txs /\ e.prevok /\ e.prev = ChainRootBefore(e.h),
              "executed transactions / previous root are not the proposer's for that height">>
          >>, l, run)
    /\ nextExec' = IF e.ok THEN e.h + 1 ELSE nextExec
    /\ maxExec' = IF e.ok THEN MaxOf(maxExec, e.h) ELSE maxExec
    /\ fresh' = IF e.ok THEN FALSE ELSE fresh
    /\ UNCHANGED <<run, ih, chain, top, phase, got, lastH>>

TCrash ==
    /\ Is("Crash") /\ Full /\ Adv
    /\ got' = {} /\ fresh' = TRUE
    /\ UNCHANGED <<run, ih, chain, top, phase, lastH, nextExec, maxExec, viol>>

\* the process was stopped without an orderly shutdown: volatile caches are gone
TStop ==
    /\ Is("Stop") /\ Full /\ Adv
    /\ got' = IF e.clean THEN got ELSE {}
    /\ fresh' = IF e.clean THEN fresh ELSE TRUE
    /\ UNCHANGED <<run, ih, chain, top, phase, lastH, nextExec, maxExec, viol>>

TRestart ==
    /\ Is("Restart") /\ Full /\ Adv
    /\ viol' = viol \o Failed(<< <<"C05.RestartFailed", e.ok, "node cannot start on an image it wrote itself">> >>, l, run)
    /\ UNCHANGED <<run, ih, chain, top, phase, got, lastH, nextExec, fresh, maxExec>>

TNodeErr ==
    /\ (Is("NodeErr") \/ Is("Panic")) /\ Full /\ Adv
    /\ viol' = viol \o Failed(<< <<"C02.Halted", FALSE, "the node halted (sync error or panic) on genuine / third-party traffic">>,
                                 <<"C03.Halted", FALSE, "the node halted (sync error or panic) on genuine / third-party traffic">> >>, l, run)
    /\ got' = {} /\ fresh' = TRUE
    /\ UNCHANGED <<run, ih, chain, top, phase, lastH, nextExec, maxExec>>

TQuiesce ==
    /\ Is("Quiesce") /\ Adv
    /\ viol' = viol \o Failed(<<
          <<"C02.Converged", (e.up /\ e.height = e.top) \/ (e.up /\ AliasStall(e.height)), "after every event was delivered the node is not at the proposer's height">>,
          <<"C05.Converged", (e.up /\ e.height = e.top) \/ (e.up /\ AliasStall(e.height)), "after restart and re-delivery the node did not reach the proposer's chain">>,
          <<"C03.Converged", (e.up /\ e.height = e.top) \/ (e.up /\ AliasStall(e.height)), "third-party material prevented the node from following the proposer's chain">>,
          <<"C02.Converged.alias", ~(e.up /\ e.height < e.top /\ AliasStall(e.height)), "stuck below a block whose tx list equals another block's (data de-duplicated by commitment)">>
          >>, l, run)
    /\ UNCHANGED <<run, ih, chain, top, phase, got, lastH, nextExec, fresh, maxExec>>

TOther ==
    /\ l <= N /\ Adv
    /\ ~(e.ev \in {"Reset", "Chain", "Phase", "Deliver", "Quiesce"})
    /\ ~(Full /\ e.ev \in {"Obs", "ExecTxs", "Crash", "Restart", "NodeErr", "Panic", "Stop"})
    /\ UNCHANGED <<run, ih, chain, top, phase, got, lastH, nextExec, fresh, maxExec, viol>>

Next == TStop \/ TReset \/ TChain \/ TPhase \/ TDeliver \/ TObs \/ TExec \/ TCrash \/ TRestart \/ TNodeErr \/ TQuiesce \/ TOther
Spec == Init /\ [][Next]_vars
Finish == (l = N + 1) => ndJsonSerialize("viol.ndjson", viol)
Consumed == TLCGet("stats").diameter = N + 1
==========================================================================
