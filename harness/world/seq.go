package world

import (
	"context"
	"errors"
	"fmt"
	"sync"
	"time"

	coresequencer "github.com/evstack/ev-node/core/sequencer"
)

// T0 is the genesis instant of every harness world. Times are logged as integer
// milliseconds relative to T0 (TLC integers are 32 bit).
var T0 = time.Date(2024, 1, 1, 0, 0, 0, 0, time.UTC)

func Ms(t time.Time) int  { return int(t.Sub(T0) / time.Millisecond) }
func At(ms int) time.Time { return T0.Add(time.Duration(ms) * time.Millisecond) }

// SeqReply is one scripted answer of the sequencing layer.
type SeqReply struct {
	Kind string   // batch | empty | nil | err
	Txs  [][]byte // for batch
	TsMs int      // timestamp, ms after T0
}

// SeqDouble is a scripted coresequencer.Sequencer. When the script is exhausted it answers
// with well-formed replies (fresh non-empty batch, strictly increasing timestamp) unless
// Idle is set (then: empty batches with increasing timestamps).
type SeqDouble struct {
	// SubmitDelay: SubmitBatchTxs takes this long before the batch is in the sequencing layer
	SubmitDelay time.Duration
	// KVFormat: fresh transactions are "key=value" (the node runs on the reference key-value execution layer)
	KVFormat bool
	mu     sync.Mutex
	tr     *Tracer
	node   string
	ids    *TxIDs
	Script []SeqReply
	pos    int
	maxTs  int
	fresh  int
	Idle   bool
	// Inner, when set, is the real sequencer all calls are passed through to.
	Inner coresequencer.Sequencer
	// AfterNext, when set, runs after GetNextBatch has its answer and before it is returned (kind: batch | empty | nil | err).
	AfterNext func(kind string)
	// NowMs is used to timestamp pass-through replies deterministically when non-nil.
	Submitted [][]string
}

func NewSeqDouble(tr *Tracer, node string, ids *TxIDs) *SeqDouble {
	return &SeqDouble{tr: tr, node: node, ids: ids}
}

func (s *SeqDouble) SetMaxTs(ms int) { s.mu.Lock(); s.maxTs = ms; s.mu.Unlock() }

// Remaining reports how many scripted replies are left.
func (s *SeqDouble) Remaining() int { s.mu.Lock(); defer s.mu.Unlock(); return len(s.Script) - s.pos }

func (s *SeqDouble) SubmitBatchTxs(ctx context.Context, req coresequencer.SubmitBatchTxsRequest) (*coresequencer.SubmitBatchTxsResponse, error) {
	var txs [][]byte
	if req.Batch != nil {
		txs = req.Batch.Transactions
	}
	if d := s.SubmitDelay; d > 0 { // a sequencing layer that takes its time to acknowledge (a remote one)
		select {
		case <-time.After(d):
		case <-ctx.Done():
			return nil, ctx.Err()
		}
	}
	if s.Inner != nil {
		res, err := s.Inner.SubmitBatchTxs(ctx, req)
		s.tr.Emit("SeqSubmit", F{"node": s.node, "txs": Strs(s.ids.IDs(txs)), "ok": err == nil})
		return res, err
	}
	s.mu.Lock()
	s.Submitted = append(s.Submitted, s.ids.IDs(txs))
	s.mu.Unlock()
	s.tr.Emit("SeqSubmit", F{"node": s.node, "txs": Strs(s.ids.IDs(txs)), "ok": true})
	return &coresequencer.SubmitBatchTxsResponse{}, nil
}

func (s *SeqDouble) GetNextBatch(ctx context.Context, req coresequencer.GetNextBatchRequest) (*coresequencer.GetNextBatchResponse, error) {
	if s.Inner != nil {
		res, err := s.Inner.GetNextBatch(ctx, req)
		kind, txs, ts := "err", [][]byte(nil), 0
		if err == nil {
			switch {
			case res == nil || res.Batch == nil:
				kind = "nil"
			case len(res.Batch.Transactions) == 0:
				kind, ts = "empty", Ms(res.Timestamp)
			default:
				kind, txs, ts = "batch", res.Batch.Transactions, Ms(res.Timestamp)
			}
		}
		s.tr.Emit("SeqNext", F{"node": s.node, "kind": kind, "txs": Strs(s.ids.IDs(txs)), "ts": ts})
		if f := s.AfterNext; f != nil {
			f(kind)
		}
		return res, err
	}
	s.mu.Lock()
	var r SeqReply
	if s.pos < len(s.Script) {
		r = s.Script[s.pos]
		s.pos++
	} else if s.Idle {
		r = SeqReply{Kind: "empty", TsMs: s.maxTs + 1000}
	} else {
		s.fresh++
		tx := []byte(fmt.Sprintf("fresh-%s-%d", s.node, s.fresh))
		if s.KVFormat {
			tx = []byte(fmt.Sprintf("fresh-%s-%d=%d", s.node, s.fresh, s.fresh))
		}
		r = SeqReply{Kind: "batch", Txs: [][]byte{tx}, TsMs: s.maxTs + 1000}
	}
	if (r.Kind == "batch" || r.Kind == "empty") && r.TsMs > s.maxTs {
		s.maxTs = r.TsMs
	}
	s.mu.Unlock()
	s.tr.Emit("SeqNext", F{"node": s.node, "kind": r.Kind, "txs": Strs(s.ids.IDs(r.Txs)), "ts": r.TsMs})
	switch r.Kind {
	case "err":
		return nil, errors.New("seqdouble: scripted transient error")
	case "nil":
		return &coresequencer.GetNextBatchResponse{Batch: nil, Timestamp: At(r.TsMs)}, nil
	case "empty":
		return &coresequencer.GetNextBatchResponse{Batch: &coresequencer.Batch{Transactions: nil}, Timestamp: At(r.TsMs), BatchData: req.LastBatchData}, nil
	default:
		cp := make([][]byte, len(r.Txs))
		for i := range r.Txs {
			cp[i] = append([]byte(nil), r.Txs[i]...)
		}
		return &coresequencer.GetNextBatchResponse{Batch: &coresequencer.Batch{Transactions: cp}, Timestamp: At(r.TsMs), BatchData: req.LastBatchData}, nil
	}
}

func (s *SeqDouble) VerifyBatch(ctx context.Context, req coresequencer.VerifyBatchRequest) (*coresequencer.VerifyBatchResponse, error) {
	return &coresequencer.VerifyBatchResponse{Status: true}, nil
}
