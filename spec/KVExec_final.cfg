SPECIFICATION Spec
CONSTANTS
  Keys = {"a", "b"}
  Vals = {"1", "2"}
  MaxOps = 3
  InitRecomputes = FALSE
  FinalInRoot = TRUE
INVARIANTS EqualHistoriesEqualRoots InitIdempotent
CHECK_DEADLOCK FALSE
