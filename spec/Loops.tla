---------------------------- MODULE Loops ----------------------------
(***************************************************************************)
(* Tier I control skeleton of a node's background loops (node/full.go      *)
(* worker fan-out; block/aggregation.go, reaper.go, submitter.go,          *)
(* da_includer.go, retriever.go, store.go, sync.go): each loop is either   *)
(* in its start-up delay, waiting for a tick/signal, working, handing an   *)
(* event to another loop over a bounded channel, or has returned.  Cancel  *)
(* may arrive in any control state; the property is that afterwards every  *)
(* loop returns (Run's wg.Wait terminates).                                *)
(*                                                                         *)
(* Deviations kept as switches:                                            *)
(*   DelayIgnoresCancel = TRUE  the production loop's start-up delay is a  *)
(*                      plain sleep (pinned tree before the fix)           *)
(*   SendIgnoresCancel = TRUE   event hand-off is a plain blocking send    *)
(*                      (block/retriever.go, block/store.go): it only      *)
(*                      blocks when the channel is full                    *)
(***************************************************************************)
EXTENDS Integers, FiniteSets, TLC

CONSTANTS Producers,  \* loops that hand events to the consumer (retrieve / store polling loops)
          Others,     \* loops that only wait and work
          Cap,        \* capacity of the event channel
          GenesisInFuture, DelayIgnoresCancel, SendIgnoresCancel

Consumer == "sync"
LoopsAll == Producers \cup Others \cup {Consumer, "aggregation"}

VARIABLES pc, chan, cancelled, delayLeft
vars == <<pc, chan, cancelled, delayLeft>>

Init == /\ pc = [x \in LoopsAll |-> IF x = "aggregation" /\ GenesisInFuture THEN "delay" ELSE "waiting"]
        /\ chan = 0 /\ cancelled = FALSE /\ delayLeft = IF GenesisInFuture THEN 2 ELSE 0

Cancel == ~cancelled /\ cancelled' = TRUE /\ UNCHANGED <<pc, chan, delayLeft>>

\* time passes for the start-up delay
DelayTick == /\ pc["aggregation"] = "delay" /\ delayLeft > 0 /\ delayLeft' = delayLeft - 1
             /\ (cancelled => DelayIgnoresCancel)      \* a cancellable wait ends before more time passes
             /\ UNCHANGED <<pc, chan, cancelled>>
DelayEnd == /\ pc["aggregation"] = "delay" /\ (delayLeft = 0 \/ (cancelled /\ ~DelayIgnoresCancel))
            /\ pc' = [pc EXCEPT !["aggregation"] = IF cancelled /\ ~DelayIgnoresCancel THEN "returned" ELSE "waiting"]
            /\ UNCHANGED <<chan, cancelled, delayLeft>>

Wake(x) == /\ pc[x] = "waiting" /\ ~cancelled /\ pc' = [pc EXCEPT ![x] = "working"] /\ UNCHANGED <<chan, cancelled, delayLeft>>
Return(x) == /\ pc[x] = "waiting" /\ cancelled /\ pc' = [pc EXCEPT ![x] = "returned"] /\ UNCHANGED <<chan, cancelled, delayLeft>>
\* work ends (every blocking call inside takes the context); a producer then hands an event over
WorkDone(x) == /\ pc[x] = "working"
               /\ pc' = [pc EXCEPT ![x] = IF x \in Producers /\ ~cancelled THEN "sending" ELSE "waiting"]
               /\ UNCHANGED <<chan, cancelled, delayLeft>>
Send(x) == /\ pc[x] = "sending" /\ chan < Cap /\ chan' = chan + 1 /\ pc' = [pc EXCEPT ![x] = "waiting"]
           /\ UNCHANGED <<cancelled, delayLeft>>
AbortSend(x) == /\ pc[x] = "sending" /\ cancelled /\ ~SendIgnoresCancel /\ pc' = [pc EXCEPT ![x] = "waiting"]
                /\ UNCHANGED <<chan, cancelled, delayLeft>>
Recv == /\ pc[Consumer] = "waiting" /\ ~cancelled /\ chan > 0 /\ chan' = chan - 1 /\ UNCHANGED <<pc, cancelled, delayLeft>>

Next == Cancel \/ DelayTick \/ DelayEnd \/ Recv
        \/ (\E x \in LoopsAll : Wake(x) \/ Return(x) \/ WorkDone(x))
        \/ (\E p \in Producers : Send(p) \/ AbortSend(p))
Spec == Init /\ [][Next]_vars
Fair == /\ WF_vars(DelayEnd) /\ WF_vars(DelayTick)
        /\ \A y \in LoopsAll : WF_vars(Return(y)) /\ WF_vars(WorkDone(y))
        /\ \A z \in Producers : WF_vars(Send(z)) /\ WF_vars(AbortSend(z))
LiveSpec == Spec /\ Fair

AllReturned == \A x \in LoopsAll : pc[x] = "returned"
\* C13: once asked to stop, every activity returns ... promptly: without waiting for the start-up delay to run out
StopsEventually == cancelled ~> AllReturned
StopsPromptly == [][(cancelled /\ pc["aggregation"] = "delay") => ~(delayLeft' < delayLeft)]_vars
==========================================================================
