---------------------------- MODULE TxFlow ----------------------------
(***************************************************************************)
(* Tier I model of a transaction's way from the execution layer's mempool  *)
(* into the chain: block/reaper.go SubmitTxs (get, filter by the durable   *)
(* seen-set, hand off, mark seen), the single sequencer's durable queue    *)
(* (hand-off = durable put, take = durable delete) and the producer        *)
(* (block/manager.go: take a batch, early-save the block that contains it, *)
(* commit).  Every durable write is its own action; Crash may strike       *)
(* between any two.                                                        *)
(*                                                                         *)
(* Deviation of the pinned tree kept as a named action set:                *)
(*   PopBeforeSave = TRUE  the batch is durably removed from the queue     *)
(*                    before the block containing it is first saved        *)
(*                    (known finding C11-pop-before-save): a crash in      *)
(*                    between loses its transactions, and the seen-set     *)
(*                    forbids handing them off again                       *)
(***************************************************************************)
EXTENDS Integers, Sequences, FiniteSets, TLC

CONSTANTS Txs, Bound, MaxCrashes, PopBeforeSave,
          WriteFails, \* BOOLEAN: a datastore write may be refused with an error (the process lives on); counted with the crashes
          ReInject   \* BOOLEAN: the same transaction may be put into the mempool again (off in the exhaustive runs: self-loops only)

VARIABLES mempool,  \* transactions the execution layer offers (retained until executed): a bag, tx |-> number of copies
                    \* (the same bytes offered again while the first copy waits are there twice; an executed batch
                    \* takes one copy of each of its transactions away)
          seen,     \* durable seen-set of the reaper
          queue,    \* durable FIFO of batches (each a set of txs) in the sequencing layer
          pcR, cand, \* reaper control: idle | handed(cand)   cand = batch being handed off
          pcP, cur,  \* producer control: idle | took | saved     cur = batch in production
          pend,      \* durable: block saved early but not yet committed (a set of txs) or {}
          chain,     \* committed blocks (sequence of sets of txs)
          injected, crashes, excused

vars == <<mempool, seen, queue, pcR, cand, pcP, cur, pend, chain, injected, crashes, excused>>

MpSet == DOMAIN mempool
BagAdd(b, t) == IF t \in DOMAIN b THEN [b EXCEPT ![t] = @ + 1] ELSE b @@ (t :> 1)
\* take m[t] copies of every t in DOMAIN m away (never below none)
BagSubN(b, m) == LET dec == [t \in DOMAIN b |-> IF t \in DOMAIN m THEN (IF b[t] > m[t] THEN b[t] - m[t] ELSE 0) ELSE b[t]]
                 IN [t \in {x \in DOMAIN dec : dec[x] > 0} |-> dec[t]]
BagSub(b, S) == BagSubN(b, [t \in S |-> 1])

InChain(t) == \E i \in 1 .. Len(chain) : t \in chain[i]

Init == /\ mempool = <<>> /\ seen = {} /\ queue = <<>> /\ pcR = "idle" /\ cand = {} /\ pcP = "idle" /\ cur = {}
        /\ pend = {} /\ chain = <<>> /\ injected = {} /\ crashes = 0 /\ excused = {}

\* (the same bytes may be offered again later: they are in the mempool again, and the seen-set filters them)
Inject(t) == /\ (t \notin injected \/ ReInject) /\ injected' = injected \cup {t} /\ mempool' = BagAdd(mempool, t)
             /\ UNCHANGED <<seen, queue, pcR, cand, pcP, cur, pend, chain, crashes, excused>>

\* reaper: get the mempool, keep what is not yet seen, hand it off (durable put in the queue) or be refused
ReapHandOff ==
    /\ pcR = "idle" /\ MpSet \ seen # {}
    /\ IF Len(queue) >= Bound
          THEN UNCHANGED <<queue, pcR, cand>>                      \* refused: queue full, retried on the next tick
          ELSE /\ queue' = Append(queue, MpSet \ seen) /\ cand' = MpSet \ seen /\ pcR' = "handed"
    /\ UNCHANGED <<mempool, seen, pcP, cur, pend, chain, injected, crashes, excused>>

\* ... then mark seen, one durable write per transaction
MarkSeen(t) ==
    /\ pcR = "handed" /\ t \in cand
    /\ seen' = seen \cup {t} /\ cand' = cand \ {t}
    /\ pcR' = IF cand' = {} THEN "idle" ELSE "handed"
    /\ UNCHANGED <<mempool, queue, pcP, cur, pend, chain, injected, crashes, excused>>

\* producer: use a block saved earlier, or take the next batch
UsePending == /\ pcP = "idle" /\ pend # {} /\ cur' = pend /\ pcP' = "saved"
              /\ UNCHANGED <<mempool, seen, queue, pcR, cand, pend, chain, injected, crashes, excused>>

Take == /\ pcP = "idle" /\ pend = {} /\ queue # <<>>
        /\ cur' = Head(queue)
        /\ IF PopBeforeSave THEN queue' = Tail(queue) /\ pcP' = "took"
                            ELSE queue' = queue /\ pcP' = "took"
        /\ UNCHANGED <<mempool, seen, pcR, cand, pend, chain, injected, crashes, excused>>

EarlySave == /\ pcP = "took" /\ pend' = cur /\ pcP' = "saved"
             /\ queue' = IF PopBeforeSave THEN queue ELSE Tail(queue)     \* repaired: remove from the queue only now
             /\ UNCHANGED <<mempool, seen, pcR, cand, cur, chain, injected, crashes, excused>>

\* (mult: how many copies of each transaction the executed batch held - one each, unless the same bytes were
\* offered twice before one hand-off)
CommitN(mult) ==
          /\ pcP = "saved" /\ DOMAIN mult = cur /\ chain' = Append(chain, cur) /\ pend' = {} /\ mempool' = BagSubN(mempool, mult)
          /\ cur' = {} /\ pcP' = "idle"
          /\ UNCHANGED <<seen, queue, pcR, cand, injected, crashes, excused>>
Commit == CommitN([t \in cur |-> 1])

Crash == /\ crashes < MaxCrashes /\ crashes' = crashes + 1
         \* the window of the known finding: taken from the queue, not yet saved
         /\ excused' = IF PopBeforeSave /\ pcP = "took" THEN excused \cup cur ELSE excused
         /\ pcR' = "idle" /\ cand' = {} /\ pcP' = "idle" /\ cur' = {}
         /\ UNCHANGED <<mempool, seen, queue, pend, chain, injected>>

\* a refused write of a seen-marker: the reaper goes on with the next one; the transaction stays unmarked and is handed
\* off again by the next round (at-least-once)
ReaperFail(t) == /\ WriteFails /\ pcR = "handed" /\ t \in cand /\ crashes < MaxCrashes /\ crashes' = crashes + 1
                 /\ cand' = cand \ {t} /\ pcR' = IF cand' = {} THEN "idle" ELSE "handed"
                 /\ UNCHANGED <<mempool, seen, queue, pcP, cur, pend, chain, injected, excused>>
\* ... or the production step (same window as a crash between take and first save)
ProducerFail == /\ WriteFails /\ pcP \in {"took", "saved"} /\ crashes < MaxCrashes /\ crashes' = crashes + 1
                /\ excused' = IF PopBeforeSave /\ pcP = "took" THEN excused \cup cur ELSE excused
                /\ pcP' = "idle" /\ cur' = {}
                /\ UNCHANGED <<mempool, seen, queue, pcR, cand, pend, chain, injected>>

Next == \/ ProducerFail
        \/ \E t \in Txs : Inject(t) \/ MarkSeen(t) \/ ReaperFail(t)
        \/ ReapHandOff \/ UsePending \/ Take \/ EarlySave \/ Commit \/ Crash
Spec == Init /\ [][Next]_vars
LiveSpec == Spec /\ WF_vars(ReapHandOff) /\ WF_vars(\E t \in Txs : MarkSeen(t)) /\ WF_vars(UsePending) /\ WF_vars(Take) /\ WF_vars(EarlySave) /\ WF_vars(Commit)

\* C11
Quiescent == pcR = "idle" /\ pcP = "idle" /\ queue = <<>> /\ pend = {} /\ MpSet \ seen = {}
NoLoss == Quiescent => \A t \in injected : InChain(t) \/ t \in excused
NoLossStrict == Quiescent => \A t \in injected : InChain(t)
NoDupWithoutCrash == crashes = 0 => \A t \in Txs : Cardinality({i \in 1 .. Len(chain) : t \in chain[i]}) <= 1
EventuallyIncluded == \A t \in Txs : (t \in injected) ~> (InChain(t) \/ t \in excused)
==========================================================================
