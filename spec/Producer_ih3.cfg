SPECIFICATION Spec
CONSTANTS
  IH = 3
  MaxH = 5
  MaxReplies = 3
  MaxCrashes = 2
  TxLists <- MC_TxLists
  GuardEmpty = TRUE
  StateFirst = TRUE
  Rec = FALSE
INVARIANTS ChainValid BlocksFromBatches AgreeAtIdle PublishedCommitted ExecInOrder CanRestart
PROPERTIES NoRewrite HeightMonotone
VIEW View
CHECK_DEADLOCK FALSE
