package world

import (
	"sync/atomic"
	coreexecutor "github.com/evstack/ev-node/core/execution"
	"context"
	"crypto/sha256"
	"encoding/hex"
	"errors"
	"fmt"
	"sync"
	"time"
)

// TxIDs maps transaction bytes to small stable ids ("t1", "t2", ...) so that traces carry
// opaque identities instead of bytes. Ids are assigned by first appearance, or pre-registered.
type TxIDs struct {
	mu  sync.Mutex
	ids map[string]string
	n   int
}

func NewTxIDs() *TxIDs { return &TxIDs{ids: map[string]string{}} }

func (t *TxIDs) Name(tx []byte, name string) {
	t.mu.Lock()
	defer t.mu.Unlock()
	t.ids[string(tx)] = name
}

func (t *TxIDs) ID(tx []byte) string {
	t.mu.Lock()
	defer t.mu.Unlock()
	if id, ok := t.ids[string(tx)]; ok {
		return id
	}
	t.n++
	id := fmt.Sprintf("t%d", t.n)
	t.ids[string(tx)] = id
	return id
}

func (t *TxIDs) IDs(txs [][]byte) []string {
	out := make([]string, 0, len(txs))
	for _, tx := range txs {
		out = append(out, t.ID(tx))
	}
	return out
}

// ExecDouble is a contract-conforming execution layer. Its state root is a pure function
// of the previous root and the executed transactions (root' = H(root, txs...)), and the
// double remembers for every root the ordered list of tx ids that produced it, so that the
// harness can log a header's AppHash as "the list of transactions executed before it".
// The mempool retains transactions until they are executed.
type ExecDouble struct {
	mu      sync.Mutex
	tr      *Tracer
	node    string
	ids     *TxIDs
	book    *RootBook
	genesis []byte
	mempool [][]byte
	// FailNext makes the next n ExecuteTxs calls fail.
	FailNext int
	// EmptyRootNext makes the next n successful ExecuteTxs calls return an empty state root (an execution layer
	// that has no root to report for a block); the root book then knows the empty root as "everything executed so far".
	EmptyRootNext int
	// FailFinal makes the next n SetFinal calls fail.
	FailFinal int
	Finals    []int
	// Gate, when non-nil, is received from before ExecuteTxs proceeds (scheduler handle).
	Gate chan struct{}
	// Probe, when set, is sampled when SetFinal is called: the DA-included height reported at that instant.
	Probe func() int
	// FinalGate, when non-nil, is received from before SetFinal proceeds. Like a remote execution
	// layer, a gated call honours its context: it fails with ctx.Err() when the context ends first.
	FinalGate chan struct{}
	// FinalSlow: SetFinal takes this long and does NOT honour its context (a local execution layer busy with a
	// commit): whoever waits for the node's workers has to wait for it
	FinalSlow time.Duration
	// InFlight counts the calls of the node into the execution layer that have not returned yet.
	InFlight atomic.Int32
	// Inner, when set, is a real execution layer (the reference key-value executor): the double keeps its gates,
	// scripted failures, trace records, mempool and root book, but state roots come from Inner and Inner's own
	// durable state decides what a (re-)execution does.
	Inner coreexecutor.Executor
	// Reopen, when set, is called whenever the node starts: it returns the Inner to use from then on (a new
	// executor instance on the same database - the execution layer restarts with the node).
	Reopen func() coreexecutor.Executor
	// Fresh, when set, returns a new instance of the same execution layer on an EMPTY database: the observer replays
	// the stored chain into it and compares the roots with the ones the headers carry (an execution layer with its
	// own durable state can drift away from what the stored chain says)
	Fresh func() coreexecutor.Executor
	// TxsGate, when non-nil, is received from before GetTxs proceeds (a mempool query that stalls); honours the context.
	TxsGate chan struct{}
	// AtGate, when set, is called when a call starts waiting at its gate ("exec" / "final" / "gettxs").
	AtGate func(which string)
}

func NewExecDouble(tr *Tracer, node string, ids *TxIDs) *ExecDouble {
	g := sha256.Sum256([]byte("genesis-root"))
	e := &ExecDouble{tr: tr, node: node, ids: ids, book: &RootBook{roots: map[string][]string{}}, genesis: g[:]}
	e.book.roots[hex.EncodeToString(g[:])] = []string{}
	return e
}

// RootBook remembers which ordered tx-id list every state root stands for. It can be
// shared by the doubles of several nodes so that they decode each other's roots.
type RootBook struct {
	mu    sync.Mutex
	roots map[string][]string // hex(root) -> ordered executed tx ids
}

func (b *RootBook) get(root []byte) ([]string, bool) {
	b.mu.Lock()
	defer b.mu.Unlock()
	l, ok := b.roots[hex.EncodeToString(root)]
	return l, ok
}

func (b *RootBook) put(root []byte, l []string) {
	b.mu.Lock()
	defer b.mu.Unlock()
	b.roots[hex.EncodeToString(root)] = l
}

// ShareRoots makes two doubles (two nodes) decode each other's roots.
func (e *ExecDouble) ShareRoots(o *ExecDouble) { e.book = o.book }

func (e *ExecDouble) InitChain(ctx context.Context, genesisTime time.Time, initialHeight uint64, chainID string) ([]byte, uint64, error) {
	e.tr.Emit("ExecInit", F{"node": e.node, "ih": int(initialHeight)})
	if e.Inner != nil {
		root, mb, err := e.Inner.InitChain(ctx, genesisTime, initialHeight, chainID)
		if err == nil {
			if _, known := e.book.get(root); !known {
				e.book.put(root, []string{})
			}
		}
		return root, mb, err
	}
	return append([]byte(nil), e.genesis...), 1 << 20, nil
}

func (e *ExecDouble) Inject(txs ...[]byte) {
	e.mu.Lock()
	defer e.mu.Unlock()
	e.mempool = append(e.mempool, txs...)
}

func (e *ExecDouble) GetTxs(ctx context.Context) ([][]byte, error) {
	e.InFlight.Add(1)
	defer e.InFlight.Add(-1)
	if g := e.TxsGate; g != nil {
		if e.AtGate != nil {
			e.AtGate("gettxs")
		}
		select {
		case <-g:
		case <-ctx.Done():
			return nil, ctx.Err()
		}
	}
	e.mu.Lock()
	out := make([][]byte, len(e.mempool))
	copy(out, e.mempool)
	e.mu.Unlock()
	e.tr.Emit("ExecGetTxs", F{"node": e.node, "txs": Strs(e.ids.IDs(out))})
	return out, nil
}

// RootIDs decodes a root into the list of executed tx ids; ok=false for an unknown root.
func (e *ExecDouble) RootIDs(root []byte) ([]string, bool) {
	return e.book.get(root)
}

func (e *ExecDouble) ExecuteTxs(ctx context.Context, txs [][]byte, blockHeight uint64, timestamp time.Time, prevStateRoot []byte) ([]byte, uint64, error) {
	e.InFlight.Add(1)
	defer e.InFlight.Add(-1)
	if e.Gate != nil {
		if e.AtGate != nil {
			e.AtGate("exec")
		}
		select {
		case <-e.Gate:
		case <-ctx.Done():
			return nil, 0, ctx.Err()
		}
	}
	prevIDs, known := e.book.get(prevStateRoot)
	ids := e.ids.IDs(txs)
	e.mu.Lock()
	if e.FailNext > 0 {
		e.FailNext--
		e.mu.Unlock()
		e.tr.Emit("ExecTxs", F{"node": e.node, "h": int(blockHeight), "txs": Strs(ids), "prev": Strs(prevIDs), "prevok": known, "ok": false})
		return nil, 0, errors.New("execdouble: scripted execution failure")
	}
	if e.Inner != nil {
		e.mu.Unlock()
		root, mb, err := e.Inner.ExecuteTxs(ctx, txs, blockHeight, timestamp, prevStateRoot)
		if err != nil {
			e.tr.Emit("ExecTxs", F{"node": e.node, "h": int(blockHeight), "txs": Strs(ids), "prev": Strs(prevIDs), "prevok": known, "ok": false})
			return nil, 0, err
		}
		if known {
			nl := make([]string, 0, len(prevIDs)+len(ids))
			nl = append(nl, prevIDs...)
			nl = append(nl, ids...)
			e.book.put(root, nl)
		}
		e.tr.Emit("ExecTxs", F{"node": e.node, "h": int(blockHeight), "txs": Strs(ids), "prev": Strs(prevIDs), "prevok": known, "ok": true})
		return root, mb, nil
	}
	hsh := sha256.New()
	hsh.Write(prevStateRoot)
	for _, tx := range txs {
		var l [4]byte
		l[0], l[1], l[2], l[3] = byte(len(tx)>>24), byte(len(tx)>>16), byte(len(tx)>>8), byte(len(tx))
		hsh.Write(l[:])
		hsh.Write(tx)
	}
	hsh.Write([]byte{0xff})
	root := hsh.Sum(nil)
	if e.EmptyRootNext > 0 {
		e.EmptyRootNext--
		root = []byte{}
	}
	if known {
		nl := make([]string, 0, len(prevIDs)+len(ids))
		nl = append(nl, prevIDs...)
		nl = append(nl, ids...)
		e.book.put(root, nl)
	}
	// executed transactions leave the mempool
	if len(txs) > 0 {
		rm := map[string]int{}
		for _, tx := range txs {
			rm[string(tx)]++
		}
		kept := e.mempool[:0:0]
		for _, tx := range e.mempool {
			if rm[string(tx)] > 0 {
				rm[string(tx)]--
				continue
			}
			kept = append(kept, tx)
		}
		e.mempool = kept
	}
	e.mu.Unlock()
	e.tr.Emit("ExecTxs", F{"node": e.node, "h": int(blockHeight), "txs": Strs(ids), "prev": Strs(prevIDs), "prevok": known, "ok": true})
	return root, 1 << 20, nil
}

func (e *ExecDouble) SetFinal(ctx context.Context, blockHeight uint64) error {
	e.InFlight.Add(1)
	defer e.InFlight.Add(-1)
	if e.FinalGate != nil {
		if e.AtGate != nil {
			e.AtGate("final")
		}
		select {
		case <-e.FinalGate:
		case <-ctx.Done():
			e.tr.Emit("ExecFinal", F{"node": e.node, "h": int(blockHeight), "ok": false, "incl": -1})
			return ctx.Err()
		}
	}
	if e.FinalSlow > 0 {
		if e.AtGate != nil {
			e.AtGate("final")
		}
		time.Sleep(e.FinalSlow)
	}
	incl := -1
	if p := e.Probe; p != nil {
		incl = p()
	}
	e.mu.Lock()
	if e.FailFinal > 0 {
		e.FailFinal--
		e.mu.Unlock()
		e.tr.Emit("ExecFinal", F{"node": e.node, "h": int(blockHeight), "ok": false, "incl": incl})
		return errors.New("execdouble: scripted finalize failure")
	}
	e.Finals = append(e.Finals, int(blockHeight))
	e.mu.Unlock()
	if e.Inner != nil {
		if err := e.Inner.SetFinal(ctx, blockHeight); err != nil {
			e.tr.Emit("ExecFinal", F{"node": e.node, "h": int(blockHeight), "ok": false, "incl": incl})
			return err
		}
	}
	e.tr.Emit("ExecFinal", F{"node": e.node, "h": int(blockHeight), "ok": true, "incl": incl})
	return nil
}
