---------------------------- MODULE TraceLib ----------------------------
(***************************************************************************)
(* Shared machinery of the tier-M (monitor) specifications.                *)
(*                                                                         *)
(* A monitor reads one world trace recorded from the real code             *)
(* (trace.ndjson in the working directory), consumes exactly one record    *)
(* per step, reconstructs the abstract state of the corresponding tier-I   *)
(* module from the logged fields, and evaluates the property predicates.   *)
(* Failing predicates are COLLECTED (variable viol) instead of stopping    *)
(* TLC at the first one, because a listed known finding must not mask a    *)
(* different violation later in the same file.  At the end of the trace    *)
(* the list is written to viol.ndjson; the POSTCONDITION checks that every *)
(* record was consumed.                                                    *)
(***************************************************************************)
EXTENDS Integers, Sequences, FiniteSets, TLC, Json, IOUtils, SequencesExt

Trace == ndJsonDeserialize("trace.ndjson")
N == Len(Trace)

\* a check is <<name, holds, detail>>
Failed(checks, l, run) ==
    LET bad == SelectSeq(checks, LAMBDA c : ~c[2])
    IN [i \in 1 .. Len(bad) |-> [l |-> l, inv |-> bad[i][1], run |-> run, detail |-> bad[i][3]]]

MaxOf(a, b) == IF a > b THEN a ELSE b
MinOf(a, b) == IF a < b THEN a ELSE b

RECURSIVE FlatSeq(_)
FlatSeq(ss) == IF ss = <<>> THEN <<>> ELSE Head(ss) \o FlatSeq(Tail(ss))

IsPrefixOf(s, t) == Len(s) <= Len(t) /\ \A i \in 1 .. Len(s) : s[i] = t[i]
==========================================================================
