---- MODULE MCSyncer_TTrace_1790364284 ----
EXTENDS Sequences, TLCExt, MCSyncer, Toolbox, Naturals, TLC

_expression ==
    LET MCSyncer_TEExpression == INSTANCE MCSyncer_TEExpression
    IN MCSyncer_TEExpression!expression
----

_trace ==
    LET MCSyncer_TETrace == INSTANCE MCSyncer_TETrace
    IN MCSyncer_TETrace!trace
----

_inv ==
    ~(
        TLCGet("level") = Len(_TETrace)
        /\
        seenH = ({1, 2, 3})
        /\
        execLog = (<<1>>)
        /\
        crashes = (1)
        /\
        kv = ([height |-> 1, stateH |-> 1, blocks |-> {1}])
        /\
        wc = (0)
        /\
        seenD = ({<<3, <<"a">>>>})
        /\
        got = ({[h |-> 1, kind |-> "hdr"], [h |-> 1, kind |-> "data"], [h |-> 2, kind |-> "hdr"], [h |-> 3, kind |-> "hdr"], [h |-> 3, kind |-> "data"]})
        /\
        restarts = (1)
        /\
        hist = (<<>>)
        /\
        pc = ("idle")
        /\
        left = (([h |-> 1, kind |-> "hdr"] :> 0 @@ [h |-> 1, kind |-> "data"] :> 0 @@ [h |-> 2, kind |-> "hdr"] :> 0 @@ [h |-> 3, kind |-> "hdr"] :> 0 @@ [h |-> 3, kind |-> "data"] :> 0))
        /\
        curEv = ([h |-> 0, kind |-> "none"])
        /\
        files = ([hc |-> {1, 2, 3}, dc |-> {2, 3}, seenH |-> {1, 2, 3}, seenD |-> {<<3, <<"a">>>>}])
        /\
        hc = ({1, 2, 3})
        /\
        dc = ({2, 3})
    )
----

_init ==
    /\ seenD = _TETrace[1].seenD
    /\ seenH = _TETrace[1].seenH
    /\ pc = _TETrace[1].pc
    /\ execLog = _TETrace[1].execLog
    /\ dc = _TETrace[1].dc
    /\ files = _TETrace[1].files
    /\ curEv = _TETrace[1].curEv
    /\ hist = _TETrace[1].hist
    /\ left = _TETrace[1].left
    /\ hc = _TETrace[1].hc
    /\ crashes = _TETrace[1].crashes
    /\ got = _TETrace[1].got
    /\ restarts = _TETrace[1].restarts
    /\ wc = _TETrace[1].wc
    /\ kv = _TETrace[1].kv
----

_next ==
    /\ \E i,j \in DOMAIN _TETrace:
        /\ \/ /\ j = i + 1
              /\ i = TLCGet("level")
        /\ seenD  = _TETrace[i].seenD
        /\ seenD' = _TETrace[j].seenD
        /\ seenH  = _TETrace[i].seenH
        /\ seenH' = _TETrace[j].seenH
        /\ pc  = _TETrace[i].pc
        /\ pc' = _TETrace[j].pc
        /\ execLog  = _TETrace[i].execLog
        /\ execLog' = _TETrace[j].execLog
        /\ dc  = _TETrace[i].dc
        /\ dc' = _TETrace[j].dc
        /\ files  = _TETrace[i].files
        /\ files' = _TETrace[j].files
        /\ curEv  = _TETrace[i].curEv
        /\ curEv' = _TETrace[j].curEv
        /\ hist  = _TETrace[i].hist
        /\ hist' = _TETrace[j].hist
        /\ left  = _TETrace[i].left
        /\ left' = _TETrace[j].left
        /\ hc  = _TETrace[i].hc
        /\ hc' = _TETrace[j].hc
        /\ crashes  = _TETrace[i].crashes
        /\ crashes' = _TETrace[j].crashes
        /\ got  = _TETrace[i].got
        /\ got' = _TETrace[j].got
        /\ restarts  = _TETrace[i].restarts
        /\ restarts' = _TETrace[j].restarts
        /\ wc  = _TETrace[i].wc
        /\ wc' = _TETrace[j].wc
        /\ kv  = _TETrace[i].kv
        /\ kv' = _TETrace[j].kv

\* Uncomment the ASSUME below to write the states of the error trace
\* to the given file in Json format. Note that you can pass any tuple
\* to `JsonSerialize`. For example, a sub-sequence of _TETrace.
    \* ASSUME
    \*     LET J == INSTANCE Json
    \*         IN J!JsonSerialize("MCSyncer_TTrace_1790364284.json", _TETrace)

=============================================================================

 Note that you can extract this module `MCSyncer_TEExpression`
  to a dedicated file to reuse `expression` (the module in the 
  dedicated `MCSyncer_TEExpression.tla` file takes precedence 
  over the module `MCSyncer_TEExpression` below).

---- MODULE MCSyncer_TEExpression ----
EXTENDS Sequences, TLCExt, MCSyncer, Toolbox, Naturals, TLC

expression == 
    [
        \* To hide variables of the `MCSyncer` spec from the error trace,
        \* remove the variables below.  The trace will be written in the order
        \* of the fields of this record.
        seenD |-> seenD
        ,seenH |-> seenH
        ,pc |-> pc
        ,execLog |-> execLog
        ,dc |-> dc
        ,files |-> files
        ,curEv |-> curEv
        ,hist |-> hist
        ,left |-> left
        ,hc |-> hc
        ,crashes |-> crashes
        ,got |-> got
        ,restarts |-> restarts
        ,wc |-> wc
        ,kv |-> kv
        
        \* Put additional constant-, state-, and action-level expressions here:
        \* ,_stateNumber |-> _TEPosition
        \* ,_seenDUnchanged |-> seenD = seenD'
        
        \* Format the `seenD` variable as Json value.
        \* ,_seenDJson |->
        \*     LET J == INSTANCE Json
        \*     IN J!ToJson(seenD)
        
        \* Lastly, you may build expressions over arbitrary sets of states by
        \* leveraging the _TETrace operator.  For example, this is how to
        \* count the number of times a spec variable changed up to the current
        \* state in the trace.
        \* ,_seenDModCount |->
        \*     LET F[s \in DOMAIN _TETrace] ==
        \*         IF s = 1 THEN 0
        \*         ELSE IF _TETrace[s].seenD # _TETrace[s-1].seenD
        \*             THEN 1 + F[s-1] ELSE F[s-1]
        \*     IN F[_TEPosition - 1]
    ]

=============================================================================



Parsing and semantic processing can take forever if the trace below is long.
 In this case, it is advised to uncomment the module below to deserialize the
 trace from a generated binary file.

\*
\*---- MODULE MCSyncer_TETrace ----
\*EXTENDS IOUtils, MCSyncer, TLC
\*
\*trace == IODeserialize("MCSyncer_TTrace_1790364284.bin", TRUE)
\*
\*=============================================================================
\*

---- MODULE MCSyncer_TETrace ----
EXTENDS MCSyncer, TLC

trace == 
    <<
    ([seenH |-> {},execLog |-> <<>>,crashes |-> 0,kv |-> [height |-> 0, stateH |-> 0, blocks |-> {}],wc |-> 0,seenD |-> {},got |-> {},restarts |-> 0,hist |-> <<>>,pc |-> "idle",left |-> ([h |-> 1, kind |-> "hdr"] :> 2 @@ [h |-> 1, kind |-> "data"] :> 2 @@ [h |-> 2, kind |-> "hdr"] :> 2 @@ [h |-> 3, kind |-> "hdr"] :> 2 @@ [h |-> 3, kind |-> "data"] :> 2),curEv |-> [h |-> 0, kind |-> "none"],files |-> [hc |-> {}, dc |-> {}, seenH |-> {}, seenD |-> {}],hc |-> {},dc |-> {}]),
    ([seenH |-> {},execLog |-> <<>>,crashes |-> 0,kv |-> [height |-> 0, stateH |-> 0, blocks |-> {}],wc |-> 0,seenD |-> {},got |-> {[h |-> 1, kind |-> "hdr"]},restarts |-> 0,hist |-> <<>>,pc |-> "try",left |-> ([h |-> 1, kind |-> "hdr"] :> 1 @@ [h |-> 1, kind |-> "data"] :> 2 @@ [h |-> 2, kind |-> "hdr"] :> 2 @@ [h |-> 3, kind |-> "hdr"] :> 2 @@ [h |-> 3, kind |-> "data"] :> 2),curEv |-> [h |-> 1, kind |-> "hdr"],files |-> [hc |-> {}, dc |-> {}, seenH |-> {}, seenD |-> {}],hc |-> {1},dc |-> {}]),
    ([seenH |-> {1},execLog |-> <<>>,crashes |-> 0,kv |-> [height |-> 0, stateH |-> 0, blocks |-> {}],wc |-> 0,seenD |-> {},got |-> {[h |-> 1, kind |-> "hdr"]},restarts |-> 0,hist |-> <<>>,pc |-> "idle",left |-> ([h |-> 1, kind |-> "hdr"] :> 1 @@ [h |-> 1, kind |-> "data"] :> 2 @@ [h |-> 2, kind |-> "hdr"] :> 2 @@ [h |-> 3, kind |-> "hdr"] :> 2 @@ [h |-> 3, kind |-> "data"] :> 2),curEv |-> [h |-> 0, kind |-> "none"],files |-> [hc |-> {}, dc |-> {}, seenH |-> {}, seenD |-> {}],hc |-> {1},dc |-> {}]),
    ([seenH |-> {1},execLog |-> <<>>,crashes |-> 0,kv |-> [height |-> 0, stateH |-> 0, blocks |-> {}],wc |-> 0,seenD |-> {},got |-> {[h |-> 1, kind |-> "hdr"], [h |-> 3, kind |-> "hdr"]},restarts |-> 0,hist |-> <<>>,pc |-> "try",left |-> ([h |-> 1, kind |-> "hdr"] :> 1 @@ [h |-> 1, kind |-> "data"] :> 2 @@ [h |-> 2, kind |-> "hdr"] :> 2 @@ [h |-> 3, kind |-> "hdr"] :> 1 @@ [h |-> 3, kind |-> "data"] :> 2),curEv |-> [h |-> 3, kind |-> "hdr"],files |-> [hc |-> {}, dc |-> {}, seenH |-> {}, seenD |-> {}],hc |-> {1, 3},dc |-> {}]),
    ([seenH |-> {1, 3},execLog |-> <<>>,crashes |-> 0,kv |-> [height |-> 0, stateH |-> 0, blocks |-> {}],wc |-> 0,seenD |-> {},got |-> {[h |-> 1, kind |-> "hdr"], [h |-> 3, kind |-> "hdr"]},restarts |-> 0,hist |-> <<>>,pc |-> "idle",left |-> ([h |-> 1, kind |-> "hdr"] :> 1 @@ [h |-> 1, kind |-> "data"] :> 2 @@ [h |-> 2, kind |-> "hdr"] :> 2 @@ [h |-> 3, kind |-> "hdr"] :> 1 @@ [h |-> 3, kind |-> "data"] :> 2),curEv |-> [h |-> 0, kind |-> "none"],files |-> [hc |-> {}, dc |-> {}, seenH |-> {}, seenD |-> {}],hc |-> {1, 3},dc |-> {}]),
    ([seenH |-> {1, 3},execLog |-> <<>>,crashes |-> 0,kv |-> [height |-> 0, stateH |-> 0, blocks |-> {}],wc |-> 0,seenD |-> {},got |-> {[h |-> 1, kind |-> "hdr"], [h |-> 2, kind |-> "hdr"], [h |-> 3, kind |-> "hdr"]},restarts |-> 0,hist |-> <<>>,pc |-> "try",left |-> ([h |-> 1, kind |-> "hdr"] :> 1 @@ [h |-> 1, kind |-> "data"] :> 2 @@ [h |-> 2, kind |-> "hdr"] :> 1 @@ [h |-> 3, kind |-> "hdr"] :> 1 @@ [h |-> 3, kind |-> "data"] :> 2),curEv |-> [h |-> 2, kind |-> "hdr"],files |-> [hc |-> {}, dc |-> {}, seenH |-> {}, seenD |-> {}],hc |-> {1, 2, 3},dc |-> {2}]),
    ([seenH |-> {1, 2, 3},execLog |-> <<>>,crashes |-> 0,kv |-> [height |-> 0, stateH |-> 0, blocks |-> {}],wc |-> 0,seenD |-> {},got |-> {[h |-> 1, kind |-> "hdr"], [h |-> 2, kind |-> "hdr"], [h |-> 3, kind |-> "hdr"]},restarts |-> 0,hist |-> <<>>,pc |-> "idle",left |-> ([h |-> 1, kind |-> "hdr"] :> 1 @@ [h |-> 1, kind |-> "data"] :> 2 @@ [h |-> 2, kind |-> "hdr"] :> 1 @@ [h |-> 3, kind |-> "hdr"] :> 1 @@ [h |-> 3, kind |-> "data"] :> 2),curEv |-> [h |-> 0, kind |-> "none"],files |-> [hc |-> {}, dc |-> {}, seenH |-> {}, seenD |-> {}],hc |-> {1, 2, 3},dc |-> {2}]),
    ([seenH |-> {1, 2, 3},execLog |-> <<>>,crashes |-> 0,kv |-> [height |-> 0, stateH |-> 0, blocks |-> {}],wc |-> 0,seenD |-> {},got |-> {[h |-> 1, kind |-> "hdr"], [h |-> 2, kind |-> "hdr"], [h |-> 3, kind |-> "hdr"], [h |-> 3, kind |-> "data"]},restarts |-> 0,hist |-> <<>>,pc |-> "try",left |-> ([h |-> 1, kind |-> "hdr"] :> 1 @@ [h |-> 1, kind |-> "data"] :> 2 @@ [h |-> 2, kind |-> "hdr"] :> 1 @@ [h |-> 3, kind |-> "hdr"] :> 1 @@ [h |-> 3, kind |-> "data"] :> 1),curEv |-> [h |-> 3, kind |-> "data"],files |-> [hc |-> {}, dc |-> {}, seenH |-> {}, seenD |-> {}],hc |-> {1, 2, 3},dc |-> {2, 3}]),
    ([seenH |-> {1, 2, 3},execLog |-> <<>>,crashes |-> 0,kv |-> [height |-> 0, stateH |-> 0, blocks |-> {}],wc |-> 0,seenD |-> {<<3, <<"a">>>>},got |-> {[h |-> 1, kind |-> "hdr"], [h |-> 2, kind |-> "hdr"], [h |-> 3, kind |-> "hdr"], [h |-> 3, kind |-> "data"]},restarts |-> 0,hist |-> <<>>,pc |-> "idle",left |-> ([h |-> 1, kind |-> "hdr"] :> 1 @@ [h |-> 1, kind |-> "data"] :> 2 @@ [h |-> 2, kind |-> "hdr"] :> 1 @@ [h |-> 3, kind |-> "hdr"] :> 1 @@ [h |-> 3, kind |-> "data"] :> 1),curEv |-> [h |-> 0, kind |-> "none"],files |-> [hc |-> {}, dc |-> {}, seenH |-> {}, seenD |-> {}],hc |-> {1, 2, 3},dc |-> {2, 3}]),
    ([seenH |-> {1, 2, 3},execLog |-> <<>>,crashes |-> 0,kv |-> [height |-> 0, stateH |-> 0, blocks |-> {}],wc |-> 0,seenD |-> {<<3, <<"a">>>>},got |-> {[h |-> 1, kind |-> "hdr"], [h |-> 2, kind |-> "hdr"], [h |-> 3, kind |-> "hdr"], [h |-> 3, kind |-> "data"]},restarts |-> 1,hist |-> <<>>,pc |-> "idle",left |-> ([h |-> 1, kind |-> "hdr"] :> 1 @@ [h |-> 1, kind |-> "data"] :> 2 @@ [h |-> 2, kind |-> "hdr"] :> 1 @@ [h |-> 3, kind |-> "hdr"] :> 1 @@ [h |-> 3, kind |-> "data"] :> 1),curEv |-> [h |-> 0, kind |-> "none"],files |-> [hc |-> {1, 2, 3}, dc |-> {2, 3}, seenH |-> {1, 2, 3}, seenD |-> {<<3, <<"a">>>>}],hc |-> {1, 2, 3},dc |-> {2, 3}]),
    ([seenH |-> {1, 2, 3},execLog |-> <<>>,crashes |-> 0,kv |-> [height |-> 0, stateH |-> 0, blocks |-> {}],wc |-> 0,seenD |-> {<<3, <<"a">>>>},got |-> {[h |-> 1, kind |-> "hdr"], [h |-> 1, kind |-> "data"], [h |-> 2, kind |-> "hdr"], [h |-> 3, kind |-> "hdr"], [h |-> 3, kind |-> "data"]},restarts |-> 1,hist |-> <<>>,pc |-> "try",left |-> ([h |-> 1, kind |-> "hdr"] :> 1 @@ [h |-> 1, kind |-> "data"] :> 1 @@ [h |-> 2, kind |-> "hdr"] :> 1 @@ [h |-> 3, kind |-> "hdr"] :> 1 @@ [h |-> 3, kind |-> "data"] :> 1),curEv |-> [h |-> 1, kind |-> "data"],files |-> [hc |-> {1, 2, 3}, dc |-> {2, 3}, seenH |-> {1, 2, 3}, seenD |-> {<<3, <<"a">>>>}],hc |-> {1, 2, 3},dc |-> {1, 2, 3}]),
    ([seenH |-> {1, 2, 3},execLog |-> <<1>>,crashes |-> 0,kv |-> [height |-> 0, stateH |-> 0, blocks |-> {}],wc |-> 0,seenD |-> {<<3, <<"a">>>>},got |-> {[h |-> 1, kind |-> "hdr"], [h |-> 1, kind |-> "data"], [h |-> 2, kind |-> "hdr"], [h |-> 3, kind |-> "hdr"], [h |-> 3, kind |-> "data"]},restarts |-> 1,hist |-> <<>>,pc |-> "w1",left |-> ([h |-> 1, kind |-> "hdr"] :> 1 @@ [h |-> 1, kind |-> "data"] :> 1 @@ [h |-> 2, kind |-> "hdr"] :> 1 @@ [h |-> 3, kind |-> "hdr"] :> 1 @@ [h |-> 3, kind |-> "data"] :> 1),curEv |-> [h |-> 1, kind |-> "data"],files |-> [hc |-> {1, 2, 3}, dc |-> {2, 3}, seenH |-> {1, 2, 3}, seenD |-> {<<3, <<"a">>>>}],hc |-> {1, 2, 3},dc |-> {1, 2, 3}]),
    ([seenH |-> {1, 2, 3},execLog |-> <<1>>,crashes |-> 0,kv |-> [height |-> 0, stateH |-> 0, blocks |-> {1}],wc |-> 1,seenD |-> {<<3, <<"a">>>>},got |-> {[h |-> 1, kind |-> "hdr"], [h |-> 1, kind |-> "data"], [h |-> 2, kind |-> "hdr"], [h |-> 3, kind |-> "hdr"], [h |-> 3, kind |-> "data"]},restarts |-> 1,hist |-> <<>>,pc |-> "w2",left |-> ([h |-> 1, kind |-> "hdr"] :> 1 @@ [h |-> 1, kind |-> "data"] :> 1 @@ [h |-> 2, kind |-> "hdr"] :> 1 @@ [h |-> 3, kind |-> "hdr"] :> 1 @@ [h |-> 3, kind |-> "data"] :> 1),curEv |-> [h |-> 1, kind |-> "data"],files |-> [hc |-> {1, 2, 3}, dc |-> {2, 3}, seenH |-> {1, 2, 3}, seenD |-> {<<3, <<"a">>>>}],hc |-> {1, 2, 3},dc |-> {1, 2, 3}]),
    ([seenH |-> {1, 2, 3},execLog |-> <<1>>,crashes |-> 0,kv |-> [height |-> 0, stateH |-> 1, blocks |-> {1}],wc |-> 2,seenD |-> {<<3, <<"a">>>>},got |-> {[h |-> 1, kind |-> "hdr"], [h |-> 1, kind |-> "data"], [h |-> 2, kind |-> "hdr"], [h |-> 3, kind |-> "hdr"], [h |-> 3, kind |-> "data"]},restarts |-> 1,hist |-> <<>>,pc |-> "w3",left |-> ([h |-> 1, kind |-> "hdr"] :> 1 @@ [h |-> 1, kind |-> "data"] :> 1 @@ [h |-> 2, kind |-> "hdr"] :> 1 @@ [h |-> 3, kind |-> "hdr"] :> 1 @@ [h |-> 3, kind |-> "data"] :> 1),curEv |-> [h |-> 1, kind |-> "data"],files |-> [hc |-> {1, 2, 3}, dc |-> {2, 3}, seenH |-> {1, 2, 3}, seenD |-> {<<3, <<"a">>>>}],hc |-> {1, 2, 3},dc |-> {1, 2, 3}]),
    ([seenH |-> {1, 2, 3},execLog |-> <<1>>,crashes |-> 1,kv |-> [height |-> 0, stateH |-> 1, blocks |-> {1}],wc |-> 2,seenD |-> {<<3, <<"a">>>>},got |-> {[h |-> 1, kind |-> "hdr"], [h |-> 1, kind |-> "data"], [h |-> 2, kind |-> "hdr"], [h |-> 3, kind |-> "hdr"], [h |-> 3, kind |-> "data"]},restarts |-> 1,hist |-> <<>>,pc |-> "down",left |-> ([h |-> 1, kind |-> "hdr"] :> 1 @@ [h |-> 1, kind |-> "data"] :> 1 @@ [h |-> 2, kind |-> "hdr"] :> 1 @@ [h |-> 3, kind |-> "hdr"] :> 1 @@ [h |-> 3, kind |-> "data"] :> 1),curEv |-> [h |-> 0, kind |-> "none"],files |-> [hc |-> {1, 2, 3}, dc |-> {2, 3}, seenH |-> {1, 2, 3}, seenD |-> {<<3, <<"a">>>>}],hc |-> {1, 2, 3},dc |-> {1, 2, 3}]),
    ([seenH |-> {1, 2, 3},execLog |-> <<1>>,crashes |-> 1,kv |-> [height |-> 1, stateH |-> 1, blocks |-> {1}],wc |-> 2,seenD |-> {<<3, <<"a">>>>},got |-> {},restarts |-> 1,hist |-> <<>>,pc |-> "idle",left |-> ([h |-> 1, kind |-> "hdr"] :> 1 @@ [h |-> 1, kind |-> "data"] :> 1 @@ [h |-> 2, kind |-> "hdr"] :> 1 @@ [h |-> 3, kind |-> "hdr"] :> 1 @@ [h |-> 3, kind |-> "data"] :> 1),curEv |-> [h |-> 0, kind |-> "none"],files |-> [hc |-> {1, 2, 3}, dc |-> {2, 3}, seenH |-> {1, 2, 3}, seenD |-> {<<3, <<"a">>>>}],hc |-> {1, 2, 3},dc |-> {2, 3}]),
    ([seenH |-> {1, 2, 3},execLog |-> <<1>>,crashes |-> 1,kv |-> [height |-> 1, stateH |-> 1, blocks |-> {1}],wc |-> 0,seenD |-> {<<3, <<"a">>>>},got |-> {[h |-> 1, kind |-> "hdr"]},restarts |-> 1,hist |-> <<>>,pc |-> "idle",left |-> ([h |-> 1, kind |-> "hdr"] :> 0 @@ [h |-> 1, kind |-> "data"] :> 1 @@ [h |-> 2, kind |-> "hdr"] :> 1 @@ [h |-> 3, kind |-> "hdr"] :> 1 @@ [h |-> 3, kind |-> "data"] :> 1),curEv |-> [h |-> 0, kind |-> "none"],files |-> [hc |-> {1, 2, 3}, dc |-> {2, 3}, seenH |-> {1, 2, 3}, seenD |-> {<<3, <<"a">>>>}],hc |-> {1, 2, 3},dc |-> {2, 3}]),
    ([seenH |-> {1, 2, 3},execLog |-> <<1>>,crashes |-> 1,kv |-> [height |-> 1, stateH |-> 1, blocks |-> {1}],wc |-> 0,seenD |-> {<<3, <<"a">>>>},got |-> {[h |-> 1, kind |-> "hdr"], [h |-> 1, kind |-> "data"]},restarts |-> 1,hist |-> <<>>,pc |-> "idle",left |-> ([h |-> 1, kind |-> "hdr"] :> 0 @@ [h |-> 1, kind |-> "data"] :> 0 @@ [h |-> 2, kind |-> "hdr"] :> 1 @@ [h |-> 3, kind |-> "hdr"] :> 1 @@ [h |-> 3, kind |-> "data"] :> 1),curEv |-> [h |-> 0, kind |-> "none"],files |-> [hc |-> {1, 2, 3}, dc |-> {2, 3}, seenH |-> {1, 2, 3}, seenD |-> {<<3, <<"a">>>>}],hc |-> {1, 2, 3},dc |-> {2, 3}]),
    ([seenH |-> {1, 2, 3},execLog |-> <<1>>,crashes |-> 1,kv |-> [height |-> 1, stateH |-> 1, blocks |-> {1}],wc |-> 0,seenD |-> {<<3, <<"a">>>>},got |-> {[h |-> 1, kind |-> "hdr"], [h |-> 1, kind |-> "data"], [h |-> 2, kind |-> "hdr"]},restarts |-> 1,hist |-> <<>>,pc |-> "idle",left |-> ([h |-> 1, kind |-> "hdr"] :> 0 @@ [h |-> 1, kind |-> "data"] :> 0 @@ [h |-> 2, kind |-> "hdr"] :> 0 @@ [h |-> 3, kind |-> "hdr"] :> 1 @@ [h |-> 3, kind |-> "data"] :> 1),curEv |-> [h |-> 0, kind |-> "none"],files |-> [hc |-> {1, 2, 3}, dc |-> {2, 3}, seenH |-> {1, 2, 3}, seenD |-> {<<3, <<"a">>>>}],hc |-> {1, 2, 3},dc |-> {2, 3}]),
    ([seenH |-> {1, 2, 3},execLog |-> <<1>>,crashes |-> 1,kv |-> [height |-> 1, stateH |-> 1, blocks |-> {1}],wc |-> 0,seenD |-> {<<3, <<"a">>>>},got |-> {[h |-> 1, kind |-> "hdr"], [h |-> 1, kind |-> "data"], [h |-> 2, kind |-> "hdr"], [h |-> 3, kind |-> "hdr"]},restarts |-> 1,hist |-> <<>>,pc |-> "idle",left |-> ([h |-> 1, kind |-> "hdr"] :> 0 @@ [h |-> 1, kind |-> "data"] :> 0 @@ [h |-> 2, kind |-> "hdr"] :> 0 @@ [h |-> 3, kind |-> "hdr"] :> 0 @@ [h |-> 3, kind |-> "data"] :> 1),curEv |-> [h |-> 0, kind |-> "none"],files |-> [hc |-> {1, 2, 3}, dc |-> {2, 3}, seenH |-> {1, 2, 3}, seenD |-> {<<3, <<"a">>>>}],hc |-> {1, 2, 3},dc |-> {2, 3}]),
    ([seenH |-> {1, 2, 3},execLog |-> <<1>>,crashes |-> 1,kv |-> [height |-> 1, stateH |-> 1, blocks |-> {1}],wc |-> 0,seenD |-> {<<3, <<"a">>>>},got |-> {[h |-> 1, kind |-> "hdr"], [h |-> 1, kind |-> "data"], [h |-> 2, kind |-> "hdr"], [h |-> 3, kind |-> "hdr"], [h |-> 3, kind |-> "data"]},restarts |-> 1,hist |-> <<>>,pc |-> "idle",left |-> ([h |-> 1, kind |-> "hdr"] :> 0 @@ [h |-> 1, kind |-> "data"] :> 0 @@ [h |-> 2, kind |-> "hdr"] :> 0 @@ [h |-> 3, kind |-> "hdr"] :> 0 @@ [h |-> 3, kind |-> "data"] :> 0),curEv |-> [h |-> 0, kind |-> "none"],files |-> [hc |-> {1, 2, 3}, dc |-> {2, 3}, seenH |-> {1, 2, 3}, seenD |-> {<<3, <<"a">>>>}],hc |-> {1, 2, 3},dc |-> {2, 3}])
    >>
----


=============================================================================

---- CONFIG MCSyncer_TTrace_1790364284 ----
CONSTANTS
    IH = 1
    Shape <- ShapeDup
    MaxDup = 1
    MaxCrashes = 1
    MaxRestarts = 1
    Alias = FALSE
    BlockFirst = TRUE
    Rec = FALSE

INVARIANT
    _inv

CHECK_DEADLOCK
    \* CHECK_DEADLOCK off because of PROPERTY or INVARIANT above.
    FALSE

INIT
    _init

NEXT
    _next

CONSTANT
    _TETrace <- _trace

ALIAS
    _expression
=============================================================================
\* Generated on Fri Sep 25 19:24:46 UTC 2026