SPECIFICATION LiveSpec
CONSTANTS
  IH = 2
  MaxH = 4
  MaxFails = 2
  MonotoneCursor = TRUE
  RetryOnError = TRUE
  RestartAtTop = FALSE
  MaxRestarts = 2
INVARIANTS CursorAboveBase NothingSkipped AppliedOnlyHanded
PROPERTIES AllHandedEventually AllAppliedEventually
CHECK_DEADLOCK FALSE
