---------------------------- MODULE Wire ----------------------------
(***************************************************************************)
(* Tier I reference for the wire encodings (types/serialization.go,        *)
(* types/hashing.go, the batch cursor codec of block/manager.go, the gob   *)
(* cache files of pkg/cache).  A value has a SHAPE (each bytes field nil / *)
(* empty / a value; integers zero / mid / max; the transaction list nil /  *)
(* none / one / many / containing an empty transaction) and travels a PATH *)
(* of hops.  After any hop the value is equal up to the normal form (nil   *)
(* and empty byte strings and lists are the same value), its hash and data *)
(* commitment are unchanged, and the verdict of signature validation is    *)
(* unchanged.  TLC enumerates shape x path; each case is instantiated with *)
(* concrete (seeded) contents on the real encoders / decoders.             *)
(***************************************************************************)
EXTENDS Integers, Sequences, FiniteSets, TLC
BytesShapes == {"nil", "empty", "val"}
IntShapes == {"zero", "mid", "max"}
TxShapes == {"nil", "none", "one", "many", "hasempty"}
Paths == {"binary", "binary-foreignaddr", "store", "dablob", "gob", "proto", "codec"}
Norm(b) == IF b = "nil" THEN "empty" ELSE b
VARIABLES case
Init == case = [b |-> "nil", i |-> "zero", t |-> "nil", p |-> "binary"]
Next == \E b \in BytesShapes, i \in IntShapes, t \in TxShapes, p \in Paths : case' = [b |-> b, i |-> i, t |-> t, p |-> p]
Spec == Init /\ [][Next]_case
NormIdempotent == Norm(Norm(case.b)) = Norm(case.b)
=====================================================================
