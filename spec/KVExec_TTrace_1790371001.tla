---- MODULE KVExec_TTrace_1790371001 ----
EXTENDS Sequences, TLCExt, KVExec, Toolbox, Naturals, TLC

_expression ==
    LET KVExec_TEExpression == INSTANCE KVExec_TEExpression
    IN KVExec_TEExpression!expression
----

_trace ==
    LET KVExec_TETrace == INSTANCE KVExec_TETrace
    IN KVExec_TETrace!trace
----

_inv ==
    ~(
        TLCGet("level") = Len(_TETrace)
        /\
        genesis = (<<TRUE, FALSE>>)
        /\
        hist = (<<<<>>, <<>>>>)
        /\
        ops = (2)
        /\
        fin = (<<1, 0>>)
        /\
        kv = (<<<<>>, <<>>>>)
    )
----

_init ==
    /\ ops = _TETrace[1].ops
    /\ fin = _TETrace[1].fin
    /\ hist = _TETrace[1].hist
    /\ genesis = _TETrace[1].genesis
    /\ kv = _TETrace[1].kv
----

_next ==
    /\ \E i,j \in DOMAIN _TETrace:
        /\ \/ /\ j = i + 1
              /\ i = TLCGet("level")
        /\ ops  = _TETrace[i].ops
        /\ ops' = _TETrace[j].ops
        /\ fin  = _TETrace[i].fin
        /\ fin' = _TETrace[j].fin
        /\ hist  = _TETrace[i].hist
        /\ hist' = _TETrace[j].hist
        /\ genesis  = _TETrace[i].genesis
        /\ genesis' = _TETrace[j].genesis
        /\ kv  = _TETrace[i].kv
        /\ kv' = _TETrace[j].kv

\* Uncomment the ASSUME below to write the states of the error trace
\* to the given file in Json format. Note that you can pass any tuple
\* to `JsonSerialize`. For example, a sub-sequence of _TETrace.
    \* ASSUME
    \*     LET J == INSTANCE Json
    \*         IN J!JsonSerialize("KVExec_TTrace_1790371001.json", _TETrace)

=============================================================================

 Note that you can extract this module `KVExec_TEExpression`
  to a dedicated file to reuse `expression` (the module in the 
  dedicated `KVExec_TEExpression.tla` file takes precedence 
  over the module `KVExec_TEExpression` below).

---- MODULE KVExec_TEExpression ----
EXTENDS Sequences, TLCExt, KVExec, Toolbox, Naturals, TLC

expression == 
    [
        \* To hide variables of the `KVExec` spec from the error trace,
        \* remove the variables below.  The trace will be written in the order
        \* of the fields of this record.
        ops |-> ops
        ,fin |-> fin
        ,hist |-> hist
        ,genesis |-> genesis
        ,kv |-> kv
        
        \* Put additional constant-, state-, and action-level expressions here:
        \* ,_stateNumber |-> _TEPosition
        \* ,_opsUnchanged |-> ops = ops'
        
        \* Format the `ops` variable as Json value.
        \* ,_opsJson |->
        \*     LET J == INSTANCE Json
        \*     IN J!ToJson(ops)
        
        \* Lastly, you may build expressions over arbitrary sets of states by
        \* leveraging the _TETrace operator.  For example, this is how to
        \* count the number of times a spec variable changed up to the current
        \* state in the trace.
        \* ,_opsModCount |->
        \*     LET F[s \in DOMAIN _TETrace] ==
        \*         IF s = 1 THEN 0
        \*         ELSE IF _TETrace[s].ops # _TETrace[s-1].ops
        \*             THEN 1 + F[s-1] ELSE F[s-1]
        \*     IN F[_TEPosition - 1]
    ]

=============================================================================



Parsing and semantic processing can take forever if the trace below is long.
 In this case, it is advised to uncomment the module below to deserialize the
 trace from a generated binary file.

\*
\*---- MODULE KVExec_TETrace ----
\*EXTENDS IOUtils, KVExec, TLC
\*
\*trace == IODeserialize("KVExec_TTrace_1790371001.bin", TRUE)
\*
\*=============================================================================
\*

---- MODULE KVExec_TETrace ----
EXTENDS KVExec, TLC

trace == 
    <<
    ([genesis |-> <<FALSE, FALSE>>,hist |-> <<<<>>, <<>>>>,ops |-> 0,fin |-> <<0, 0>>,kv |-> <<<<>>, <<>>>>]),
    ([genesis |-> <<TRUE, FALSE>>,hist |-> <<<<>>, <<>>>>,ops |-> 1,fin |-> <<0, 0>>,kv |-> <<<<>>, <<>>>>]),
    ([genesis |-> <<TRUE, FALSE>>,hist |-> <<<<>>, <<>>>>,ops |-> 2,fin |-> <<1, 0>>,kv |-> <<<<>>, <<>>>>])
    >>
----


=============================================================================

---- CONFIG KVExec_TTrace_1790371001 ----
CONSTANTS
    Keys = { "a" , "b" }
    Vals = { "1" , "2" }
    MaxOps = 4
    FinalInRoot = TRUE

INVARIANT
    _inv

CHECK_DEADLOCK
    \* CHECK_DEADLOCK off because of PROPERTY or INVARIANT above.
    FALSE

INIT
    _init

NEXT
    _next

CONSTANT
    _TETrace <- _trace

ALIAS
    _expression
=============================================================================
\* Generated on Fri Sep 25 21:16:42 UTC 2026