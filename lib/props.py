"""Per-property pipelines. Each takes a vlib.Run and returns nothing; violations are
accumulated on the Run and turned into the verdict by Run.finish()."""
from vlib import Inconclusive

TRUST = [
    "TLC and the CommunityModules Json reader",
    "the environment doubles of /verif/harness/world (sequencing, execution, DA, P2P stores) are the environment semantics",
    "Batch.Commit of the datastore is atomic (as with badger); the crash-injecting datastore models a process crash as 'no write after the fuse'",
    "the harness's own signature classification with its copy of the proposer key",
]


def producer(r, prefixes):
    # tier I: exhaustive design check (safety) and liveness on the repaired design
    r.tlc_exhaustive("MCProducer.tla", "Producer.cfg")
    r.tlc_exhaustive("MCProducer.tla", "Producer_live.cfg", workers=8)
    if r.tier == "thorough":
        r.tlc_exhaustive("MCProducer.tla", "Producer_ih3.cfg")
    # spec -> code: TLC-simulated behaviours replayed into the real block.Manager
    n = 120 if r.tier == "quick" else 600
    beh = r.tlc_simulate("MCProducer.tla", "Producer_sim.cfg", n, 70, name="beh1")
    t1 = r.drive("producer", ["-arg", "1"], beh=beh, name="producer-model-ih1")
    r.tlc_validate("ProducerTrace", t1, prefixes)
    beh3 = r.tlc_simulate("MCProducer.tla", "Producer_sim3.cfg", n // 2, 70, name="beh3")
    t3 = r.drive("producer", ["-arg", "3"], beh=beh3, name="producer-model-ih3")
    r.tlc_validate("ProducerTrace", t3, prefixes)
    # code -> spec: exhaustive crash-point enumeration and seeded random histories
    t2 = r.drive("producer", name="producer-enum")
    r.tlc_validate("ProducerTrace", t2, prefixes)
    # step-level conformance of the tier-I module itself: every record is an action of Producer.tla
    def corrupt(ev):
        if ev.get("ev") == "KV" and ev.get("kind") == "state" and ev.get("h", 0) >= 2:
            ev = dict(ev)
            ev["h"] += 1
            return ev
        return None
    for t in (t1, t3, t2):
        r.tlc_strict("ProducerStrict", t, "ih", "IH", selftest=corrupt if t is t2 else None)


def c01(r):
    producer(r, ["C01."])


def c04(r):
    producer(r, ["C04.", "C01."])  # "resumes producing a valid chain": chain validity is part of C04


STRICT_SYNC_SRC = ("model", "stopqueued", "handover", "p2pidle", "crashenum", "retrieve", "writeerr", "adversary")
STRICT_SYNC_SHAPES = ("ShapeA", "ShapeDup", "ShapeE", "ShapeBig", "ShapeZ")


def syncer_strict(r, traces):
    """Step-level conformance of Syncer.tla: every record of a full node's run over a named chain shape is an
    action of the tier-I module (SyncerStrict.tla). One TLC pass per (first height, shape)."""
    acc = lambda ev: ev.get("src") in STRICT_SYNC_SRC and ev.get("shape") in STRICT_SYNC_SHAPES
    import os
    cat = os.path.join(r.scratch, "syncer-strict-all.ndjson")
    with open(cat, "w") as out:
        for t in traces:
            out.write(open(t).read())
    traces = [cat]
    for i, t in enumerate(traces):
        st = {"on": False, "exec": False}

        def corrupt(ev, st=st):
            if ev.get("ev") == "Reset":
                st["on"], st["exec"] = acc(ev), False
                return None
            if not st["on"] or ev.get("node") != "full":
                return None
            if ev.get("ev") == "ExecTxs" and ev.get("ok"):
                st["exec"] = True
            if st["exec"] and ev.get("ev") == "KV" and ev.get("kind") == "state":
                ev = dict(ev)
                ev["h"] += 1
                return ev
            return None
        r.tlc_strict("SyncerStrict", t, ("ih", "shape", "shape"), ("IH", "Shape", "ShapeName"),
                     to_const=(lambda v: v, lambda v: v, lambda v: '"%s"' % v), accept=acc,
                     selftest=corrupt if i == len(traces) - 1 else None)


def syncer(r, prefixes, crash):
    # tier I: the as-is design on a chain without repeated tx lists, the repaired design on one with them;
    # the as-is design on repeated tx lists is the known finding C02-alias (TLC must find the counterexample)
    r.tlc_exhaustive("MCSyncer.tla", "Syncer.cfg")
    r.tlc_exhaustive("MCSyncer.tla", "Syncer_repaired.cfg")
    ok, _ = r.tlc_exhaustive("MCSyncer.tla", "Syncer_alias.cfg", expect_ok=False)
    if ok:
        raise Inconclusive("Syncer_alias.cfg no longer reproduces the C02-alias counterexample: model and findings file disagree")
    # refused durable writes (orderly shutdown with the caches saved): the design survives them; the deviation
    # "evict and mark seen right after the block save" survives crashes but not refused writes (must fail)
    r.tlc_exhaustive("MCSyncer.tla", "Syncer_wfail.cfg")
    ok, _ = r.tlc_exhaustive("MCSyncer.tla", "Syncer_evictearly.cfg", expect_ok=False)
    if ok:
        raise Inconclusive("Syncer_evictearly.cfg should fail: early eviction loses a block when a later write is refused")
    n = 60 if r.tier == "quick" else 300
    traces = []
    for cfg, shape in [("Syncer_sim.cfg", "ShapeBig"), ("Syncer_simE.cfg", "ShapeE"), ("Syncer_simA.cfg", "ShapeA")]:
        beh = r.tlc_simulate("MCSyncer.tla", cfg, n, 60, name="beh-" + shape)
        for ih in ([1] if r.tier == "quick" else [1, 3]):
            t = r.drive("syncer", ["-arg", "%d:%s" % (ih, shape)], beh=beh, name="syncer-model-%s-ih%d" % (shape, ih))
            r.tlc_validate("SyncTrace", t, prefixes)
            traces.append(t)
    t = r.drive("syncer", name="syncer-random")
    r.tlc_validate("SyncTrace", t, prefixes)
    traces.append(t)
    if crash:
        t = r.drive("syncer", ["-arg", "crash"], name="syncer-crashenum")
        r.tlc_validate("SyncTrace", t, prefixes)
        traces.append(t)
    return traces


def c02(r):
    # P2P ingress (store polling cursors): repaired design for IH = 1 and IH > 1; both deviations must fail
    r.tlc_exhaustive("StorePoll.tla", "StorePoll.cfg", workers=2)
    r.tlc_exhaustive("StorePoll.tla", "StorePoll_ih1.cfg", workers=2)
    for cfg in ("StorePoll_follow.cfg", "StorePoll_noretry.cfg", "StorePoll_restarttop.cfg"):
        ok, _ = r.tlc_exhaustive("StorePoll.tla", cfg, workers=2, expect_ok=False)
        if ok:
            raise Inconclusive(cfg + " should reproduce the P2P cursor defect")
    traces = syncer(r, ["C02."], crash=False)
    # DA ingress with delays: the same chains scanned from a DA layer that answers with every fault sequence
    t = r.drive("syncer", ["-arg", "retrieve"], name="syncer-retrieve")
    r.tlc_validate("SyncTrace", t, ["C02."])
    syncer_strict(r, traces + [t])
    # a long chain whose last block's data arrives while the node is still hundreds of blocks below it
    t = r.drive("syncer", ["-arg", "farahead"], name="syncer-farahead")
    r.tlc_validate("SyncTrace", t, ["C02."])


def c03(r):
    r.tlc_exhaustive("MCSyncer.tla", "Syncer.cfg")
    # tier I for admission: every offer shape on every path; each deviation must let a forged item in
    r.tlc_exhaustive("Admission.tla", "Admission.cfg", workers=4)
    for cfg in ("Admission_nokeybinding.cfg", "Admission_signerless.cfg", "Admission_skipseen.cfg", "Admission_halts.cfg"):
        ok, _ = r.tlc_exhaustive("Admission.tla", cfg, workers=4, expect_ok=False)
        if ok:
            raise Inconclusive(cfg + " should fail (a deviation of the admission rules / the documented halt on forged P2P data)")
    t = r.drive("syncer", ["-arg", "adversary"], name="syncer-adversary")
    r.tlc_validate("SyncTrace", t, ["C03."])
    # step-level: every adversarial offer is refused by the tier-I admission rule and changes nothing in the node
    syncer_strict(r, [t])
    t = r.drive("syncer", name="syncer-random")
    r.tlc_validate("SyncTrace", t, ["C03."])


def c09(r):
    r.tlc_exhaustive("MCRetriever.tla", "Retriever.cfg", workers=4)
    if r.tier == "thorough":
        r.tlc_exhaustive("MCRetriever.tla", "Retriever_big.cfg", workers=16)
    # deviations of the scan that must skip a DA height: moving on when the retries are used up, "from the future" read as "empty"
    for cfg in ("Retriever_giveup.cfg", "Retriever_futureempty.cfg"):
        ok, _ = r.tlc_exhaustive("MCRetriever.tla", cfg, workers=4, expect_ok=False)
        if ok:
            raise Inconclusive(cfg + " should fail (a deviation of the DA scan that skips a height)")
    t = r.drive("syncer", ["-arg", "retrieve"], name="syncer-retrieve")
    r.tlc_validate("SyncTrace", t, ["C09.", "C02.Halted", "C02.Converged", "C02.AppliedWhatArrived"])
    t = r.drive("syncer", ["-arg", "adversary"], name="syncer-adversary")
    r.tlc_validate("SyncTrace", t, ["C09.", "C02.Halted"])
    # the process dies with fetched events held only in memory: the next process must examine those DA heights again
    t = r.drive("syncer", ["-arg", "crash"], name="syncer-crashenum")
    r.tlc_validate("SyncTrace", t, ["C09.", "C02.Halted", "C02.Converged", "C02.AppliedWhatArrived"])
    # stop requests while fetched events still wait in the hand-over channels, restarts after them
    t = r.drive("syncer", name="syncer-random")
    r.tlc_validate("SyncTrace", t, ["C09.", "C02.Halted", "C02.Converged", "C02.AppliedWhatArrived"])


def c10(r):
    r.tlc_exhaustive("BatchQueue.tla", "BatchQueue.cfg", workers=8)
    ok, _ = r.tlc_exhaustive("BatchQueue.tla", "BatchQueue_hashkey.cfg", workers=8, expect_ok=False)
    if ok:
        raise Inconclusive("BatchQueue_hashkey.cfg should reproduce the (fixed) content-hash-key defect")
    ok, _ = r.tlc_exhaustive("BatchQueue.tla", "BatchQueue_handoutonfail.cfg", workers=8, expect_ok=False)
    if ok:
        raise Inconclusive("BatchQueue_handoutonfail.cfg should reproduce the (fixed) hand-out-despite-refused-delete defect")
    t = r.drive("queue", name="queue")
    r.tlc_validate("QueueTrace", t, ["C10."])
    # step-level conformance: every record (database write, call return, restart, crash) is an action of BatchQueue.tla
    def corrupt(ev):
        if ev.get("ev") == "KV" and ev.get("kind") == "queue" and ev.get("op") == "del":
            ev = dict(ev)
            ev["h"] = ev.get("h", 0) + 1
            return ev
        return None
    # (runs in which the bound changes at a restart are outside the tier-I module, whose bound is a constant)
    r.tlc_strict("QueueStrict", t, "bound", "Bound", to_const=lambda b: 1000000 if not b else b, selftest=corrupt,
                 accept=lambda ev: not str(ev.get("run", "")).startswith("rebound/"))


def c11(r):
    r.tlc_exhaustive("TxFlow.tla", "TxFlow.cfg", workers=8)
    r.tlc_exhaustive("TxFlow.tla", "TxFlow_repaired.cfg", workers=8)
    ok, _ = r.tlc_exhaustive("TxFlow.tla", "TxFlow_strict.cfg", workers=8, expect_ok=False)
    if ok:
        raise Inconclusive("TxFlow_strict.cfg no longer reproduces the C11-pop-before-save counterexample")
    # refused datastore writes (a seen-marker that cannot be written, a production step that fails on a write)
    r.tlc_exhaustive("TxFlow.tla", "TxFlow_wfail.cfg", workers=8)
    t = r.drive("txflow", name="txflow")
    r.tlc_validate("FlowTrace", t, ["C11."])
    # step-level conformance: every record of reaper, sequencer queue and producer is an action of TxFlow.tla
    def corrupt(ev):
        if ev.get("ev") == "SeqNext" and ev.get("kind") == "batch" and ev.get("txs"):
            ev = dict(ev)
            ev["txs"] = ["not-in-the-batch"] + list(ev["txs"][1:])
            return ev
        return None
    r.tlc_strict("TxFlowStrict", t, "bound", "Bound", to_const=lambda b: 1000000 if not b else b, selftest=corrupt)


def c17(r):
    r.tlc_exhaustive("LazyAgg.tla", "LazyAgg.cfg", workers=8)
    r.tlc_exhaustive("LazyAgg.tla", "LazyAgg_normal.cfg", workers=8)
    r.tlc_exhaustive("LazyAgg.tla", "LazyAgg_slow.cfg", workers=8)
    # a restarted node: the loop starts on an existing chain; the deviation "wait the idle interval" must fail
    r.tlc_exhaustive("LazyAgg.tla", "LazyAgg_resume.cfg", workers=8)
    ok2, _ = r.tlc_exhaustive("LazyAgg.tla", "LazyAgg_startidle.cfg", workers=8, expect_ok=False)
    if ok2:
        raise Inconclusive("LazyAgg_startidle.cfg should reproduce the late first block after a restart")
    ok, _ = r.tlc_exhaustive("LazyAgg.tla", "LazyAgg_drain.cfg", workers=8, expect_ok=False)
    if ok:
        raise Inconclusive("LazyAgg_drain.cfg should reproduce the lost wake-up")
    t = r.drive("lazy", name="lazy")
    r.tlc_validate("LazyTrace", t, ["C17."])


def c13(r):
    import os, shutil, vlib
    r.tlc_exhaustive("Loops.tla", "Loops.cfg", workers=4)
    r.tlc_exhaustive("Loops.tla", "Loops_past.cfg", workers=4)
    # the end-to-end composition whose cross-node guarantees the concurrent runs are validated against
    r.tlc_exhaustive("World.tla", "World.cfg", workers=16)
    r.tlc_exhaustive("World.tla", "World_live.cfg", workers=8)
    r.tlc_exhaustive("Loops.tla", "Loops_agg.cfg", workers=4)
    # deviations: plain sleep, plain send, and an error channel with fewer slots than reporting workers
    for cfg in ("Loops_sleep.cfg", "Loops_send.cfg", "Loops_errcap1.cfg", "Loops_errcap0.cfg", "Loops_unjoined.cfg"):
        ok, _ = r.tlc_exhaustive("Loops.tla", cfg, workers=4, expect_ok=False)
        if ok:
            raise Inconclusive(cfg + " should reproduce a shutdown hang / a worker Run does not wait for")
    # the real node.FullNode.Run, stopped / failing while workers wait inside the execution layer
    tn = r.drive("fullnode", name="fullnode", timeout=1500)
    st = r.driver_stats.get("fullnode", {})
    if st.get("stops", 0) < max(1, st.get("scenarios", 0) - 2):
        raise Inconclusive("fullnode driver could prepare only %d of %d stop scenarios" % (st.get("stops", 0), st.get("scenarios", 0)))
    r.tlc_validate("RunTrace", tn, ["C13.", "C07."])
    # "the guarantees C01, C02, C06 and C07 hold on every interleaving": the five loops of a full node, with
    # datastore writes as scheduling points in every other run (a loop that was just signalled runs between any
    # two durable writes of block application)
    for args, name in ((["-arg", "retrieve"], "syncer-retrieve"), ([], "syncer-random")):
        ts = r.drive("syncer", args, name=name)
        r.tlc_validate("SyncTrace", ts, ["C02.", "C07."])
    t = r.drive("world", race=True, name="world", timeout=3000)
    r.tlc_validate("WorldTrace", t, ["C13."])
    r.tlc_validate("ProducerTrace", t, ["C01."])
    r.tlc_validate("SubmitTrace", t, ["C06.", "C07.InclSound", "C07.InclMonotone", "C07.Finalize", "C07.PersistThenReport", "C07.InclBounds"])
    # data races reported by the race detector on the executed interleavings
    reports = r.race_reports("world")
    for i, rep in enumerate(reports):
        os.makedirs(os.path.join(vlib.VERIF, "replays"), exist_ok=True)
        path = os.path.join(vlib.VERIF, "replays", "C13-race-%d.txt" % i)
        open(path, "w").write(rep)
        r.violations.append({"inv": "C13.DataRace", "run": "race-report-%d" % i, "l": 0, "detail": rep.split("\n")[1][:200] if "\n" in rep else rep[:200],
                             "trace": t, "monitor": "WorldTrace", "replay_path": path})
    r.notes.append("race detector reports: %d" % len(reports))


def c14(r):
    r.tlc_exhaustive("BlockStore.tla", "BlockStore.cfg", workers=4)
    for cfg in ("BlockStore_stale.cfg", "BlockStore_nonatomic.cfg", "BlockStore_commitonerror.cfg"):
        ok, _ = r.tlc_exhaustive("BlockStore.tla", cfg, workers=4, expect_ok=False)
        if ok:
            raise Inconclusive(cfg + " should reproduce its counterexample (stale hash index / block save that is not all-or-nothing)")
    t = r.drive("store", name="store")
    r.tlc_validate("StoreTrace", t, ["C14."])


def c15(r):
    r.tlc_exhaustive("KVExec.tla", "KVExec.cfg", workers=16)
    if r.tier == "thorough":
        r.tlc_exhaustive("KVExec.tla", "KVExec_big.cfg", workers=16)
    ok2, _ = r.tlc_exhaustive("KVExec.tla", "KVExec_reinit.cfg", workers=8, expect_ok=False)
    if ok2:
        raise Inconclusive("KVExec_reinit.cfg should reproduce a non-idempotent chain initialization")
    ok3, _ = r.tlc_exhaustive("KVExec.tla", "KVExec_trustprev.cfg", workers=8, expect_ok=False)
    if ok3:
        raise Inconclusive("KVExec_trustprev.cfg should show a returned root that is not the root of the state left behind")
    ok, _ = r.tlc_exhaustive("KVExec.tla", "KVExec_final.cfg", workers=8, expect_ok=False)
    if ok:
        raise Inconclusive("KVExec_final.cfg should reproduce the finalize-in-root counterexample")
    t = r.drive("kvexec", name="kvexec")
    r.tlc_validate("KVTrace", t, ["C15."])


def c20(r):
    r.tlc_exhaustive("MCBasedSeq.tla", "BasedSeq.cfg", workers=8)
    for cfg in ("BasedSeq_noAdvanceOnPushBack.cfg", "BasedSeq_noStopOnFuture.cfg"):
        ok, _ = r.tlc_exhaustive("MCBasedSeq.tla", cfg, workers=8, expect_ok=False)
        if ok:
            raise Inconclusive(cfg + " should reproduce a DA-order violation")
    t = r.drive("based", name="based")
    r.tlc_validate("BasedTrace", t, ["C20."])


def c16(r):
    r.tlc_exhaustive("DAProxy.tla", "DAProxy.cfg", workers=2)
    t = r.drive("proxy", name="proxy")
    r.tlc_validate("ProxyTrace", t, ["C16."])


def c19(r):
    r.tlc_exhaustive("KeyFile.tla", "KeyFile.cfg", workers=2)
    t = r.drive("keyfile", name="keyfile")
    r.tlc_validate("KeyTrace", t, ["C19."])


def c18(r):
    r.tlc_exhaustive("Config.tla", "Config.cfg", workers=2)
    t = r.drive("config", name="config")
    r.tlc_validate("ConfigTrace", t, ["C18."])


def c12(r):
    import os, vlib
    r.tlc_exhaustive("Wire.tla", "Wire.cfg", workers=2)
    t = r.drive("wire", ["-arg", os.path.join(vlib.VERIF, "golden")], name="wire")
    r.tlc_validate("WireTrace", t, ["C12."])


def c05(r):
    syncer_strict(r, syncer(r, ["C05.", "C02."], crash=True))


def submitter(r, prefixes, strict=True):
    r.tlc_exhaustive("MCSubmitter.tla", "Submitter.cfg")
    r.tlc_exhaustive("MCSubmitter.tla", "Submitter_live.cfg", workers=8)
    # deviation: a never-persisted data watermark seeded from the header watermark at start (must fail)
    ok, _ = r.tlc_exhaustive("MCSubmitter.tla", "Submitter_seeddata.cfg", expect_ok=False)
    if ok:
        raise Inconclusive("Submitter_seeddata.cfg should violate WmSound")
    if r.tier == "thorough":
        r.tlc_exhaustive("MCSubmitter.tla", "Submitter_big.cfg", timeout=1500)
    n = 60 if r.tier == "quick" else 300
    beh = r.tlc_simulate("MCSubmitter.tla", "Submitter_sim.cfg", n, 60, name="beh-sub1")
    t1 = r.drive("submitter", ["-arg", "1:0"], beh=beh, name="submitter-model-ih1")
    r.tlc_validate("SubmitTrace", t1, prefixes)
    beh = r.tlc_simulate("MCSubmitter.tla", "Submitter_sim3.cfg", n, 60, name="beh-sub3")
    t3 = r.drive("submitter", ["-arg", "3:2"], beh=beh, name="submitter-model-ih3")
    r.tlc_validate("SubmitTrace", t3, prefixes)
    t = r.drive("submitter", name="submitter-scenarios")
    r.tlc_validate("SubmitTrace", t, prefixes)
    # step-level conformance: every DA call, bookkeeping write, finalize call, stop and restart of the recorded
    # runs is an action of Submitter.tla (one TLC pass per (initial height, pending limit) combination)
    def corrupt(ev):
        if ev.get("ev") == "KV" and ev.get("kind") == "meta" and ev.get("key") == "last-submitted-header-height" and ev.get("h", 0) >= 2:
            ev = dict(ev)
            ev["h"] += 1
            return ev
        return None
    for tr in ((t1, t3, t) if (strict or r.tier == "thorough") else ()):
        r.tlc_strict("SubmitterStrict", tr, ("ih", "limit"), ("IH", "L"), selftest=corrupt if tr is t else None)


def c06(r):
    submitter(r, ["C06."])
    if r.tier == "thorough":
        r.apalache_inductive("WatermarkInd", implied=("WmSound", "InclSound"))


def c07(r):
    submitter(r, ["C07."], strict=False)
    # the full-node half of C07 ("observed on the DA layer", "eventually reports h, including after a restart"):
    # the real RetrieveLoop / SyncLoop / DAIncluderLoop of a full node under DA fault sequences, restarts and crashes
    for args, name in ((["-arg", "retrieve"], "syncer-retrieve"), ([], "syncer-random"), (["-arg", "crash"], "syncer-crashenum")):
        t = r.drive("syncer", args, name=name)
        r.tlc_validate("SyncTrace", t, ["C07."])
    # the whole node: an orderly stop with a submission in flight, restart on the same storage (real FullNode.Run)
    tn = r.drive("fullnode", name="fullnode", timeout=1500)
    r.tlc_validate("RunTrace", tn, ["C07."])
    # unbounded in chain length: the watermark / DA-included discipline as an inductive invariant
    r.apalache_inductive("WatermarkInd", implied=("WmSound", "InclSound"))


def c08(r):
    submitter(r, ["C08."], strict=False)


PIPELINES = {"C01": c01, "C04": c04, "C02": c02, "C05": c05, "C06": c06, "C07": c07, "C08": c08, "C03": c03, "C09": c09, "C10": c10, "C11": c11, "C17": c17, "C13": c13, "C14": c14, "C15": c15, "C20": c20, "C16": c16, "C19": c19, "C18": c18, "C12": c12}
ASSUME = {}
FINISH = {}


def REPLAY_MONITOR(pid, path):
    import os
    import re
    m = re.match(r"%s-([A-Za-z0-9]+)-" % pid, os.path.basename(path))
    return m.group(1) if m else {"C01": "ProducerTrace", "C04": "ProducerTrace", "C02": "SyncTrace", "C05": "SyncTrace", "C03": "SyncTrace", "C09": "SyncTrace", "C10": "QueueTrace", "C11": "FlowTrace", "C17": "LazyTrace", "C13": "WorldTrace", "C14": "StoreTrace", "C15": "KVTrace", "C20": "BasedTrace", "C16": "ProxyTrace", "C19": "KeyTrace", "C18": "ConfigTrace", "C12": "WireTrace", "C06": "SubmitTrace", "C07": "SubmitTrace", "C08": "SubmitTrace"}[pid]


# invariant-name prefixes each check reports (a replay uses the same set)
REPLAY_PREFIXES = {"C04": ["C04.", "C01."], "C05": ["C05.", "C02."], "C09": ["C09.", "C02.Halted", "C02.Converged", "C02.AppliedWhatArrived"],
                   "C13": ["C13.", "C01.", "C06.", "C07."]}
