---------------------------- MODULE QueueTrace ----------------------------
(***************************************************************************)
(* Tier M monitor for the single sequencer's batch queue (C10).  Events    *)
(* are the calls on the real single.Sequencer over the crash-injecting     *)
(* datastore: QSubmit{who, c, res, grp}, QNext{c, res}, QRestart, Crash.   *)
(* The monitor keeps the FIFO of acknowledged-but-not-handed-out batches.  *)
(* A submission that crashed before it was acknowledged is a "maybe"       *)
(* entry: it may come out or not - unless the queue was full when it was    *)
(* made: a submission to a full queue writes nothing, so it can leave      *)
(* nothing behind.  Submissions of one concurrent phase     *)
(* (grp > 0) are ordered per submitter only.                               *)
(***************************************************************************)
EXTENDS TraceLib

VARIABLES l, run, bound, pend, sureCount, viol
vars == <<l, run, bound, pend, sureCount, viol>>

Init == l = 1 /\ run = "" /\ bound = 0 /\ pend = <<>> /\ sureCount = 0 /\ viol = <<>>
e == Trace[l]
Is(name) == l <= N /\ e.ev = name
Adv == l' = l + 1

\* entry i may be handed out now: every earlier pending entry is a maybe, or a concurrent sibling of another submitter
MayComeNext(i) == \A j \in 1 .. (i - 1) : ~pend[j].sure \/ (pend[j].grp > 0 /\ pend[j].grp = pend[i].grp /\ pend[j].who # pend[i].who)
Candidates(c) == {i \in 1 .. Len(pend) : pend[i].c = c /\ MayComeNext(i)}
RemoveIdx(s, i) == SubSeq(s, 1, i - 1) \o SubSeq(s, i + 1, Len(s))
MinOfSet(S) == CHOOSE m \in S : \A x \in S : m <= x
NSure == Cardinality({i \in 1 .. Len(pend) : pend[i].sure})
NAll == Len(pend)

\* the record says the datastore refused this operation's write with an error (the process lives on): then the
\* operation may fail; a failed take hands nothing out and a failed submission is not accepted
WF == "wf" \in DOMAIN e /\ e.wf
TReset == /\ Is("Reset") /\ Adv /\ run' = e.run /\ bound' = e.bound /\ pend' = <<>> /\ sureCount' = 0 /\ UNCHANGED viol

TSubmit ==
    /\ Is("QSubmit") /\ Adv
    /\ pend' = CASE e.res = "ok" /\ e.c # "" -> Append(pend, [c |-> e.c, sure |-> TRUE, grp |-> e.grp, who |-> e.who, full |-> FALSE])
                 [] e.res = "crash" /\ e.c # "" -> Append(pend, [c |-> e.c, sure |-> FALSE, grp |-> e.grp, who |-> e.who, full |-> (bound > 0 /\ e.grp = 0 /\ NSure >= bound)])
                 [] OTHER -> pend
    /\ viol' = viol \o Failed(<<
          <<"C10.BoundRespected", (e.res = "ok" /\ e.c # "" /\ bound > 0 /\ e.grp = 0) => NSure < bound, "a batch was accepted although the queue already held the configured maximum">>,
          <<"C10.RejectOnlyWhenFull", (e.res = "full" /\ e.grp = 0) => bound > 0 /\ NAll >= bound, "a batch was rejected as 'queue full' although the queue was not full">>,
          <<"C10.AcceptsValid", e.res = "err" => WF, "a submission failed with an unexpected error">>
          >>, l, run)
    /\ UNCHANGED <<run, bound, sureCount>>

TNext ==
    /\ Is("QNext") /\ Adv
    /\ LET cands == IF e.c = "" THEN {} ELSE Candidates(e.c) IN
       /\ pend' = IF e.res = "ok" /\ e.c # "" /\ cands # {} THEN RemoveIdx(pend, MinOfSet(cands)) ELSE pend
       /\ viol' = viol \o Failed(<<
             <<"C10.FifoExactlyOnce", (e.res = "ok" /\ e.c # "") => cands # {},
                 "a batch was handed out that is not the next acknowledged one (out of order, handed out twice, or never accepted)">>,
             <<"C10.RejectedLeavesNoTrace", (e.res = "ok" /\ e.c # "" /\ cands # {}) => ~pend[MinOfSet(cands)].full,
                 "a submission that met a full queue (and died before it was answered) left a batch behind that was handed out">>,
             <<"C10.NoLoss", (e.res = "ok" /\ e.c = "") => NSure = 0, "the queue reported nothing to hand out although an acknowledged batch was never handed out">>,
             <<"C10.NextWorks", e.res = "err" => WF, "GetNextBatch failed">>
             >>, l, run)
    /\ UNCHANGED <<run, bound, sureCount>>

TRestart ==
    /\ Is("QRestart") /\ Adv
    /\ viol' = viol \o Failed(<< <<"C10.RestartFailed", e.ok, "the sequencer cannot start on the database it wrote">> >>, l, run)
    /\ bound' = IF "bound" \in DOMAIN e THEN e.bound ELSE bound      \* the bound is a setting of the process, not of the database
    /\ UNCHANGED <<run, pend, sureCount>>

TPanic ==
    /\ Is("Panic") /\ Adv
    /\ viol' = viol \o Failed(<< <<"C10.Panic", FALSE, "panic in queue code">> >>, l, run)
    /\ UNCHANGED <<run, bound, pend, sureCount>>

TOther ==
    /\ l <= N /\ Adv /\ e.ev \notin {"Reset", "QSubmit", "QNext", "QRestart", "Panic"}
    /\ UNCHANGED <<run, bound, pend, sureCount, viol>>

Next == TReset \/ TSubmit \/ TNext \/ TRestart \/ TPanic \/ TOther
Spec == Init /\ [][Next]_vars
Finish == (l = N + 1) => ndJsonSerialize("viol.ndjson", viol)
Consumed == TLCGet("stats").diameter = N + 1
=============================================================================
