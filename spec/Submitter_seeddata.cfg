SPECIFICATION Spec
CONSTANTS
  IH = 1
  MaxH = 3
  L = 2
  MaxReplies = 4
  MaxCrashes = 1
  TxKinds = {"a"}
  SkipEmpty = TRUE
  BaseAtIH = TRUE
  Alias = FALSE
  MarksDurable = TRUE
  SeedDataFromHeader = TRUE
  Rec = FALSE
INVARIANTS WmSound InclSound InclBounds FinalizeInOrder FinalizeBeforeReport RefuseOnlyIfPending
PROPERTIES WmMonotone InclMonotone
VIEW View
CHECK_DEADLOCK FALSE
