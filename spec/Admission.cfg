SPECIFICATION Spec
CONSTANTS
  KeyBinding = TRUE
  SignerlessOK = FALSE
  SkipIfSeen = FALSE
INVARIANTS OnlyProposersHeaders OnlyProposersData ExecutedOnlyProposers
CHECK_DEADLOCK FALSE
