SPECIFICATION SSpec
CONSTANTS
  IH = 1
  Shape <- ShapeA
  ShapeName = "ShapeA"
  MaxDup = 1000000
  MaxCrashes = 100000000
  MaxRestarts = 100000000
  Alias = TRUE
  BlockFirst = TRUE
  ApplyAtStart = TRUE
  Mix = TRUE
  Rec = FALSE
INVARIANT Finish
POSTCONDITION Consumed
CHECK_DEADLOCK FALSE
