package drivers

import (
	"fmt"
	mrand "math/rand"
	"testing/synctest"
	"time"

	"verif/harness/world"
)

// RunRetrieve exercises the real RetrieveLoop (C09): genuine blobs mixed with junk, many blobs
// per DA height (more than one id chunk), empty heights, and scripted fetch outcomes per height
// (not yet produced, listing error, chunk error, finally success).
func RunRetrieve(c *Ctx) {
	rng := mrand.New(mrand.NewSource(c.Seed*3 + 11))
	runs := 40
	if c.Thorough() {
		runs = 200
	}
	for r := 0; r < runs; r++ {
		shapeName := []string{"ShapeA", "ShapeE", "ShapeA", "ShapeE", "ShapeZ"}[r%5]
		start := []uint64{1, 1, 3}[rng.Intn(3)]
		synctest.Run(func() {
			s := newSyncRun(c, fmt.Sprintf("retrieve/%s/%d", shapeName, r), 1, SyncShapes[shapeName], world.F{"src": "retrieve", "shape": shapeName, "dastart": int(start)})
			defer s.finish()
			s.full.Cfg.DA.StartHeight = start
			s.daH = start
			if s.startFull() != nil {
				return
			}
			m := s.full.M
			// plan the DA layer: every genuine item at some height >= start, in random order, with junk around
			type item struct {
				kind string
				h    uint64
			}
			var items []item
			for h := s.ih; h <= s.top; h++ {
				items = append(items, item{"hdr", h})
				if len(s.dataOf(h).Txs) > 0 {
					items = append(items, item{"data", h})
				}
			}
			rng.Shuffle(len(items), func(i, j int) { items[i], items[j] = items[j], items[i] })
			dah := start
			i := 0
			for i < len(items) {
				switch rng.Intn(5) {
				case 0: // an empty DA height
					dah++
					continue
				}
				n := 1 + rng.Intn(3)
				big := rng.Intn(6) == 0
				if big { // more than one chunk of ids: junk first, the genuine items late
					for j := 0; j < 100+rng.Intn(30); j++ {
						s.w.DA.Place(dah, junk(rng, []byte("padding-padding-padding")))
					}
				}
				for j := 0; j < n && i < len(items); j++ {
					for k := rng.Intn(3); k > 0; k-- {
						g := HeaderBlob(s.headerOf(s.ih))
						s.placeJunk(dah, junk(rng, g))
					}
					it := items[i]
					i++
					var blob []byte
					if it.kind == "hdr" {
						blob = HeaderBlob(s.headerOf(it.h))
					} else {
						blob = s.dataBlob(s.dataOf(it.h))
					}
					s.placed[evKey(it.kind, it.h)] = true
					s.c.Tr.Emit("Deliver", world.F{"node": "full", "kind": it.kind, "h": int(it.h), "via": "da", "dah": int(dah)})
					s.w.DA.Place(dah, blob)
				}
				// scripted fetch outcomes before the height can be read
				var script []string
				for k := rng.Intn(3); k > 0; k-- {
					o := []string{"future", "errlist", "errchunk:0", "errlist", "future", "deadline", "canceled", "errchunk:0:notfound", "errchunk:0:future", "errchunk:0:deadline"}[rng.Intn(10)]
					if big && rng.Intn(2) == 0 {
						o = "errchunk:1"
					}
					script = append(script, o)
				}
				if rng.Intn(12) == 0 { // a long outage: more failures than one retry budget
					for k := 0; k < 11; k++ {
						script = append(script, "errlist")
					}
				}
				s.w.DA.FetchScript[dah] = script
				dah++
			}
			s.daH = dah
			s.w.DA.SetCurrent(dah - 1)
			c.Tr.Emit("DAPlan", world.F{"node": "full", "last": int(dah - 1), "start": int(start)})
			// let the scan run: signal, then let virtual time pass (retry delays, DA ticker)
			for round := 0; round < 40 && !s.isDown(); round++ {
				select {
				case m.VerifRetrieveCh() <- struct{}{}:
				default:
				}
				time.Sleep(1100 * time.Millisecond)
				synctest.Wait()
				if round%4 == 3 {
					s.full.Obs("scan")
				}
			}
			if s.isDown() && s.full.M != nil {
				s.wg.Wait()
				s.full.M = nil
			}
			s.full.Obs("scan")
			s.settle()
			c.Count("retrieveruns", 1)
		})
	}
}

// placeJunk puts a damaged copy of a genuine blob on the DA layer. A damaged copy may still BE the genuine
// item (for instance a flipped byte inside a field the decoder ignores): then the DA layer really holds
// the proposer's header at that height as well, and the trace says so.
func (s *syncRun) placeJunk(dah uint64, b []byte) {
	cl := s.w.ClassifyBlob(b)
	if cl["kind"] == "hdr" && cl["sig"] == "P" {
		h := uint64(cl["h"].(int))
		if h >= s.ih && h <= s.top && cl["hash"] == world.Short(s.headerOf(h).Hash().String()) {
			s.c.Tr.Emit("Deliver", world.F{"node": "full", "kind": "hdr", "h": int(h), "via": "da", "dah": int(dah)})
		}
	}
	s.w.DA.Place(dah, b)
}

// RunRetrieveBackPressure: the sync loop is busy (held inside the execution layer) for longer than any fetch
// deadline while one DA height holds more genuine blobs than the hand-over channel has slots: the scan must
// wait and then hand over everything - nothing at that height may be dropped, the cursor may not move on.
func RunRetrieveBackPressure(c *Ctx) {
	synctest.Run(func() {
		s := newSyncRun(c, "retrieve/backpressure", 1, SyncShapes["ShapeA"], world.F{"src": "retrieve", "shape": "ShapeA", "dastart": 1})
		defer s.finish()
		s.full.Cfg.DA.StartHeight = 1
		s.daH = 1
		gate := make(chan struct{})
		s.full.Exec.Gate = gate
		if s.startFull() != nil {
			return
		}
		m := s.full.M
		dah := uint64(1)
		place := func(kind string, h uint64) {
			var blob []byte
			if kind == "hdr" {
				blob = HeaderBlob(s.headerOf(h))
			} else {
				blob = s.dataBlob(s.dataOf(h))
			}
			s.placed[evKey(kind, h)] = true
			s.c.Tr.Emit("Deliver", world.F{"node": "full", "kind": kind, "h": int(h), "via": "da", "dah": int(dah)})
			s.w.DA.Place(dah, blob)
		}
		place("hdr", s.ih) // the first block is applied at once: the sync loop is then held inside ExecuteTxs
		dup := HeaderBlob(s.headerOf(s.ih + 1))
		s.c.Tr.Emit("Deliver", world.F{"node": "full", "kind": "hdr", "h": int(s.ih + 1), "via": "da", "dah": int(dah)})
		s.placed[evKey("hdr", s.ih+1)] = true
		for i := 0; i < 10040; i++ { // more copies of one genuine header than the channel has slots
			s.w.DA.Place(dah, dup)
		}
		for h := s.ih + 1; h <= s.top; h++ { // ... and behind them the rest of the chain, at the same DA height
			if h > s.ih+1 {
				place("hdr", h)
			}
			if len(s.dataOf(h).Txs) > 0 {
				place("data", h)
			}
		}
		s.w.DA.SetCurrent(dah)
		s.daH = dah + 1
		c.Tr.Emit("DAPlan", world.F{"node": "full", "last": int(dah), "start": 1})
		select {
		case m.VerifRetrieveCh() <- struct{}{}:
		default:
		}
		synctest.Wait()
		time.Sleep(45 * time.Second) // longer than the scan's fetch deadline
		synctest.Wait()
		s.full.Exec.Gate = nil
		close(gate)
		synctest.Wait()
		for round := 0; round < 6 && !s.isDown(); round++ {
			select {
			case m.VerifRetrieveCh() <- struct{}{}:
			default:
			}
			time.Sleep(1100 * time.Millisecond)
			synctest.Wait()
		}
		s.full.Obs("scan")
		s.settle()
		c.Count("backpressure", 1)
	})
}
