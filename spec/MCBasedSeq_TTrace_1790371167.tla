---- MODULE MCBasedSeq_TTrace_1790371167 ----
EXTENDS Sequences, TLCExt, Toolbox, MCBasedSeq, Naturals, TLC

_expression ==
    LET MCBasedSeq_TEExpression == INSTANCE MCBasedSeq_TEExpression
    IN MCBasedSeq_TEExpression!expression
----

_trace ==
    LET MCBasedSeq_TETrace == INSTANCE MCBasedSeq_TETrace
    IN MCBasedSeq_TETrace!trace
----

_inv ==
    ~(
        TLCGet("level") = Len(_TETrace)
        /\
        cur = (4)
        /\
        calls = (2)
        /\
        scan = (5)
        /\
        carry = (<<[id |-> "e", size |-> 2]>>)
        /\
        fails = (0)
        /\
        sizesOk = (TRUE)
        /\
        released = (<<[id |-> "d", size |-> 1]>>)
    )
----

_init ==
    /\ fails = _TETrace[1].fails
    /\ scan = _TETrace[1].scan
    /\ sizesOk = _TETrace[1].sizesOk
    /\ calls = _TETrace[1].calls
    /\ cur = _TETrace[1].cur
    /\ carry = _TETrace[1].carry
    /\ released = _TETrace[1].released
----

_next ==
    /\ \E i,j \in DOMAIN _TETrace:
        /\ \/ /\ j = i + 1
              /\ i = TLCGet("level")
        /\ fails  = _TETrace[i].fails
        /\ fails' = _TETrace[j].fails
        /\ scan  = _TETrace[i].scan
        /\ scan' = _TETrace[j].scan
        /\ sizesOk  = _TETrace[i].sizesOk
        /\ sizesOk' = _TETrace[j].sizesOk
        /\ calls  = _TETrace[i].calls
        /\ calls' = _TETrace[j].calls
        /\ cur  = _TETrace[i].cur
        /\ cur' = _TETrace[j].cur
        /\ carry  = _TETrace[i].carry
        /\ carry' = _TETrace[j].carry
        /\ released  = _TETrace[i].released
        /\ released' = _TETrace[j].released

\* Uncomment the ASSUME below to write the states of the error trace
\* to the given file in Json format. Note that you can pass any tuple
\* to `JsonSerialize`. For example, a sub-sequence of _TETrace.
    \* ASSUME
    \*     LET J == INSTANCE Json
    \*         IN J!JsonSerialize("MCBasedSeq_TTrace_1790371167.json", _TETrace)

=============================================================================

 Note that you can extract this module `MCBasedSeq_TEExpression`
  to a dedicated file to reuse `expression` (the module in the 
  dedicated `MCBasedSeq_TEExpression.tla` file takes precedence 
  over the module `MCBasedSeq_TEExpression` below).

---- MODULE MCBasedSeq_TEExpression ----
EXTENDS Sequences, TLCExt, Toolbox, MCBasedSeq, Naturals, TLC

expression == 
    [
        \* To hide variables of the `MCBasedSeq` spec from the error trace,
        \* remove the variables below.  The trace will be written in the order
        \* of the fields of this record.
        fails |-> fails
        ,scan |-> scan
        ,sizesOk |-> sizesOk
        ,calls |-> calls
        ,cur |-> cur
        ,carry |-> carry
        ,released |-> released
        
        \* Put additional constant-, state-, and action-level expressions here:
        \* ,_stateNumber |-> _TEPosition
        \* ,_failsUnchanged |-> fails = fails'
        
        \* Format the `fails` variable as Json value.
        \* ,_failsJson |->
        \*     LET J == INSTANCE Json
        \*     IN J!ToJson(fails)
        
        \* Lastly, you may build expressions over arbitrary sets of states by
        \* leveraging the _TETrace operator.  For example, this is how to
        \* count the number of times a spec variable changed up to the current
        \* state in the trace.
        \* ,_failsModCount |->
        \*     LET F[s \in DOMAIN _TETrace] ==
        \*         IF s = 1 THEN 0
        \*         ELSE IF _TETrace[s].fails # _TETrace[s-1].fails
        \*             THEN 1 + F[s-1] ELSE F[s-1]
        \*     IN F[_TEPosition - 1]
    ]

=============================================================================



Parsing and semantic processing can take forever if the trace below is long.
 In this case, it is advised to uncomment the module below to deserialize the
 trace from a generated binary file.

\*
\*---- MODULE MCBasedSeq_TETrace ----
\*EXTENDS IOUtils, MCBasedSeq, TLC
\*
\*trace == IODeserialize("MCBasedSeq_TTrace_1790371167.bin", TRUE)
\*
\*=============================================================================
\*

---- MODULE MCBasedSeq_TETrace ----
EXTENDS MCBasedSeq, TLC

trace == 
    <<
    ([cur |-> 0,calls |-> 0,scan |-> 1,carry |-> <<>>,fails |-> 0,sizesOk |-> TRUE,released |-> <<>>]),
    ([cur |-> 0,calls |-> 1,scan |-> 4,carry |-> <<>>,fails |-> 0,sizesOk |-> TRUE,released |-> <<>>]),
    ([cur |-> 1,calls |-> 1,scan |-> 4,carry |-> <<>>,fails |-> 0,sizesOk |-> TRUE,released |-> <<>>]),
    ([cur |-> 2,calls |-> 1,scan |-> 4,carry |-> <<>>,fails |-> 0,sizesOk |-> TRUE,released |-> <<>>]),
    ([cur |-> 3,calls |-> 1,scan |-> 4,carry |-> <<>>,fails |-> 0,sizesOk |-> TRUE,released |-> <<>>]),
    ([cur |-> 4,calls |-> 1,scan |-> 4,carry |-> <<>>,fails |-> 0,sizesOk |-> TRUE,released |-> <<>>]),
    ([cur |-> 4,calls |-> 2,scan |-> 5,carry |-> <<[id |-> "e", size |-> 2]>>,fails |-> 0,sizesOk |-> TRUE,released |-> <<[id |-> "d", size |-> 1]>>])
    >>
----


=============================================================================

---- CONFIG MCBasedSeq_TTrace_1790371167 ----
CONSTANTS
    DAContent <- MC_DA
    Limits = { 3 , 4 , 6 }
    MaxCalls = 5
    Drift = 3
    AdvanceOnPushBack = TRUE
    StopOnFuture = FALSE
    CarryBlocksScan = TRUE

INVARIANT
    _inv

CHECK_DEADLOCK
    \* CHECK_DEADLOCK off because of PROPERTY or INVARIANT above.
    FALSE

INIT
    _init

NEXT
    _next

CONSTANT
    _TETrace <- _trace

ALIAS
    _expression
=============================================================================
\* Generated on Fri Sep 25 21:19:28 UTC 2026