SPECIFICATION TSpec
CONSTANTS
  Heights = {1, 2, 3}
  Variants = {"A", "B", "C"}
  MetaKeys = {"d"}
  Values = {"x"}
  AtomicSave = TRUE
  CommitOnError = FALSE
  DropStaleIndex = TRUE
INVARIANT Finish
POSTCONDITION Consumed
CHECK_DEADLOCK FALSE
