"""Shared machinery of the /verif checks: build the harness from /repo's working tree,
run TLC (exhaustive, simulation, trace validation), classify violations against the
known-findings file, write evidence.

Exit codes of a check: 0 = property held on everything explored (known findings are
printed as KNOWN-FINDING lines), 1 = violation on recorded behaviour of the real code
(VIOLATION line), 2 = inconclusive (build failure, dead driver, TLC error, timeout)."""
import collections
import json
import os
import re
import shutil
import subprocess
import sys
import tempfile
import time

VERIF = os.path.dirname(os.path.dirname(os.path.abspath(__file__)))
REPO = os.environ.get("VERIF_REPO", "/repo")
SPEC = os.path.join(VERIF, "spec")
HARNESS = os.path.join(VERIF, "harness")
FINDINGS = os.path.join(VERIF, "known_findings.jsonl")


class Inconclusive(Exception):
    pass


def log(*a):
    print(*a, flush=True)


def go_env(race=False):
    env = dict(os.environ)
    env["GOFLAGS"] = "-mod=mod"
    env["GOPROXY"] = "off"
    env["GOEXPERIMENT"] = "synctest"
    env.pop("GOTOOLCHAIN", None)
    env.pop("GOSUMDB", None)
    if race:
        env["CGO_ENABLED"] = "1"
    return env


class Run:
    def __init__(self, pid, tier, seed):
        self.pid = pid
        self.tier = tier
        self.seed = seed
        self.t0 = time.time()
        self.scratch = tempfile.mkdtemp(prefix="verif-%s-" % pid)
        self.model = {"states": 0, "transitions": 0, "runs": []}
        self.traces = 0
        self.events = 0
        self.monitor_states = 0
        self.samples = []
        self.driver_stats = {}
        self.violations = []      # all, for this property
        self.notes = []
        self.strict = []
        self.checks_evaluated = collections.Counter()
        self.bin = {}

    def cleanup(self):
        shutil.rmtree(self.scratch, ignore_errors=True)

    # ------------------------------------------------------------------ harness
    def build(self, race=False, pkg="./cmd/harness"):
        key = (race, pkg)
        if key in self.bin:
            return self.bin[key]
        # go.sum of the harness = union of the go.sum files of the repository's modules
        sums = set()
        for d in ["", "core", "da", "sequencers/single", "sequencers/based", "apps/testapp"]:
            p = os.path.join(REPO, d, "go.sum")
            if os.path.exists(p):
                sums.update(open(p).read().splitlines())
        own = os.path.join(HARNESS, "go.sum")
        if os.path.exists(own):
            sums.update(open(own).read().splitlines())
        want = "\n".join(sorted(s for s in sums if s.strip())) + "\n"
        if not os.path.exists(own) or open(own).read() != want:
            with open(own, "w") as f:
                f.write(want)
        out = os.path.join(self.scratch, "harness-race" if race else "harness")
        cmd = ["go", "build", "-tags", "verif"] + (["-race"] if race else []) + ["-o", out, pkg]
        t = time.time()
        p = subprocess.run(cmd, cwd=HARNESS, env=go_env(race), capture_output=True, text=True)
        if p.returncode != 0:
            log(p.stdout[-3000:], p.stderr[-6000:])
            raise Inconclusive("harness build failed (the tree under /repo does not compile with -tags verif)")
        self.notes.append("harness built in %.1fs%s" % (time.time() - t, " (-race)" if race else ""))
        self.bin[key] = out
        return out

    def drive(self, driver, args=(), race=False, timeout=1800, beh=None, name=None):
        """Run one driver; returns the trace path."""
        binp = self.build(race)
        name = name or driver
        trace = os.path.join(self.scratch, "trace-%s.ndjson" % name)
        stats = os.path.join(self.scratch, "stats-%s.json" % name)
        cmd = [binp, driver, "-out", trace, "-stats", stats, "-seed", str(self.seed), "-tier", self.tier]
        if beh:
            cmd += ["-beh", beh]
        cmd += list(args)
        env = go_env(race)
        env["GORACE"] = "halt_on_error=0 exitcode=66 log_path=%s" % os.path.join(self.scratch, "race-" + name)
        try:
            p = subprocess.run(cmd, cwd=self.scratch, env=env, capture_output=True, text=True, timeout=timeout)
        except subprocess.TimeoutExpired:
            raise Inconclusive("driver %s timed out after %ds" % (name, timeout))
        self.last_driver = p
        if p.returncode not in (0, 66):
            log(p.stdout[-3000:])
            log(p.stderr[-6000:])
            raise Inconclusive("driver %s died with exit code %d" % (name, p.returncode))
        if os.path.exists(stats):
            st = json.load(open(stats))
            self.driver_stats[name] = st.get("stats", {})
            self.traces += st.get("stats", {}).get("runs", 0)
            self.events += st.get("stats", {}).get("events", 0)
        return trace

    def race_reports(self, name):
        out = []
        for f in os.listdir(self.scratch):
            if f.startswith("race-" + name):
                out.append(open(os.path.join(self.scratch, f)).read())
        return out

    # ------------------------------------------------------------------ TLC
    def _tlc(self, args, cwd, timeout, env=None):
        md = tempfile.mkdtemp(prefix="md-", dir=self.scratch)
        cmd = ["timeout", str(timeout), "tlc", "-metadir", md] + args
        e = dict(os.environ)
        if env:
            e.update(env)
        p = subprocess.run(cmd, cwd=cwd, env=e, capture_output=True, text=True)
        shutil.rmtree(md, ignore_errors=True)
        return p

    def _specdir(self):
        d = os.path.join(self.scratch, "spec")
        if not os.path.isdir(d):
            shutil.copytree(SPEC, d)
        return d

    def tlc_exhaustive(self, module, cfg, workers=16, timeout=900, expect_ok=True):
        """Model-check a tier-I module. A failure here is a spec/design event (exit 2), never a verdict."""
        d = self._specdir()
        t = time.time()
        p = self._tlc(["-workers", str(workers), "-config", cfg, module], d, timeout)
        out = p.stdout
        m = re.search(r"(\d+) states generated, (\d+) distinct states found", out)
        gen, dist = (int(m.group(1)), int(m.group(2))) if m else (0, 0)
        ok = "Model checking completed. No error has been found." in out
        self.model["transitions"] += gen
        self.model["states"] += dist
        self.model["runs"].append({"module": module, "cfg": cfg, "generated": gen, "distinct": dist, "ok": ok,
                                   "wall_s": round(time.time() - t, 1)})
        if expect_ok and not ok:
            log(out[-4000:])
            raise Inconclusive("TLC on %s/%s did not complete cleanly (specification or design problem, not a verdict on the code)" % (module, cfg))
        return ok, out

    def tlc_simulate(self, module, cfg, num, depth, name="beh", timeout=600):
        d = self._specdir()
        beh = os.path.join(self.scratch, name)
        os.makedirs(beh, exist_ok=True)
        p = self._tlc(["-workers", "1", "-simulate", "num=%d" % num, "-depth", str(depth), "-seed", str(self.seed),
                       "-config", cfg, module], d, timeout, env={"VERIF_BEH_DIR": beh})
        if "Error" in p.stdout and "violated" in p.stdout:
            log(p.stdout[-3000:])
            raise Inconclusive("TLC simulation of %s reported a model error" % module)
        n = len([f for f in os.listdir(beh) if f.endswith(".ndjson")])
        if n == 0:
            log(p.stdout[-3000:])
            raise Inconclusive("TLC simulation of %s produced no behaviours" % module)
        self.model["runs"].append({"module": module, "cfg": cfg, "simulated_behaviours": n})
        return beh

    def tlc_validate(self, monitor, trace, prefixes, timeout=1800):
        """Validate one recorded world trace against a monitor spec. Returns the violations whose
        invariant name starts with one of `prefixes`."""
        d = os.path.join(self.scratch, "tv-%s-%d" % (monitor, len(os.listdir(self.scratch))))
        os.makedirs(d)
        for f in os.listdir(SPEC):
            if f.endswith(".tla") or f.endswith(".cfg"):
                shutil.copy(os.path.join(SPEC, f), d)
        shutil.copy(trace, os.path.join(d, "trace.ndjson"))
        nlines = sum(1 for _ in open(trace))
        if nlines == 0:
            raise Inconclusive("empty trace for %s" % monitor)
        p = self._tlc(["-workers", "1", "-config", monitor + ".cfg", monitor + ".tla"], d, timeout,
                      env={"JAVA_TOOL_OPTIONS": "-Xss512m"})
        out = p.stdout
        m = re.search(r"(\d+) states generated, (\d+) distinct states found", out)
        vio = os.path.join(d, "viol.ndjson")
        if "Model checking completed. No error has been found." not in out or not os.path.exists(vio) or not m:
            log(out[-5000:])
            log(p.stderr[-2000:])
            raise Inconclusive("trace validation with %s did not consume the trace (monitor or trace-format problem)" % monitor)
        if int(m.group(2)) != nlines + 1:
            raise Inconclusive("monitor %s consumed %s states for %d records" % (monitor, m.group(2), nlines))
        self.monitor_states += int(m.group(2))
        vs = [json.loads(l) for l in open(vio) if l.strip()]
        mine = [v for v in vs if any(v["inv"].startswith(px) for px in prefixes)]
        for v in mine:
            v["trace"] = trace
            v["monitor"] = monitor
        self.violations += mine
        # samples and event census for the evidence file
        census = collections.Counter()
        with open(trace) as f:
            for i, line in enumerate(f):
                try:
                    ev = json.loads(line)
                except Exception:
                    continue
                census[ev.get("ev", "?")] += 1
                if len(self.samples) < 6 and ev.get("ev") in ("Reset", "SeqNext", "KV", "Crash", "DASubmit", "Deliver", "Call") and i % 7 == 0:
                    self.samples.append(line.strip()[:400])
        self.checks_evaluated.update(census)
        shutil.rmtree(d, ignore_errors=True)
        return mine

    # ------------------------------------------------------------------ Apalache (unbounded safety of small integer modules)
    def apalache_inductive(self, module, ind_inv="IndInv", ind_init="IndInit", implied=(), timeout=300):
        """Discharge an inductive invariant with Apalache: Init => IndInv, IndInv /\\ Next => IndInv',
        IndInv => each property in `implied`. A failure is a defect of the specification (Inconclusive), never a verdict."""
        d = os.path.join(self.scratch, "apa-%s-%d" % (module, len(os.listdir(self.scratch))))
        os.makedirs(d)
        shutil.copy(os.path.join(SPEC, module + ".tla"), d)
        steps = [("Init", ind_inv, 0), (ind_init, ind_inv, 1)] + [(ind_init, q, 0) for q in implied]
        t0 = time.time()
        for init, inv, length in steps:
            cmd = ["timeout", str(timeout), "apalache-mc", "check", "--init=" + init, "--inv=" + inv, "--length=%d" % length,
                   "--out-dir=" + os.path.join(d, "out"), module + ".tla"]
            try:
                p = subprocess.run(cmd, cwd=d, capture_output=True, text=True)
            except FileNotFoundError:
                self.notes.append("apalache-mc not available: inductive check of %s skipped" % module)
                return False
            if "The outcome is: NoError" not in p.stdout:
                log(p.stdout[-3000:])
                raise Inconclusive("Apalache did not discharge %s => %s (length %d) of %s" % (init, inv, length, module))
        self.notes.append("Apalache: %s is inductive in %s and implies %s (%d obligations, %.0fs) - unbounded in chain length" % (
            ind_inv, module, ", ".join(implied), len(steps), time.time() - t0))
        self.model["runs"].append({"module": module, "tool": "apalache", "obligations": len(steps), "ok": True})
        shutil.rmtree(d, ignore_errors=True)
        return True

    # ------------------------------------------------------------------ strict (step-level) conformance
    def tlc_strict(self, module, trace, field, const, to_const=lambda v: v, selftest=None, timeout=1200, accept=None):
        """field / const may be tuples: several tier-I constants that vary per run (one TLC pass per combination);
        to_const may then be a tuple of functions, one per field. A constant is set where the cfg has `C = ...`
        or `C <- ...`. `accept(reset_record)` says which runs the module covers at all (the others are skipped
        by the module itself and not counted here)."""
        if isinstance(field, (list, tuple)):
            fields, consts = list(field), list(const)
            fns = list(to_const) if isinstance(to_const, (list, tuple)) else [to_const] * len(fields)
            keyof = lambda ev: tuple(fn(ev.get(f)) for fn, f in zip(fns, fields))
        else:
            fields, consts = [field], [const]
            keyof = lambda ev: (to_const(ev.get(field)),)
        return self._tlc_strict(module, trace, keyof, consts, selftest, timeout, accept)

    def _tlc_strict(self, module, trace, keyof, consts, selftest, timeout, accept=None):
        """Step-level trace validation of a tier-I module: every record of the recorded trace must be explained
        by an action of the tier-I module (module = <TierI>Strict.tla, which EXTENDS it). The tier-I constant
        `const` varies per run (Reset field `field`), so TLC is run once per value; runs of other values are
        skipped in that pass. Records that no action explains are DRIFT: reported, written to the evidence
        file, and never a verdict (verdicts come from the monitors). With `selftest`, one record of the trace
        is corrupted first and the pass must report drift there - the binding is not vacuous."""
        vals, nrec = collections.OrderedDict(), collections.Counter()
        curv = None
        owner = []      # per line: the key of the run it belongs to (None: a run the module does not cover)
        with open(trace) as f:
            lines = f.readlines()
        for line in lines:
            owner.append(None)
            try:
                ev = json.loads(line)
            except Exception:
                continue
            if ev.get("ev") == "Reset":
                curv = keyof(ev) if (accept is None or accept(ev)) else None
                if curv is not None:
                    vals[curv] = vals.get(curv, 0) + 1
            if curv is not None:
                nrec[curv] += 1
            owner[-1] = curv
        drift, passes = [], 0
        if not vals:
            raise Inconclusive("strict validation with %s: the trace has no run the module covers" % module)
        base = open(os.path.join(SPEC, module + ".cfg")).read()

        def one(cval, tlines, tag):
            d = tempfile.mkdtemp(prefix="ts-%s-%s-" % (module, tag), dir=self.scratch)
            for f in os.listdir(SPEC):
                if f.endswith(".tla"):
                    shutil.copy(os.path.join(SPEC, f), d)
            cfg = base
            for cn, cv in zip(consts, cval):
                cfg = re.sub(r"(?m)^(\s*%s\s*(?:=|<-)\s*).*$" % re.escape(cn), lambda m, cv=cv: m.group(1) + str(cv), cfg)
            open(os.path.join(d, module + ".cfg"), "w").write(cfg)
            # a pass sees only the runs of its own constants (the module would skip the others record by record)
            idx = [i for i in range(len(tlines)) if owner[i] == cval]
            open(os.path.join(d, "trace.ndjson"), "w").writelines(tlines[i] for i in idx)
            p = self._tlc(["-workers", "1", "-config", module + ".cfg", module + ".tla"], d, timeout, env={"JAVA_TOOL_OPTIONS": "-Xss512m"})
            dp = os.path.join(d, "drift.ndjson")
            if "Model checking completed. No error has been found." not in p.stdout or not os.path.exists(dp):
                log(p.stdout[-4000:])
                raise Inconclusive("strict validation with %s did not consume the trace" % module)
            m = re.search(r"(\d+) states generated, (\d+) distinct states found", p.stdout)
            out = [json.loads(x) for x in open(dp) if x.strip()]
            for g in out:
                g["l"] = idx[g["l"] - 1] + 1        # back to the line number of the recorded file
            shutil.rmtree(d, ignore_errors=True)
            return out, int(m.group(2)) if m else 0
        import concurrent.futures
        with concurrent.futures.ThreadPoolExecutor(max_workers=8) as ex:
            futs = [(cval, ex.submit(one, cval, lines, "v%s" % "-".join(re.sub(r"\W", "", str(x)) for x in cval))) for cval in vals]
            res = [(cval, f.result()) for cval, f in futs]
        for cval, (got, st) in res:
            self.monitor_states += st
            passes += 1
            for g in got:
                g["const"] = list(cval)
            drift += got
        info = {"module": module, "tier_I_constant": consts, "values": {"/".join(str(x) for x in k): v for k, v in vals.items()},
                "records_checked": int(sum(nrec.values())), "runs": int(sum(vals.values())), "tlc_passes": passes,
                "drifted_runs": len(drift), "drift": drift[:10]}
        if selftest:
            # corrupt one record (selftest returns the changed line or None) in the first run it applies to that the
            # module covers and that did not drift in the regular pass (a drifted run is skipped from the drift on,
            # a corruption behind that point would never be looked at)
            drifted_lines = sorted(g["l"] for g in drift)
            resets = [i for i, line in enumerate(lines) if '"ev":"Reset"' in line or '"ev": "Reset"' in line]
            def run_of(i):
                lo = max([x for x in resets if x <= i], default=0)
                hi = min([x for x in resets if x > i], default=len(lines))
                return lo, hi
            mut = list(lines)
            where = None
            for i, line in enumerate(mut):
                try:
                    ev = json.loads(line)
                except Exception:
                    continue
                ch = selftest(ev)
                if ch is None:
                    continue
                lo, hi = run_of(i)
                if owner[i] is None or any(lo < d <= hi for d in drifted_lines):
                    continue
                mut[i] = json.dumps(ch) + "\n"
                where = i + 1
                break
            if where is None:
                if drift:
                    info["selftest"] = {"skipped": "every run with a record to corrupt drifted in the regular pass"}
                    self.strict.append(info)
                    for g in drift[:5]:
                        log("DRIFT (not a verdict): %s does not explain record %s (%s) of run %s at control point %s" % (module, g.get("l"), g.get("ev"), g.get("run"), g.get("pc")))
                    self.notes.append("%s: %d run(s) drifted from the tier-I model (see coverage.strict_conformance)" % (module, len(drift)))
                    return drift
                raise Inconclusive("strict self-test of %s found no record to corrupt" % module)
            cv = owner[where - 1]
            if cv not in vals:
                raise Inconclusive("strict self-test of %s corrupted a record of a run the module does not cover" % module)
            # only the run that holds the corrupted record is validated again
            lo = max(i for i in range(where) if '"ev":"Reset"' in lines[i] or '"ev": "Reset"' in lines[i])
            hi = next((i for i in range(where, len(lines)) if '"ev":"Reset"' in lines[i] or '"ev": "Reset"' in lines[i]), len(lines))
            saved = list(owner)
            for i in range(len(owner)):
                if not (lo <= i < hi):
                    owner[i] = None
            got, _ = one(cv, mut, "selftest")
            owner[:] = saved
            hit = [g for g in got if g["l"] >= where and g["l"] <= where + 40]
            info["selftest"] = {"corrupted_record": where, "drift_reported_at": [g["l"] for g in hit][:3]}
            if not hit:
                raise Inconclusive("strict self-test: a corrupted record (line %d) was accepted by %s - the binding is vacuous" % (where, module))
        self.strict.append(info)
        for g in drift[:5]:
            log("DRIFT (not a verdict): %s does not explain record %s (%s) of run %s at control point %s" % (module, g.get("l"), g.get("ev"), g.get("run"), g.get("pc")))
        if drift:
            self.notes.append("%s: %d run(s) drifted from the tier-I model (see coverage.strict_conformance)" % (module, len(drift)))
        return drift

    # ------------------------------------------------------------------ verdict
    def load_findings(self):
        known = []
        if os.path.exists(FINDINGS):
            for line in open(FINDINGS):
                line = line.strip()
                if not line or line.startswith("#") or line.startswith("fixed:"):
                    continue
                try:
                    k = json.loads(line)
                except Exception:
                    continue
                if k.get("status") == "known" and self.pid in k.get("properties", [k.get("property")]):
                    known.append(k)
        return known

    def extract_run(self, v):
        """Write the run that contains violation v to /verif/replays and return the path."""
        os.makedirs(os.path.join(VERIF, "replays"), exist_ok=True)
        run = v.get("run", "run")
        safe = re.sub(r"[^A-Za-z0-9_.-]+", "_", run)[:80]
        path = os.path.join(VERIF, "replays", "%s-%s-%s.ndjson" % (self.pid, v["monitor"], safe))
        on = False
        with open(v["trace"]) as f, open(path, "w") as o:
            for line in f:
                if '"ev":"Reset"' in line:
                    try:
                        on = json.loads(line).get("run") == run
                    except Exception:
                        on = False
                if on:
                    o.write(line)
        return path

    def finish(self, level="model_checking", assumptions=(), rule="", extra=None):
        known = self.load_findings()
        new, matched = [], collections.OrderedDict()
        for v in self.violations:
            hit = None
            for k in known:
                if re.fullmatch(k.get("inv_regex", re.escape(k.get("inv", ""))), v["inv"]) and re.search(k.get("run_regex", ".*"), v.get("run", "")) and \
                        re.search(k.get("detail_regex", ".*"), v.get("detail", "")):
                    hit = k
                    break
            if hit:
                matched.setdefault(hit["id"], [hit, 0])
                matched[hit["id"]][1] += 1
            else:
                new.append(v)
        for kid, (k, n) in matched.items():
            log("KNOWN-FINDING: property=%s %s [%s, %d occurrence(s) in this run]" % (self.pid, k["what"], kid, n))
        replays = []
        seen = set()
        for v in new:
            key = (v["inv"], v.get("run"))
            if key in seen:
                continue
            seen.add(key)
            if len(replays) < 10:
                path = v.get("replay_path") or self.extract_run(v)
                replays.append(path)
                log("VIOLATION property=%s replay=%s" % (self.pid, path))
                log("  invariant %s at record %s of run %s: %s" % (v["inv"], v.get("l"), v.get("run"), v.get("detail", "")))
        wall = time.time() - self.t0
        cov = {
            "states": max(1, self.model["states"] + self.monitor_states),
            "transitions": max(1, self.model["transitions"] + self.monitor_states),
            "traces_validated_against_impl": self.traces,
            "samples": self.samples[:6] or ["(no sample)"],
            "model_states_distinct": self.model["states"],
            "model_transitions": self.model["transitions"],
            "monitor_states": self.monitor_states,
            "impl_events_validated": self.events,
            "tlc_runs": self.model["runs"],
            "driver_stats": self.driver_stats,
            "event_census": dict(self.checks_evaluated),
            "evaluations": max(1, self.traces),
            "distinct_nontrivial": max(0, self.traces),
            "rule": rule or "each evaluation is one recorded run of the real code (distinct seed / schedule / crash point), validated record by record by TLC against the monitor specification",
            "known_findings_seen": {k: n for k, (_, n) in matched.items()},
            "violations_new": len(new),
            "notes": self.notes,
            "strict_conformance": self.strict,
        }
        if extra:
            cov.update(extra)
        ev = {
            "property_id": self.pid, "tier": self.tier, "seed": int(self.seed), "level": level,
            "coverage": cov, "assumptions": list(assumptions), "wall_s": round(wall, 1), "violations": len(new),
        }
        os.makedirs(os.path.join(VERIF, "evidence"), exist_ok=True)
        with open(os.path.join(VERIF, "evidence", self.pid + ".json"), "w") as f:
            json.dump(ev, f, indent=1)
        log("%s %s: model %d distinct states / %d transitions; %d real runs, %d events validated (%d monitor states); %d new violation(s); %.1fs" % (
            self.pid, self.tier, self.model["states"], self.model["transitions"], self.traces, self.events,
            self.monitor_states, len(new), wall))
        return 1 if new else 0
