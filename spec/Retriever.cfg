SPECIFICATION LiveSpec
CONSTANTS
  Start = 1
  Last = 4
  MaxFails = 3
  Retries = 2
  Content <- MC_Content
INVARIANTS NoSkip AllGenuineEmitted
PROPERTIES RetrySame CursorStepsByOne AdvanceOnlyAfterOk EventuallyAll
CHECK_DEADLOCK FALSE
