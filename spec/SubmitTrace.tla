---------------------------- MODULE SubmitTrace ----------------------------
(***************************************************************************)
(* Tier M monitor for the sequencer node's DA submission, DA inclusion and *)
(* pending-limit behaviour (C06, C07, C08).  The real submission and       *)
(* inclusion loops run unmodified in virtual time against the scripted DA  *)
(* double; every Submit call the DA layer received is logged with a        *)
(* decoded summary of each blob and what the DA layer really holds         *)
(* afterwards (acc = accepted prefix), independently of what was           *)
(* acknowledged to the node.                                               *)
(***************************************************************************)
EXTENDS TraceLib

VARIABLES l, run, ih, limit, blocks, height, accH, accD, ackH, ackD, durH, durD, lastIncl, lastDurIncl,
          finals, maxFinal, refinalOK, sb, stepOk, lostH, lostD, viol

vars == <<l, run, ih, limit, blocks, height, accH, accD, ackH, ackD, durH, durD, lastIncl, lastDurIncl,
          finals, maxFinal, refinalOK, sb, stepOk, lostH, lostD, viol>>

NoB == [h |-> 0, hash |-> "?", txs |-> <<>>]
HasBlock(h) == \E i \in 1 .. Len(blocks) : blocks[i].h = h
B(h) == IF HasBlock(h) THEN blocks[CHOOSE i \in 1 .. Len(blocks) : blocks[i].h = h] ELSE NoB
Empty(h) == B(h).txs = <<>>
HeldH(h) == \E a \in accH : a.h = h
HeldD(h) == \E a \in accD : a.h = h
\* known finding C07-alias: another block with the identical tx list has its data on the DA layer
AliasHeld(h) == \E x \in ih .. height : x # h /\ B(x).txs = B(h).txs /\ HeldD(x)

\* what the DA layer has acknowledged to this process (acknowledgements received before an unclean stop are
\* forgotten with it, except for what the durable watermark already covers)
KnownH(h) == h <= durH \/ (h \in ackH /\ h \notin lostH)
KnownD(h) == h <= durD \/ (h \in ackD /\ h \notin lostD)
\* committed blocks genuinely still waiting for the DA layer when a production step begins: the header is not
\* acknowledged; or the block has transactions and its data is not acknowledged; or it is empty and the data
\* loop has not yet passed it (memD = the node's own data watermark, i.e. chain height - pending data count)
GenuinelyWaiting(memD) == {h \in ih .. height : ~KnownH(h) \/ (IF Empty(h) THEN h > memD ELSE ~KnownD(h))}

Seq2Set(s) == {s[i] : i \in 1 .. Len(s)}
Kinds(bs) == {bs[i].kind : i \in 1 .. Len(bs)}
Increasing(bs, strict1) == \A i \in 1 .. (Len(bs) - 1) : IF strict1 THEN bs[i + 1].h = bs[i].h + 1 ELSE bs[i + 1].h > bs[i].h

SubmitChecks(e) ==
    LET bs == e.blobs
        kind == IF Len(bs) = 0 THEN "none" ELSE bs[1].kind
        first == IF Len(bs) = 0 THEN 0 ELSE bs[1].h
    IN <<
    <<"C06.BlobKinds", Len(bs) > 0 => (Kinds(bs) = {"hdr"} \/ Kinds(bs) = {"data"}) /\ \A i \in 1 .. Len(bs) : bs[i].sig = "P",
        "a submitted blob does not decode to a header / signed data verifying under the proposer's key">>,
    <<"C06.SubmitOrder", Len(bs) > 0 => Increasing(bs, kind = "hdr"), "blobs of one submission are not in increasing height order">>,
    <<"C06.BlobFidelity", \A i \in 1 .. Len(bs) :
          /\ HasBlock(bs[i].h) /\ bs[i].h <= height
          /\ (bs[i].kind = "hdr" => bs[i].hash = B(bs[i].h).hash)
          /\ (bs[i].kind = "data" => bs[i].txs = B(bs[i].h).txs /\ bs[i].ntx > 0),
        "a submitted blob is not the committed header / data of its height">>,
    <<"C06.NoSkip", Len(bs) > 0 =>
          /\ (kind = "hdr" => \A x \in ih .. (first - 1) : HeldH(x))
          /\ (kind = "data" => \A x \in ih .. (first - 1) : Empty(x) \/ HeldD(x))
          /\ (kind = "data" => \A i \in 1 .. (Len(bs) - 1) : \A x \in (bs[i].h + 1) .. (bs[i + 1].h - 1) : Empty(x)),
        "a height was skipped: an earlier header / non-empty data is not on the DA layer">>,
    <<"C06.NoResubmitConfirmed", Len(bs) > 0 => (kind = "hdr" => first > durH) /\ (kind = "data" => first > durD),
        "a blob at or below the recorded last-submitted height was submitted again">>
    >>

Accepted(e) == {[h |-> e.blobs[i].h, dah |-> e.dah, kind |-> e.blobs[i].kind] : i \in 1 .. e.acc}
Acked(e) == IF e.res \in {"ok"} \/ (Len(e.res) > 6 /\ SubSeq(e.res, 1, 6) = "prefix") THEN Accepted(e) ELSE {}

ObsChecks(o) == <<
    <<"C06.WmMonotone", o.durSubH >= durH /\ o.durSubD >= durD /\ (o.up => o.subH >= o.durSubH /\ o.subD >= o.durSubD),
        "recorded last-submitted height decreased">>,
    <<"C06.WmBound", o.durSubH <= o.height /\ o.durSubD <= o.height /\ o.subH <= o.height /\ o.subD <= o.height,
        "last-submitted height beyond the chain height">>,
    <<"C06.WmSound", /\ \A h \in ih .. MaxOf(o.subH, o.durSubH) : HeldH(h)
                     /\ \A h \in ih .. MaxOf(o.subD, o.durSubD) : Empty(h) \/ HeldD(h),
        "last-submitted height moved past a height whose blob the DA layer does not hold">>,
    <<"C07.InclMonotone", o.durIncl >= lastDurIncl /\ (o.up => o.incl >= lastIncl), "DA-included height decreased">>,
    <<"C07.InclBounds", o.incl <= o.height /\ o.durIncl <= o.height /\ (o.up => o.incl <= MaxOf(o.durIncl, ih - 1)),
        "DA-included height beyond the chain height or reported before it was persisted">>,
    <<"C07.InclSound", \A h \in ih .. MaxOf(o.incl, o.durIncl) : HeldH(h) /\ (Empty(h) \/ HeldD(h) \/ AliasHeld(h)),
        "DA-included height reached a block whose header / data the DA layer does not hold">>,
    <<"C07.InclSound.alias", \A h \in ih .. MaxOf(o.incl, o.durIncl) : (HeldH(h) /\ ~Empty(h) /\ ~HeldD(h)) => ~AliasHeld(h),
        "block reported DA-included although only an identical tx list of ANOTHER block is on the DA layer (marks keyed by data commitment)">>,
    <<"C07.FinalizeBeforeReport", \A h \in ih .. MaxOf(o.incl, o.durIncl) : h \in finals, "a height was reported DA-included before the execution layer was asked to finalize it">>,
    <<"C07.RecordedDAHeights", \A i \in 1 .. Len(o.rhb) : LET r == o.rhb[i] IN r.h <= MaxOf(o.incl, o.durIncl) =>
          /\ \E a \in accH : a.h = r.h /\ a.dah = r.hd
          /\ (Empty(r.h) => r.dd = r.hd)
          /\ (~Empty(r.h) => \E a \in accD : a.dah = r.dd /\ (a.h = r.h \/ B(a.h).txs = B(r.h).txs)),
        "the DA heights recorded for a block are not heights at which its blobs are">>,
    <<"C08.PendingGenuine", o.up => o.pendH <= MaxOf(0, o.height - ih + 1) /\ o.pendD <= MaxOf(0, o.height - ih + 1),
        "more blocks counted as awaiting DA submission than blocks exist">>
    >>

Init ==
    /\ l = 1 /\ run = "" /\ ih = 1 /\ limit = 0 /\ blocks = <<>> /\ height = 0 /\ accH = {} /\ accD = {} /\ ackH = {} /\ ackD = {}
    /\ durH = 0 /\ durD = 0 /\ lastIncl = 0 /\ lastDurIncl = 0 /\ finals = {} /\ maxFinal = 0 /\ refinalOK = FALSE
    /\ sb = [pendH |-> 0, pendD |-> 0, on |-> FALSE, gw |-> 0] /\ stepOk = FALSE /\ lostH = {} /\ lostD = {} /\ viol = <<>>

e == Trace[l]
Is(name) == l <= N /\ e.ev = name
Adv == l' = l + 1
Same == <<run, ih, limit, blocks, height, accH, accD, ackH, ackD, durH, durD, lastIncl, lastDurIncl, finals, maxFinal, refinalOK, sb, stepOk, lostH, lostD>>

TReset ==
    /\ Is("Reset") /\ Adv
    /\ run' = e.run /\ ih' = e.ih /\ limit' = (IF "limit" \in DOMAIN e THEN e.limit ELSE 0)
    /\ blocks' = <<>> /\ height' = 0 /\ accH' = {} /\ accD' = {} /\ ackH' = {} /\ ackD' = {}
    /\ durH' = 0 /\ durD' = 0 /\ lastIncl' = 0 /\ lastDurIncl' = 0 /\ finals' = {} /\ maxFinal' = e.ih - 1 /\ refinalOK' = FALSE
    /\ sb' = [pendH |-> 0, pendD |-> 0, on |-> FALSE, gw |-> 0] /\ stepOk' = FALSE /\ lostH' = {} /\ lostD' = {}
    /\ UNCHANGED viol

TObs ==
    /\ Is("Obs") /\ e.node = "seq" /\ Adv
    /\ blocks' = e.blocks /\ height' = e.height
    /\ viol' = viol \o Failed(ObsChecks(e), l, run)
    /\ durH' = MaxOf(durH, e.durSubH) /\ durD' = MaxOf(durD, e.durSubD)
    /\ lastIncl' = IF e.up THEN e.incl ELSE lastIncl
    /\ lastDurIncl' = MaxOf(lastDurIncl, e.durIncl)
    /\ UNCHANGED <<run, ih, limit, accH, accD, ackH, ackD, finals, maxFinal, refinalOK, sb, stepOk, lostH, lostD>>

TSubmit ==
    /\ Is("DASubmit") /\ Adv
    /\ viol' = viol \o Failed(SubmitChecks(e), l, run)
    /\ accH' = accH \cup {a \in Accepted(e) : a.kind = "hdr"}
    /\ accD' = accD \cup {a \in Accepted(e) : a.kind = "data"}
    /\ ackH' = ackH \cup {a.h : a \in {x \in Acked(e) : x.kind = "hdr"}}
    /\ ackD' = ackD \cup {a.h : a \in {x \in Acked(e) : x.kind = "data"}}
    /\ UNCHANGED <<run, ih, limit, blocks, height, durH, durD, lastIncl, lastDurIncl, finals, maxFinal, refinalOK, sb, stepOk, lostH, lostD>>

TFinal ==
    /\ Is("ExecFinal") /\ e.node = "seq" /\ Adv
    /\ viol' = viol \o Failed(<<
          <<"C07.FinalizeInOrder", e.ok => e.h >= ih /\ (e.h = maxFinal + 1 \/ (e.h = maxFinal /\ refinalOK)),
              "execution layer asked to finalize a height out of order">>,
          <<"C07.FinalizeThenReport", e.incl < e.h, "the DA-included height was already reported when the execution layer was asked to finalize it">>,
          <<"C07.FinalizeSound", e.ok => HeldH(e.h) /\ (Empty(e.h) \/ HeldD(e.h) \/ AliasHeld(e.h)) /\ e.h <= height,
              "execution layer asked to finalize a block whose header / data the DA layer does not hold">>
          >>, l, run)
    /\ finals' = IF e.ok THEN finals \cup {e.h} ELSE finals
    /\ maxFinal' = IF e.ok THEN MaxOf(maxFinal, e.h) ELSE maxFinal
    /\ refinalOK' = IF e.ok THEN FALSE ELSE TRUE
    /\ UNCHANGED <<run, ih, limit, blocks, height, accH, accD, ackH, ackD, durH, durD, lastIncl, lastDurIncl, sb, stepOk, lostH, lostD>>

\* restart, crash, node error: the same height may legitimately be finalized again
TDisturb ==
    /\ (Is("Restart") \/ Is("Crash") \/ Is("NodeErr") \/ Is("Stop")) /\ e.node = "seq" /\ Adv
    /\ refinalOK' = TRUE
    /\ viol' = viol \o Failed(<< <<"C06.RestartFailed", e.ev = "Restart" => e.ok, "node cannot start on an image it wrote itself">> >>, l, run)
    /\ LET unclean == e.ev = "Crash" \/ (e.ev = "Stop" /\ ~e.clean) IN
          /\ lostH' = IF unclean THEN lostH \cup ackH ELSE lostH
          /\ lostD' = IF unclean THEN lostD \cup ackD ELSE lostD
    /\ UNCHANGED <<run, ih, limit, blocks, height, accH, accD, ackH, ackD, durH, durD, lastIncl, lastDurIncl, finals, maxFinal, sb, stepOk>>

\* the DA-included height is persisted before it is reported
TKV ==
    /\ Is("KV") /\ e.node = "seq" /\ Adv
    /\ viol' = viol \o Failed(<<
          <<"C07.PersistThenReport", (e.kind = "meta" /\ e.key = "d" /\ e.incl >= 0) => e.incl < e.h /\ e.h \in finals,
              "the DA-included height was reported before it was persisted, or persisted before the execution layer finalized it">>
          >>, l, run)
    /\ UNCHANGED Same

TStepBegin ==
    /\ Is("StepBegin") /\ Adv
    /\ sb' = [pendH |-> e.pendH, pendD |-> e.pendD, on |-> TRUE, gw |-> Cardinality(GenuinelyWaiting(e.height - e.pendD))] /\ stepOk' = FALSE
    /\ UNCHANGED <<run, ih, limit, blocks, height, accH, accD, ackH, ackD, durH, durD, lastIncl, lastDurIncl, finals, maxFinal, refinalOK, lostH, lostD, viol>>

TStepRet ==
    /\ Is("StepRet") /\ Adv /\ stepOk' = e.ok
    /\ UNCHANGED <<run, ih, limit, blocks, height, accH, accD, ackH, ackD, durH, durD, lastIncl, lastDurIncl, finals, maxFinal, refinalOK, sb, lostH, lostD, viol>>

\* known finding C07-volatile-marks: the inclusion stalls exactly below a block whose header (or data)
\* acceptance had been acknowledged before an unclean stop
VolatileStall == LET s == lastIncl + 1 IN s <= height /\ (s \in lostH \/ (~Empty(s) /\ s \in lostD))

ExpectRefusal == limit > 0 /\ (sb.pendH >= limit \/ sb.pendD >= limit)
TStepEnd ==
    /\ Is("StepEnd") /\ Adv
    /\ viol' = viol \o Failed(<<
          <<"C08.Throttles", (sb.on /\ ExpectRefusal) => e.h1 = e.h0, "a block was produced although the pending limit was reached">>,
          <<"C08.RefusesOnlyAtLimit", (sb.on /\ stepOk /\ ~ExpectRefusal) => e.h1 = e.h0 + 1, "production declined although the pending limit was not reached">>,
          <<"C08.RefusesOnlyWhileGenuinelyPending", (sb.on /\ stepOk /\ limit > 0 /\ e.h1 = e.h0) => sb.gw >= limit,
              "production declined although fewer committed blocks than the limit are still waiting to be acknowledged by the DA layer">>
          >>, l, run)
    /\ sb' = [sb EXCEPT !.on = FALSE]
    /\ UNCHANGED <<run, ih, limit, blocks, height, accH, accD, ackH, ackD, durH, durD, lastIncl, lastDurIncl, finals, maxFinal, refinalOK, stepOk, lostH, lostD>>

TQuiesce ==
    /\ Is("Quiesce") /\ Adv
    /\ viol' = viol \o Failed(<<
          <<"C06.AllSubmitted", e.up /\ (\A h \in ih .. height : HeldH(h) /\ (Empty(h) \/ HeldD(h))) /\ durH = height,
              "with an accepting DA layer not every committed header / non-empty data reached it (or the watermark is behind)">>,
          <<"C07.EventuallyIncluded", (e.up /\ lastIncl = height) \/ VolatileStall, "both parts of every block are on the DA layer but the DA-included height did not reach the chain height">>,
          <<"C07.EventuallyIncluded.volatile", ~(e.up /\ lastIncl < height /\ VolatileStall), "DA-included height stuck below a block whose acceptance was acknowledged before an unclean stop: the DA-included marks live only in memory and the sequencer never re-learns them">>,
          <<"C08.Progress", e.up /\ e.h1 >= e.h0 + e.want, "block production stopped although the DA layer accepts submissions">>
          >>, l, run)
    /\ UNCHANGED Same

\* end of a run with a block whose data the DA client can never send: what lies in front of it must have gone through
TOversizeEnd ==
    /\ Is("OversizeEnd") /\ Adv
    /\ viol' = viol \o Failed(<<
          <<"C06.AllSubmitted", e.up /\ (\A h \in ih .. (e.huge - 1) : HeldH(h) /\ (Empty(h) \/ HeldD(h))) /\ (\A h \in ih .. height : HeldH(h)),
              "blocks in front of one that is too big for the DA client did not reach the DA layer">>,
          <<"C07.EventuallyIncluded", e.up /\ lastIncl = e.huge - 1, "the DA-included height is not exactly the height below the block whose data cannot be submitted">>
          >>, l, run)
    /\ UNCHANGED Same

TPanic ==
    /\ Is("Panic") /\ Adv
    /\ viol' = viol \o Failed(<< <<"C06.Panic", FALSE, "panic in node code">>, <<"C07.Panic", FALSE, "panic in node code">> >>, l, run)
    /\ UNCHANGED Same

Handled == {"Reset", "DASubmit", "StepBegin", "StepRet", "StepEnd", "Quiesce", "OversizeEnd", "Panic"}
TOther ==
    /\ l <= N /\ Adv
    /\ e.ev \notin Handled
    /\ ~(e.ev \in {"Obs", "ExecFinal", "Restart", "Crash", "NodeErr", "Stop", "KV"} /\ e.node = "seq")
    /\ UNCHANGED Same /\ UNCHANGED viol

Next == TKV \/ TReset \/ TObs \/ TSubmit \/ TFinal \/ TDisturb \/ TStepBegin \/ TStepRet \/ TStepEnd \/ TQuiesce \/ TOversizeEnd \/ TPanic \/ TOther
Spec == Init /\ [][Next]_vars
Finish == (l = N + 1) => ndJsonSerialize("viol.ndjson", viol)
Consumed == TLCGet("stats").diameter = N + 1
=============================================================================
