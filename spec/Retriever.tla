---------------------------- MODULE Retriever ----------------------------
(***************************************************************************)
(* Tier I model of the DA scan of a syncing node: block/retriever.go       *)
(* (RetrieveLoop, processNextDAHeaderAndData with its bounded retries and  *)
(* the future-height short cut, blob classification) and the listing +     *)
(* chunked fetch of types/da.go RetrieveWithHelpers.                       *)
(* The environment chooses, per fetch attempt on a DA height, one of the   *)
(* outcomes the DA interface allows: the height does not exist yet, the    *)
(* listing fails, an id chunk fails, or the blobs come back.  A height     *)
(* holds a bag of blob classes (genuine header/data of a block, junk).     *)
(***************************************************************************)
EXTENDS Integers, Sequences, FiniteSets, TLC

CONSTANTS Start, Last, MaxFails, Retries, Content,  \* Content[h] = set of blob classes at DA height h ({} = nothing)
          AdvanceOnGiveUp,   \* deviation: when the retries of a height are used up the cursor moves on all the same
          FutureAsEmpty      \* deviation: "height from the future" is taken for "nothing at this height"

VARIABLES cursor, attempt, fails, emitted, examined, waiting, last,
          avail     \* the DA layer's own height: heights above it do not exist yet

vars == <<cursor, attempt, fails, emitted, examined, waiting, last, avail>>

Heights == Start .. Last
Genuine(b) == b.kind \in {"hdr", "data"}

Init ==
    /\ cursor = Start /\ attempt = 0 /\ fails = [h \in Heights |-> 0]
    /\ emitted = {} /\ examined = {} /\ waiting = TRUE /\ last = <<0, "none">>
    /\ avail \in Start - 1 .. Last

\* a signal (DA ticker, or "blobs found" self-signal) starts processing the cursor height
Signal == /\ waiting /\ cursor <= Last + 1 /\ waiting' = FALSE /\ attempt' = 0
          /\ UNCHANGED <<cursor, fails, emitted, examined, last, avail>>

\* the height is not produced yet: return at once, keep the cursor, wait for the next signal.
\* The DA layer grows: a height above `avail` answers "from the future" until Grow has passed it.
FetchFuture ==
    /\ ~waiting /\ cursor > avail /\ cursor <= Last + 1
    /\ waiting' = TRUE /\ last' = <<cursor, "future">>
    /\ cursor' = IF FutureAsEmpty /\ cursor <= Last THEN cursor + 1 ELSE cursor
    /\ UNCHANGED <<attempt, fails, emitted, examined, avail>>

Grow == /\ avail < Last /\ avail' = avail + 1
        /\ UNCHANGED <<cursor, attempt, fails, emitted, examined, waiting, last>>

\* a transient failure (listing or an id chunk): retry the same height, give up after Retries attempts
FetchFail ==
    /\ ~waiting /\ cursor <= avail /\ fails[cursor] < MaxFails
    /\ fails' = [fails EXCEPT ![cursor] = @ + 1]
    /\ last' = <<cursor, "fail">>
    /\ IF attempt + 1 >= Retries THEN waiting' = TRUE /\ attempt' = 0 ELSE waiting' = FALSE /\ attempt' = attempt + 1
    /\ cursor' = IF AdvanceOnGiveUp /\ attempt + 1 >= Retries THEN cursor + 1 ELSE cursor
    /\ UNCHANGED <<emitted, examined, avail>>

\* success: nothing at this height, or every blob is classified (junk is skipped) and the cursor moves on
FetchOk ==
    /\ ~waiting /\ cursor <= avail
    /\ emitted' = emitted \cup {b \in Content[cursor] : Genuine(b)}
    /\ examined' = examined \cup {cursor}
    /\ cursor' = cursor + 1
    /\ last' = <<cursor, "ok">>
    /\ attempt' = 0 /\ waiting' = FALSE        \* blobsFoundCh: go straight on to the next height
    /\ UNCHANGED <<fails, avail>>

Next == Signal \/ FetchFuture \/ FetchFail \/ FetchOk \/ Grow
Spec == Init /\ [][Next]_vars
LiveSpec == Spec /\ WF_vars(Signal) /\ WF_vars(FetchOk) /\ WF_vars(FetchFuture) /\ WF_vars(Grow)

\* C09
CursorStepsByOne == [][cursor' \in {cursor, cursor + 1}]_vars
AdvanceOnlyAfterOk == [][cursor' = cursor + 1 => (cursor \in examined')]_vars
NoSkip == \A h \in Heights : h < cursor => h \in examined
AllGenuineEmitted == \A h \in examined : \A b \in Content[h] : Genuine(b) => b \in emitted
RetrySame == [][(last[2] \in {"fail", "future"} /\ last' # last) => last'[1] = last[1]]_vars
NeverAheadOfDA == cursor <= avail + 1
EventuallyAll == <>(cursor = Last + 1)
==========================================================================
