SPECIFICATION Spec
INVARIANT Finish
POSTCONDITION Consumed
CHECK_DEADLOCK FALSE
