SPECIFICATION SSpec
CONSTANTS
  Contents = {}
  Bound = 1000000
  MaxOps = 100000000
  MaxCrashes = 100000000
  KeyBySeq = TRUE
INVARIANT Finish
POSTCONDITION Consumed
CHECK_DEADLOCK FALSE
