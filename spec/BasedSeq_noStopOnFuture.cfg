SPECIFICATION Spec
CONSTANTS
  DAContent <- MC_DA
  Limits = {3, 4, 6}
  MaxCalls = 5
  Drift = 3
  AdvanceOnPushBack = TRUE
  StopOnFuture = FALSE
  CarryBlocksScan = TRUE
INVARIANTS DAOrderExactlyOnce SizeBound
CHECK_DEADLOCK FALSE
