package drivers

import (
	"context"
	"fmt"
	mrand "math/rand"
	"sync"
	"testing/synctest"
	"time"

	logging "github.com/ipfs/go-log/v2"

	"github.com/evstack/ev-node/block"
	"github.com/evstack/ev-node/sequencers/single"
	"github.com/evstack/ev-node/types"

	"verif/harness/world"
)

// gossip forwards what the sequencer hands to its broadcasters into a full node's P2P stores.
type gossipH struct {
	inner *world.Bcast[*types.SignedHeader]
	to    func(*types.SignedHeader)
}

func (g gossipH) WriteToStoreAndBroadcast(ctx context.Context, h *types.SignedHeader) error {
	if err := g.inner.WriteToStoreAndBroadcast(ctx, h); err != nil {
		return err
	}
	g.to(h)
	return nil
}

type loopSet struct {
	c      *Ctx
	node   string
	mu     sync.Mutex
	ret    map[string]bool
	names  []string
	wg     sync.WaitGroup
	ctx    context.Context
	cancel context.CancelFunc
}

func newLoopSet(c *Ctx, node string) *loopSet {
	ctx, cancel := context.WithCancel(context.Background())
	return &loopSet{c: c, node: node, ret: map[string]bool{}, ctx: ctx, cancel: cancel}
}

func (ls *loopSet) run(name string, f func(ctx context.Context)) {
	ls.names = append(ls.names, name)
	ls.wg.Add(1)
	go func() {
		defer ls.wg.Done()
		defer func() {
			if r := recover(); r != nil {
				ls.c.Tr.Emit("Panic", world.F{"node": ls.node, "where": name, "msg": fmt.Sprint(r)})
			}
			ls.mu.Lock()
			ls.ret[name] = true
			ls.mu.Unlock()
			ls.c.Tr.Emit("LoopRet", world.F{"node": ls.node, "name": name})
		}()
		f(ls.ctx)
	}()
}

func (ls *loopSet) stuck() []string {
	ls.mu.Lock()
	defer ls.mu.Unlock()
	var out []string
	for _, n := range ls.names {
		if !ls.ret[n] {
			out = append(out, n)
		}
	}
	return out
}

// worldScenario: an aggregator with ALL its real background loops (production, reaper, header and
// data submission, DA inclusion) and a full node with all of its (DA scan, P2P store polling, sync,
// DA inclusion) run concurrently in virtual time against one DA layer; then the nodes are asked to
// stop at a chosen instant and every loop must return promptly.
func worldScenario(c *Ctx, run string, rng *mrand.Rand, genesisOffset time.Duration, lazy bool, stopAfter time.Duration, slowDA bool, withFull bool) {
	defer func() {
		if r := recover(); r != nil { // a goroutine that can never return keeps the bubble alive
			c.Tr.Emit("LoopStuck", world.F{"node": "world", "name": fmt.Sprint(r)})
		}
	}()
	synctest.Run(func() {
		c.Tr.Reset(run, world.F{"driver": "world", "ih": 1, "limit": 0})
		w := world.NewWorld(c.Tr, 1, time.Now().Add(genesisOffset))
		defer w.Close()
		daBT := 300 * time.Millisecond
		ttl := uint64(2)
		congested := false
		if slowDA {
			ttl = 20 // a rejected submission backs off for DABlockTime x MempoolTTL = 6s: longer than "promptly"
			worldScriptN++
			if worldScriptN%2 == 0 {
				// a congested DA layer instead: each submission loop is rejected several times in a row (short back-off, its
				// gas price climbs) before it is accepted, while the other loops run
				congested = true
				ttl = 1
				if stopAfter < 4*time.Second {
					stopAfter = 4 * time.Second
				}
			}
		}
		seq := w.NewNode(world.NodeOpts{Name: "seq", Aggregator: true, Lazy: lazy, BlockTime: 100 * time.Millisecond, LazyInterval: 400 * time.Millisecond, DABlockTime: daBT, MempoolTTL: ttl})
		seq.KV.Quiet = false
		full := w.NewNode(world.NodeOpts{Name: "full", Aggregator: false, DAStart: 1, DABlockTime: daBT, BlockTime: 100 * time.Millisecond})
		if rng.Intn(2) == 0 { // durable writes as scheduling points on both nodes
			if seq.KV != nil {
				seq.KV.Yield = 4
			}
			if full.KV != nil {
				full.KV.Yield = 4
			}
		}
		full.KV.Quiet = true
		full.Exec.ShareRoots(seq.Exec)
		inner, err := single.NewSequencer(context.Background(), logging.Logger("verif-seq"), seq.KV, w.DA, []byte(world.ChainID), time.Second, nil, true)
		if err != nil {
			panic(err)
		}
		seq.SeqD.Inner = inner
		if slowDA {
			w.DA.SubmitScript = []string{"timeout", "err", "prefix:1", "mempool", "acklost:1", "toobig", "err"}
			if congested {
				w.DA.SubmitScript = []string{"timeout", "timeout", "mempool", "mempool", "timeout", "timeout", "ok", "ok", "mempool", "timeout", "mempool", "timeout", "ok", "ok"}
			}
		}
		if err := seq.Start(context.Background()); err != nil {
			return
		}
		if withFull {
			if err := full.Start(context.Background()); err != nil {
				return
			}
		}
		seq.DB.After = func() { seq.Obs("world") } // one observation per produced block
		reaper := block.NewReaper(context.Background(), seq.Exec, seq.Seq, world.ChainID, 100*time.Millisecond, logging.Logger("verif-reaper"), seq.KV)
		reaper.SetManager(seq.M)
		t0 := time.Now()
		sl := newLoopSet(c, "seq")
		errCh := make(chan error, 1)
		sm := seq.M
		sl.run("AggregationLoop", func(ctx context.Context) { sm.AggregationLoop(ctx, errCh) })
		sl.run("Reaper", func(ctx context.Context) { reaper.Start(ctx) })
		sl.run("HeaderSubmissionLoop", func(ctx context.Context) { sm.HeaderSubmissionLoop(ctx) })
		sl.run("DataSubmissionLoop", func(ctx context.Context) { sm.DataSubmissionLoop(ctx) })
		sl.run("DAIncluderLoop", func(ctx context.Context) { sm.DAIncluderLoop(ctx, errCh) })
		var fl *loopSet
		if withFull {
			fl = newLoopSet(c, "full")
			ferr := make(chan error, 1)
			fm := full.M
			fl.run("RetrieveLoop", func(ctx context.Context) { fm.RetrieveLoop(ctx) })
			fl.run("HeaderStoreRetrieveLoop", func(ctx context.Context) { fm.HeaderStoreRetrieveLoop(ctx) })
			fl.run("DataStoreRetrieveLoop", func(ctx context.Context) { fm.DataStoreRetrieveLoop(ctx) })
			fl.run("SyncLoop", func(ctx context.Context) { fm.SyncLoop(ctx, ferr) })
			fl.run("DAIncluderLoop", func(ctx context.Context) { fm.DAIncluderLoop(ctx, ferr) })
			go func() {
				select {
				case e := <-ferr:
					c.Tr.Emit("NodeErr", world.F{"node": "full", "err": trunc(e.Error())})
				case <-fl.ctx.Done():
				}
			}()
		}
		go func() {
			select {
			case e := <-errCh:
				c.Tr.Emit("NodeErr", world.F{"node": "seq", "err": trunc(e.Error())})
			case <-sl.ctx.Done():
			}
		}()
		// traffic: transactions arrive at random instants; the DA height advances with time
		ntx := 0
		for time.Since(t0) < stopAfter {
			time.Sleep(time.Duration(20+rng.Intn(120)) * time.Millisecond)
			if rng.Intn(2) == 0 {
				for k := rng.Intn(3); k >= 0; k-- {
					ntx++
					tx := []byte(fmt.Sprintf("world-tx-%d", ntx))
					seq.Exec.Inject(tx)
				}
			}
			if rng.Intn(4) == 0 {
				synctest.Wait()
				seq.Obs("world")
				if withFull {
					full.Obs("world")
				}
			}
		}
		// stop: at this instant, whatever the loops are doing
		c.Tr.Emit("Cancel", world.F{"node": "world", "t": int(time.Since(t0) / time.Millisecond)})
		sl.cancel()
		if fl != nil {
			fl.cancel()
		}
		time.Sleep(3 * time.Second) // "promptly": three virtual seconds
		synctest.Wait()
		for _, ls := range []*loopSet{sl, fl} {
			if ls == nil {
				continue
			}
			for _, name := range ls.stuck() {
				c.Tr.Emit("LoopStuck", world.F{"node": ls.node, "name": name})
			}
		}
		seq.Obs("world")
		if withFull {
			full.Obs("world")
		}
		c.Tr.Emit("WorldEnd", world.F{"node": "world", "t": int(time.Since(t0) / time.Millisecond)})
		// let sleepers run out so that the bubble can end
		time.Sleep(3 * time.Hour)
		sl.wg.Wait()
		if fl != nil {
			fl.wg.Wait()
		}
	})
}

// fullChannelStop: the full node's sync is busy (parked in the execution layer), the event backlog
// to sync is full, the polling / scanning loops have something to hand over - and the node is
// asked to stop. Every loop must still return.
func fullChannelStop(c *Ctx, run string, viaP2P bool) {
	defer func() {
		if r := recover(); r != nil {
			c.Tr.Emit("LoopStuck", world.F{"node": "world", "name": trunc(fmt.Sprint(r))})
		}
	}()
	synctest.Run(func() {
		s := newSyncRun(c, run, 1, SyncShapes["ShapeA"], world.F{"src": "fullchannel", "shape": "ShapeA"})
		defer s.w.Close()
		if err := s.full.Start(context.Background()); err != nil {
			return
		}
		fm := s.full.M
		fl := newLoopSet(c, "full")
		ferr := make(chan error, 1)
		fl.run("RetrieveLoop", func(ctx context.Context) { fm.RetrieveLoop(ctx) })
		fl.run("HeaderStoreRetrieveLoop", func(ctx context.Context) { fm.HeaderStoreRetrieveLoop(ctx) })
		fl.run("DataStoreRetrieveLoop", func(ctx context.Context) { fm.DataStoreRetrieveLoop(ctx) })
		fl.run("SyncLoop", func(ctx context.Context) { fm.SyncLoop(ctx, ferr) })
		fl.run("DAIncluderLoop", func(ctx context.Context) { fm.DAIncluderLoop(ctx, ferr) })
		synctest.Wait()
		// park sync inside the execution of block 1
		gate := make(chan struct{})
		s.full.Exec.Gate = gate
		fm.VerifHeaderInCh() <- block.NewHeaderEvent{Header: s.headerOf(s.ih), DAHeight: 1}
		synctest.Wait()
		// fill both backlogs to capacity
		hdr, dat := s.headerOf(s.ih+1), s.dataOf(s.ih+1)
	fill:
		for {
			select {
			case fm.VerifHeaderInCh() <- block.NewHeaderEvent{Header: hdr, DAHeight: 1}:
			default:
				break fill
			}
		}
	fill2:
		for {
			select {
			case fm.VerifDataInCh() <- block.NewDataEvent{Data: dat, DAHeight: 1}:
			default:
				break fill2
			}
		}
		// something to hand over
		if viaP2P {
			for h := s.ih; h <= s.top; h++ {
				s.full.HStore.AppendItem(s.headerOf(h))
				s.full.DStore.AppendItem(s.dataOf(h))
			}
			fm.VerifHeaderStoreCh() <- struct{}{}
			fm.VerifDataStoreCh() <- struct{}{}
		} else {
			s.w.DA.Place(1, HeaderBlob(s.headerOf(s.top)))
			s.w.DA.Place(1, s.dataBlob(s.dataOf(s.top)))
			s.w.DA.SetCurrent(1)
			fm.VerifRetrieveCh() <- struct{}{}
		}
		synctest.Wait()
		c.Tr.Emit("Cancel", world.F{"node": "world", "t": 0})
		fl.cancel()
		s.full.Exec.Gate = nil
		close(gate)
		time.Sleep(3 * time.Second)
		synctest.Wait()
		for _, name := range fl.stuck() {
			c.Tr.Emit("LoopStuck", world.F{"node": "full", "name": name})
		}
		c.Tr.Emit("WorldEnd", world.F{"node": "world", "t": 3000})
		// unblock whoever is stuck so that the bubble can end
		go func() {
			for {
				select {
				case <-fm.VerifHeaderInCh():
				case <-fm.VerifDataInCh():
				case <-time.After(time.Hour):
					return
				}
			}
		}()
		fl.wg.Wait()
	})
}

// RunWorld: stop instants across the start-up delay, ticks and in-flight work; genesis in the past
// and in the future; lazy and normal mode; fast and failing DA; with and without a full node.
var worldScriptN int

func RunWorld(c *Ctx) {
	rng := mrand.New(mrand.NewSource(c.Seed + 1234))
	n := 10
	if c.Thorough() {
		n = 60
	}
	for r := 0; r < n; r++ {
		off := -time.Hour
		if r%5 == 4 {
			off = time.Hour // genesis in the future: the production loop waits
		}
		stop := time.Duration(200+rng.Intn(4000)) * time.Millisecond
		worldScenario(c, fmt.Sprintf("world/%d", r), rng, off, r%3 == 1, stop, r%2 == 1, r%4 != 3)
		c.Count("worldruns", 1)
	}
	fullChannelStop(c, "fullchannel/p2p", true)
	fullChannelStop(c, "fullchannel/da", false)
	c.Count("worldruns", 2)
}
