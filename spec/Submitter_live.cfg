SPECIFICATION LiveSpec
CONSTANTS
  IH = 1
  MaxH = 3
  L = 2
  MaxReplies = 5
  MaxCrashes = 0
  TxKinds = {"a"}
  SkipEmpty = TRUE
  BaseAtIH = TRUE
  Alias = FALSE
  MarksDurable = TRUE
  SeedDataFromHeader = FALSE
  Rec = FALSE
PROPERTIES EventuallyDone EventuallyIncluded
CHECK_DEADLOCK FALSE
