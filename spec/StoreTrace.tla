---------------------------- MODULE StoreTrace ----------------------------
(***************************************************************************)
(* Tier M monitor for the block store (C14): every call on the real        *)
(* DefaultStore (on the crash-injecting datastore, and on real badger with *)
(* close / reopen) is replayed into the reference model BlockStore.tla and *)
(* its logged result must equal the model's.  A call that crashed inside   *)
(* its (single, atomic) durable write has no effect.                       *)
(***************************************************************************)
EXTENDS BlockStore, TraceLib

VARIABLES l, run, sigs, stH, viol
tvars == <<blocks, index, height, state, meta, ops, pend, l, run, sigs, stH, viol>>

e == Trace[l]
Is(name) == l <= N /\ e.ev = name
Adv == l' = l + 1

TInit == SInit /\ ops = 0 /\ pend = <<>> /\ l = 1 /\ run = "" /\ sigs = <<>> /\ stH = 0 /\ viol = <<>>

TReset == /\ Is("Reset") /\ Adv /\ run' = e.run
          /\ blocks' = <<>> /\ index' = {} /\ height' = 0 /\ state' = NoVal /\ meta' = <<>> /\ sigs' = <<>> /\ stH' = 0
          /\ UNCHANGED <<ops, pend, viol>>

Exp(found, v) == <<found, v>>
\* expected result of a read, as <<ok, rh, rv, rx>>
Expected ==
    CASE e.op = "getblock" \/ e.op = "getheader" -> IF Has(e.h) THEN <<TRUE, e.h, blocks[e.h], "">> ELSE <<FALSE, 0, "", "">>
      [] e.op = "getbyhash" -> IF ByHash(e.h, e.v)[1] THEN <<TRUE, e.h, ByHash(e.h, e.v)[2], "">> ELSE <<FALSE, 0, "", "">>
      [] e.op = "getsig" -> IF e.h \in DOMAIN sigs THEN <<TRUE, 0, "", sigs[e.h]>> ELSE <<FALSE, 0, "", "">>
      [] e.op = "getsigbyhash" -> IF ByHash(e.h, e.v)[1] /\ e.h \in DOMAIN sigs THEN <<TRUE, 0, "", sigs[e.h]>> ELSE <<FALSE, 0, "", "">>
      [] e.op = "height" -> <<TRUE, height, "", "">>
      [] e.op = "getstate" -> IF state = NoVal THEN <<FALSE, 0, "", "">> ELSE <<TRUE, stH, "", state>>
      [] e.op = "getmeta" -> IF GetMeta(e.k)[1] THEN <<TRUE, 0, "", GetMeta(e.k)[2]>> ELSE <<FALSE, 0, "", "">>
      [] OTHER -> <<e.ok, e.rh, e.rv, e.rx>>

IsRead == e.op \in {"getblock", "getheader", "getbyhash", "getsig", "getsigbyhash", "height", "getstate", "getmeta"}
\* the exact-lookup-by-hash reading of the property (a stale index entry is a finding, see BlockStore.tla)
StaleHit == e.op \in {"getbyhash", "getsigbyhash"} /\ e.ok /\ <<e.h, e.v>> \in index /\ Has(e.h) /\ blocks[e.h] # e.v

TCall ==
    /\ Is("Call") /\ Adv
    /\ viol' = viol \o Failed(<<
          <<"C14.ReadYourWrites", IsRead => <<e.ok, e.rh, e.rv, e.rx>> = Expected, "a read did not return what the latest write for that height / hash / key stored">>,
          <<"C14.WritesSucceed", (~IsRead /\ ~e.crashed /\ ~("wf" \in DOMAIN e /\ e.wf)) => e.ok, "a write failed (without an injected write fault)">>,
          <<"C14.HashLookupExact", ~StaleHit, "lookup by the hash of an overwritten block returned the block that replaced it (stale hash index entry)">>
          >>, l, run)
    /\ IF IsRead \/ e.crashed \/ ~e.ok
          THEN UNCHANGED <<blocks, index, height, state, meta, sigs, stH>>
          ELSE CASE e.op = "save" -> SaveEff(e.h, e.v) /\ sigs' = (e.h :> ("sig-" \o ToString(e.h) \o "/" \o e.v)) @@ sigs /\ UNCHANGED stH
                 [] e.op = "setheight" -> SetHeightEff(e.h) /\ UNCHANGED <<sigs, stH>>
                 [] e.op = "setstate" -> UpdateStateEff(e.val) /\ stH' = e.h /\ UNCHANGED sigs
                 [] e.op = "setmeta" -> SetMetaEff(e.k, e.val) /\ UNCHANGED <<sigs, stH>>
                 [] OTHER -> UNCHANGED <<blocks, index, height, state, meta, sigs, stH>>
    /\ UNCHANGED <<ops, pend, run>>

TReopen == /\ Is("Reopen") /\ Adv
           /\ viol' = viol \o Failed(<< <<"C14.Reopen", e.ok, "the database could not be reopened">> >>, l, run)
           /\ UNCHANGED <<blocks, index, height, state, meta, ops, pend, run, sigs, stH>>
TPanic == /\ Is("Panic") /\ Adv /\ viol' = viol \o Failed(<< <<"C14.Panic", FALSE, "panic in store code">> >>, l, run)
          /\ UNCHANGED <<blocks, index, height, state, meta, ops, pend, run, sigs, stH>>
TOther == /\ l <= N /\ Adv /\ e.ev \notin {"Reset", "Call", "Reopen", "Panic"}
          /\ UNCHANGED <<blocks, index, height, state, meta, ops, pend, run, sigs, stH, viol>>

TNext == TReset \/ TCall \/ TReopen \/ TPanic \/ TOther
TSpec == TInit /\ [][TNext]_tvars
Finish == (l = N + 1) => ndJsonSerialize("viol.ndjson", viol)
Consumed == TLCGet("stats").diameter = N + 1
=============================================================================
