SPECIFICATION Spec
CONSTANTS
  IH = 3
  MaxH = 7
  L = 2
  MaxReplies = 8
  MaxCrashes = 2
  TxKinds = {"a", "b"}
  SkipEmpty = TRUE
  BaseAtIH = TRUE
  Alias = FALSE
  MarksDurable = TRUE
  SeedDataFromHeader = FALSE
  Rec = TRUE
INVARIANTS WmSound InclBounds Dump
CHECK_DEADLOCK FALSE
