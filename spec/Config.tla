---------------------------- MODULE Config ----------------------------
(***************************************************************************)
(* Tier I reference for configuration loading (pkg/config): an option has  *)
(* a default, may be set in the configuration file and may be set by a     *)
(* command-line flag; Load returns the flag's value if the flag was given, *)
(* else the file's value if the file sets it, else the default.  A file    *)
(* written over an earlier file replaces it completely.                    *)
(***************************************************************************)
EXTENDS Integers, Sequences, FiniteSets, TLC
Kinds == {"string", "bool", "uint", "int", "float", "duration"}
Srcs == {"default", "file", "file2", "flag", "file+flag"}
\* which source's value Load must return
Winner(src) == CASE src = "default" -> "default" [] src = "file" -> "file" [] src = "file2" -> "file2"
                 [] src = "flag" -> "flag" [] src = "file+flag" -> "flag"
VARIABLES case
Init == case = [kind |-> "string", src |-> "default"]
Next == \E k \in Kinds, s \in Srcs : case' = [kind |-> k, src |-> s]
Spec == Init /\ [][Next]_case
FlagBeatsFile == case.src = "file+flag" => Winner(case.src) = "flag"
=======================================================================
