package drivers

import (
	"bytes"
	"context"
	"fmt"
	"net"
	"strconv"
	"time"

	logging "github.com/ipfs/go-log/v2"

	coreda "github.com/evstack/ev-node/core/da"
	proxy "github.com/evstack/ev-node/da/jsonrpc"
	"github.com/evstack/ev-node/types"

	"verif/harness/world"
)

var codeNames = map[coreda.StatusCode]string{
	coreda.StatusUnknown: "Unknown", coreda.StatusSuccess: "Success", coreda.StatusNotFound: "NotFound",
	coreda.StatusNotIncludedInBlock: "NotIncludedInBlock", coreda.StatusAlreadyInMempool: "AlreadyInMempool",
	coreda.StatusTooBig: "TooBig", coreda.StatusContextDeadline: "ContextDeadline", coreda.StatusError: "Error",
	coreda.StatusIncorrectAccountSequence: "IncorrectAccountSequence", coreda.StatusContextCanceled: "ContextCanceled",
	coreda.StatusHeightFromFuture: "HeightFromFuture",
}

// limitedDA applies, for the in-process path, the same size rule the JSON-RPC client applies on its
// side (longest prefix within the limit; nothing if the first blob alone is too big), so that the two
// paths are the same DA layer as far as the node is concerned.
type limitedDA struct {
	coreda.DA
	limit int
}

func (l limitedDA) SubmitWithOptions(ctx context.Context, blobs []coreda.Blob, gp float64, ns []byte, opt []byte) ([]coreda.ID, error) {
	var fit []coreda.Blob
	size := 0
	for _, b := range blobs {
		if len(b) > l.limit || size+len(b) > l.limit {
			break // the longest prefix that fits ends here (C16); an empty prefix is "too big" below
		}
		size += len(b)
		fit = append(fit, b)
	}
	if len(fit) == 0 && len(blobs) > 0 {
		return nil, coreda.ErrBlobSizeOverLimit
	}
	if len(fit) == 0 {
		return []coreda.ID{}, nil
	}
	return l.DA.SubmitWithOptions(ctx, fit, gp, ns, opt)
}

// RunProxy runs every case of DAProxy.tla twice: against the DA double directly and against the same
// double behind the real jsonrpc.Server reached through the real jsonrpc.Client (loopback TCP).
func RunProxy(c *Ctx) error {
	c.Tr.Reset("proxy", world.F{"driver": "proxy", "ih": 1})
	logger := logging.Logger("verif-proxy")
	da := world.NewDADouble(c.Tr)
	ln, err := net.Listen("tcp", "127.0.0.1:0")
	if err != nil {
		return err
	}
	port := ln.Addr().(*net.TCPAddr).Port
	ln.Close()
	srv := proxy.NewServer(logger, "127.0.0.1", strconv.Itoa(port), da)
	if err := srv.Start(context.Background()); err != nil {
		return err
	}
	defer srv.Stop(context.Background())
	var cl *proxy.Client
	for i := 0; i < 50; i++ {
		cl, err = proxy.NewClient(context.Background(), logger, fmt.Sprintf("http://127.0.0.1:%d", port), "", "")
		if err == nil {
			break
		}
		time.Sleep(20 * time.Millisecond)
	}
	if err != nil {
		return err
	}
	defer cl.Close()
	const limit = 100
	cl.DA.MaxBlobSize = limit
	direct := limitedDA{DA: da, limit: limit}
	paths := []struct {
		name string
		da   coreda.DA
	}{{"direct", direct}, {"proxy", &cl.DA}}

	faults := []string{"none", "prefix1", "timeout", "mempool", "toobig", "seqnum", "deadline", "err", "cancel", "acklost"}
	seq := 0
	for n := 0; n <= 4; n++ {
		for fit := 0; fit <= n; fit++ {
			for _, fault := range faults {
				for variant := 0; variant < 4; variant++ {
					// variants also vary how the backing DA dresses its error value (bare / context in front / detail behind / both)
					da.ErrWrap = []string{"", "back", "front", "both"}[variant]
					// n blobs of which exactly the first `fit` fit the limit (variant: the blob after the prefix
					// overflows the sum / is itself larger than the limit when fit = 0)
					var blobs [][]byte
					size := 0
					for i := 0; i < n; i++ {
						seq++
						var b []byte
						switch {
						case i < fit:
							b = make([]byte, limit/(n+1))
						case i == fit && fit == 0:
							b = make([]byte, limit+1+variant%2) // a single blob over the limit
						case i == fit && variant >= 2:
							b = make([]byte, limit+1+variant%2) // a blob that is itself larger than the limit, behind blobs that fit
						case i == fit:
							b = make([]byte, limit-size+1) // overflows the sum
						default:
							b = make([]byte, 3)
						}
						copy(b, fmt.Sprintf("%04d", seq))
						size += len(b)
						blobs = append(blobs, b)
					}
					for _, p := range paths {
						da.SubmitScript = nil
						if fault != "none" && n > 0 && fit > 0 {
							da.SubmitScript = []string{fault}
							if fault == "prefix1" {
								da.SubmitScript = []string{"prefix:1"}
							}
						}
						before := len(da.Accepted)
						s0 := da.Submits
						res := types.SubmitWithHelpers(context.Background(), p.da, logger, blobs, 1.0, nil)
						sent := 0
						if da.Submits > s0 {
							sent = da.LastOffered
						}
						_ = before
						c.Tr.Emit("PCall", world.F{"op": "submit", "via": p.name, "nb": n, "fit": fit, "fault": fault, "code": codeNames[res.Code],
							"count": int(res.SubmittedCount), "nblobs": 0, "sent": sent, "blobsok": true})
					}
				}
			}
		}
	}
	da.ErrWrap = ""
	// a backing DA layer that takes longer to answer than any transport deadline one would think of (but less than the
	// node allows a submission): the answer crosses the wire unchanged
	slow := []string{"none"}
	if c.Thorough() {
		slow = []string{"none", "timeout", "mempool"}
	}
	for _, fault := range slow {
		seq++
		blobs := [][]byte{[]byte(fmt.Sprintf("%04d-slow", seq)), []byte("second")}
		for _, p := range paths {
			da.SubmitScript = nil
			if fault != "none" {
				da.SubmitScript = []string{fault}
			}
			if p.name == "proxy" {
				da.SubmitDelay = 10500 * time.Millisecond
			}
			s0 := da.Submits
			ctx, cancel := context.WithTimeout(context.Background(), 50*time.Second)
			res := types.SubmitWithHelpers(ctx, p.da, logger, blobs, 1.0, nil)
			cancel()
			sent := 0
			if da.Submits > s0 {
				sent = da.LastOffered
			}
			c.Tr.Emit("PCall", world.F{"op": "submit", "via": p.name, "nb": 2, "fit": 2, "fault": fault, "code": codeNames[res.Code],
				"count": int(res.SubmittedCount), "nblobs": 0, "sent": sent, "blobsok": true, "slow": p.name == "proxy"})
		}
	}
	// batches whose size is at and near the client's DEFAULT limit (what crosses the wire is larger than the raw
	// blobs): the same answer through the proxy as in-process
	{
		cl2, err2 := proxy.NewClient(context.Background(), logger, fmt.Sprintf("http://127.0.0.1:%d", port), "", "")
		if err2 == nil {
			L := int(cl2.DA.MaxBlobSize)
			direct2 := limitedDA{DA: da, limit: L}
			paths2 := []struct {
				name string
				da   coreda.DA
			}{{"direct", direct2}, {"proxy", &cl2.DA}}
			type big struct {
				sizes []int
				fit   int
			}
			for _, bc := range []big{{[]int{L}, 1}, {[]int{L - 1}, 1}, {[]int{L*3/4 + 4096}, 1}, {[]int{L / 2}, 1}, {[]int{L / 2, L/2 - 16, 100}, 2}, {[]int{L / 3, L / 3, L / 3, 64}, 3}, {[]int{L + 1}, 0}} {
				var blobs [][]byte
				for _, sz := range bc.sizes {
					seq++
					b := make([]byte, sz)
					copy(b, fmt.Sprintf("%04d", seq))
					blobs = append(blobs, b)
				}
				for _, p := range paths2 {
					da.SubmitScript = nil
					s0 := da.Submits
					res := types.SubmitWithHelpers(context.Background(), p.da, logger, blobs, 1.0, nil)
					sent := 0
					if da.Submits > s0 {
						sent = da.LastOffered
					}
					c.Tr.Emit("PCall", world.F{"op": "submit", "via": p.name, "nb": len(blobs), "fit": bc.fit, "fault": "none", "code": codeNames[res.Code],
						"count": int(res.SubmittedCount), "nblobs": 0, "sent": sent, "blobsok": true})
				}
			}
			cl2.Close()
		}
	}
	// retrieval: populated, empty and future heights, listing / chunk failures
	stored := map[uint64][][]byte{}
	for h := uint64(1050); h < 1054; h++ {
		k := int(h-1050) * 60 // 0, 60, 120, 180 blobs: more than one id chunk
		for i := 0; i < k; i++ {
			b := []byte(fmt.Sprintf("blob-%d-%d", h, i))
			da.Place(h, b)
			stored[h] = append(stored[h], b)
		}
	}
	// heights that hold the same blob more than once, under content-addressed ids (the id is listed once per copy)
	da.ContentIDs = true
	for h, idx := range map[uint64][]int{1054: {0, 1, 0}, 1055: {0, 0}, 1056: {0, 1, 2, 1, 0, 3}} {
		for _, i := range idx {
			b := []byte(fmt.Sprintf("dup-%d-%d", h, i))
			da.Place(h, b)
			stored[h] = append(stored[h], b)
		}
	}
	da.ContentIDs = false
	da.SetCurrent(1056)
	type fcase struct {
		h      uint64
		fault  string
		script string
	}
	fcases := []fcase{{1050, "notfound", ""}, {1999, "future", ""}, {1051, "ok", ""}, {1052, "ok", ""}, {1053, "ok", ""}, {1054, "ok", ""}, {1055, "ok", ""}, {1056, "ok", ""},
		{1051, "errlist", "errlist"}, {1053, "errlist", "errlist"}, {1051, "errchunk", "errchunk:0"}, {1052, "errchunk", "errchunk:1"}, {1053, "errchunk", "errchunk:0"}}
	for _, fc := range fcases {
		for _, p := range paths {
			if fc.script != "" {
				da.FetchScript[fc.h] = []string{fc.script}
			}
			res := types.RetrieveWithHelpers(context.Background(), p.da, logger, fc.h, []byte(world.ChainID))
			ok := len(res.Data) == len(stored[fc.h])
			for i := range res.Data {
				if ok && !bytes.Equal(res.Data[i], stored[fc.h][i]) {
					ok = false
				}
			}
			if res.Code != coreda.StatusSuccess {
				ok = len(res.Data) == 0
			}
			c.Tr.Emit("PCall", world.F{"op": "fetch", "via": p.name, "nb": 0, "fit": 0, "fault": fc.fault, "code": codeNames[res.Code],
				"count": 0, "nblobs": len(res.Data), "sent": 0, "blobsok": ok})
		}
	}
	// Get with an id list chosen by the caller (repeats, any order): one blob per requested id, in the order asked
	if idr, err := da.GetIDs(context.Background(), 1051, []byte(world.ChainID)); err == nil && len(idr.IDs) >= 3 {
		for _, pick := range [][]int{{0}, {0, 1, 2}, {2, 0, 1}, {0, 1, 0}, {1, 1}, {2, 2, 2, 0}} {
			var ids [][]byte
			var want [][]byte
			for _, i := range pick {
				ids = append(ids, idr.IDs[i])
				want = append(want, stored[1051][i])
			}
			for _, p := range paths {
				got, err := p.da.Get(context.Background(), ids, []byte(world.ChainID))
				code := "Success"
				if err != nil {
					code = "Error"
				}
				ok := len(got) == len(want)
				for i := range got {
					if ok && !bytes.Equal(got[i], want[i]) {
						ok = false
					}
				}
				c.Tr.Emit("PCall", world.F{"op": "get", "via": p.name, "nb": len(ids), "fit": 0, "fault": "ok", "code": code,
					"count": 0, "nblobs": len(got), "sent": 0, "blobsok": ok})
			}
		}
	}
	c.Count("proxycases", seq)
	return nil
}
