---------------------------- MODULE QueueStrict ----------------------------
(***************************************************************************)
(* Step-level trace validation of the tier-I module BatchQueue against the *)
(* real single.Sequencer on the crash-injecting datastore.  Every record   *)
(* is consumed by one step which is an action of BatchQueue.tla with its   *)
(* parameters bound to the logged fields; batch contents are identified by *)
(* the content hash that is part of the real database key (the driver logs *)
(* the same hash with every call it makes).                                *)
(*                                                                         *)
(*   KV queue put (key = seq-hash)   SubmitPut(s, hash)   seq = model seq  *)
(*   (no record)                     SubmitAck(s)   silent, unless a Crash *)
(*   QSubmit ok / full               name bound / rejected only when full  *)
(*   (no record)                     NextPop        silent, before the del *)
(*   KV queue del                    NextDel        key = popped key       *)
(*   KVFail queue del / put          NextDelRefused / SubmitPutRefused      *)
(*   QNext c                         c is what the model handed out last   *)
(*   QRestart                        Load (after a silent Stop when up)    *)
(*   Crash                           Crash                                 *)
(***************************************************************************)
EXTENDS BatchQueue, TraceLib

VARIABLES l, run, drifted, nhand, drift
xvars == <<l, run, drifted, nhand, drift>>
svars == <<vars, xvars>>

e == Trace[l]
Is(name) == l <= N /\ ~drifted /\ e.ev = name
Adv == l' = l + 1 /\ UNCHANGED <<run, drifted, drift>>
Same == UNCHANGED vars

BoundOf(b) == IF b = 0 THEN 1000000 ELSE b

SInit == Init /\ l = 1 /\ run = "" /\ drifted = FALSE /\ nhand = 0 /\ drift = <<>>

SReset ==
    /\ l <= N /\ e.ev = "Reset"
    /\ l' = l + 1 /\ run' = e.run /\ drifted' = (BoundOf(e.bound) # Bound) /\ nhand' = 0 /\ drift' = drift
    /\ accepted' = <<>> /\ handed' = <<>> /\ mem' = <<>> /\ db' = <<>> /\ seq' = 0
    /\ pcS' = [s \in Sub |-> [st |-> "idle"]] /\ pcN' = [st |-> "idle"] /\ up' = FALSE /\ ops' = 0 /\ crashes' = 0 /\ fails' = 0

SRestart ==
    /\ Is("QRestart") /\ e.ok /\ Adv /\ UNCHANGED nhand
    /\ Load

SKV ==
    /\ Is("KV") /\ e.kind = "queue" /\ Adv /\ UNCHANGED nhand
    /\ \/ /\ e.op = "put" /\ e.h = seq
          /\ Len(mem) < Bound
          /\ SubmitPut(1, e.key)
       \/ /\ e.op = "del" /\ pcN.st = "del" /\ e.h = pcN.key /\ e.key = pcN.c
          /\ NextDel

\* a refused write: the record that could not be written / deleted is logged with the same fields as a write that lands
SKVFail ==
    /\ Is("KVFail") /\ e.kind = "queue" /\ Adv /\ UNCHANGED nhand
    /\ \/ /\ e.op = "put" /\ e.h = seq /\ pcS[1].st = "idle" /\ pcN.st = "idle"
          /\ SubmitPutRefused(1, e.key)
       \/ /\ e.op = "del" /\ pcN.st = "del" /\ e.h = pcN.key /\ e.key = pcN.c
          /\ NextDelRefused

\* the in-memory halves of submit and next leave no record
SSilent ==
    /\ l <= N /\ ~drifted /\ UNCHANGED xvars
    /\ \/ /\ pcS[1].st = "put" /\ e.ev # "Crash"
          /\ SubmitAck(1)
       \/ /\ pcS[1].st = "idle" /\ pcN.st = "idle" /\ e.ev \in {"KV", "KVFail"} /\ e.kind = "queue" /\ e.op = "del"
          /\ NextPop
       \/ /\ up /\ pcS[1].st = "idle" /\ e.ev = "QRestart"      \* a restart of a running sequencer: stop, then load
          /\ Stop

SSubmit ==
    /\ Is("QSubmit") /\ Adv /\ UNCHANGED nhand /\ Same
    /\ pcS[1].st = "idle"
    /\ CASE e.res = "ok" -> \E i \in 1 .. Len(accepted) : accepted[i] = e.k
         [] e.res = "full" -> Len(mem) >= Bound
         [] e.res \in {"crash", "empty", "badid"} -> TRUE
         [] e.res = "err" -> "wf" \in DOMAIN e /\ e.wf          \* only a refused write makes a submission fail
         [] OTHER -> FALSE

SNext ==
    /\ Is("QNext") /\ Adv /\ Same
    /\ pcN.st = "idle" /\ pcS[1].st = "idle"
    /\ CASE e.res = "ok" /\ e.c = "" -> mem = <<>> /\ Len(handed) = nhand /\ UNCHANGED nhand
         [] e.res = "ok" /\ e.c # "" -> /\ Len(handed) = nhand + 1
                                       /\ handed[Len(handed)] = e.k
                                       /\ nhand' = nhand + 1
         [] e.res = "crash" -> nhand' = Len(handed)
         [] e.res = "err" -> "wf" \in DOMAIN e /\ e.wf /\ Len(handed) = nhand /\ UNCHANGED nhand   \* nothing handed out
         [] OTHER -> FALSE

SCrash == Is("Crash") /\ Adv /\ nhand' = Len(handed) /\ (IF up THEN Crash ELSE Same)

SOther == l <= N /\ ~drifted /\ e.ev \in {"QDrain", "QEnd"} /\ Adv /\ UNCHANGED nhand /\ Same

Strict == SRestart \/ SKV \/ SKVFail \/ SSilent \/ SSubmit \/ SNext \/ SCrash \/ SOther

SDrift ==
    /\ l <= N /\ ~drifted /\ e.ev # "Reset" /\ ~ENABLED Strict
    /\ drifted' = TRUE /\ l' = l + 1 /\ UNCHANGED <<run, nhand>>
    /\ drift' = Append(drift, [l |-> l, run |-> run, ev |-> e.ev, pc |-> pcS[1].st \o "/" \o pcN.st, height |-> Len(mem)])
    /\ Same
SSkip == l <= N /\ drifted /\ e.ev # "Reset" /\ l' = l + 1 /\ UNCHANGED <<run, drifted, nhand, drift>> /\ Same

StrictNext == SReset \/ Strict \/ SDrift \/ SSkip
SSpec == SInit /\ [][StrictNext]_svars
Finish == (l = N + 1) => ndJsonSerialize("drift.ndjson", drift)
Consumed == TLCGet("stats").diameter >= N + 1
=============================================================================
