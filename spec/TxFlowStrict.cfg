SPECIFICATION SSpec
CONSTANTS
  Txs = {}
  Bound = 1
  MaxCrashes = 100000000
  PopBeforeSave = TRUE
  ReInject = TRUE
  WriteFails = TRUE
INVARIANT Finish
POSTCONDITION Consumed
CHECK_DEADLOCK FALSE
