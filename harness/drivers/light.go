package drivers

import (
	"fmt"
	mrand "math/rand"

	goheader "github.com/celestiaorg/go-header"

	"github.com/evstack/ev-node/types"

	"verif/harness/world"
)

// lightOffer runs one received header through exactly the calls go-header makes for a header
// arriving over P2P on a header-only (light) node: decode, Validate(), header.Verify(trusted, h),
// then Store.Append. The store is what the node serves to light clients.
func lightOffer(c *Ctx, w *world.World, store *[]*types.SignedHeader, class string, bz []byte) {
	defer func() { // a panic in the node's own decode / validate / verify code is an observation, not a harness failure
		if p := recover(); p != nil {
			c.Tr.Emit("LightOffer", world.F{"node": "light", "class": class, "res": "panic", "sig": "none", "h": 0, "hash": ""})
		}
	}()
	// what is offered may BE the proposer's header although it was built as junk (a damaged copy whose damage the
	// encoding does not carry, e.g. an absent all-zero sub-message): it is then labelled for what it is; and a
	// header the store already holds is a repetition, which go-header does not admit twice
	if cl := w.ClassifyBlob(bz); cl["kind"] == "hdr" && cl["sig"] == "P" {
		class = "genuine"
		last := (*store)[len(*store)-1]
		if uint64(cl["h"].(int)) <= last.Height() {
			class = "genuine-dup"
		}
	}
	h := new(types.SignedHeader)
	res := "admitted"
	if err := h.UnmarshalBinary(bz); err != nil {
		res = "decode"
	} else if err := h.Validate(); err != nil {
		res = "validate"
	} else {
		trusted := (*store)[len(*store)-1]
		if err := goheader.Verify(trusted, h); err != nil {
			res = "verify"
		}
	}
	sig, hh, hash := "none", 0, ""
	if res != "decode" {
		sig = w.SigClass(h, h.Signature)
		hh = int(h.Height())
		hash = h.Hash().String()
		if len(hash) > 10 {
			hash = hash[:10]
		}
	}
	if res == "admitted" {
		*store = append(*store, h)
	}
	c.Tr.Emit("LightOffer", world.F{"node": "light", "class": class, "res": res, "sig": sig, "h": hh, "hash": hash})
}

// RunLight offers, for every height of a chain, every adversarial header class (hash-linked to
// the light node's current head) before and after the genuine header of that height.
func RunLight(c *Ctx) {
	rng := mrand.New(mrand.NewSource(c.Seed + 5))
	for _, shapeName := range []string{"ShapeA", "ShapeBig"} {
		for order := 0; order < 3; order++ {
			func() {
				s := newSyncRun(c, fmt.Sprintf("light/%s/o%d", shapeName, order), 1, SyncShapes[shapeName], world.F{"src": "light", "shape": shapeName})
				defer s.w.Close()
				store := []*types.SignedHeader{s.headerOf(s.ih)} // trusted genesis header
				c.Tr.Emit("LightInit", world.F{"node": "light", "h": int(s.ih)})
				for h := s.ih + 1; h <= s.top; h++ {
					classes := []string{"A1same", "A1alt", "A1time", "A3", "A3g", "A4", "A4ns", "A5", "A5own", "A6"}
					rng.Shuffle(len(classes), func(i, j int) { classes[i], classes[j] = classes[j], classes[i] })
					offerAdv := func() {
						for _, cl := range classes {
							var bz []byte
							if cl == "A6" {
								g, _ := s.headerOf(h).MarshalBinary()
								bz = junk(rng, g)
							} else {
								bz, _ = s.forgeHeader(cl, h).MarshalBinary()
							}
							lightOffer(c, s.w, &store, cl, bz)
						}
					}
					genuine, _ := s.headerOf(h).MarshalBinary()
					switch order {
					case 0:
						offerAdv()
						lightOffer(c, s.w, &store, "genuine", genuine)
					case 1:
						lightOffer(c, s.w, &store, "genuine", genuine)
						offerAdv()
					default:
						offerAdv()
						lightOffer(c, s.w, &store, "genuine", genuine)
						offerAdv()
					}
				}
				c.Tr.Emit("LightEnd", world.F{"node": "light", "stored": len(store), "top": int(s.top)})
				c.Count("lightruns", 1)
			}()
		}
	}
}
