#!/bin/bash
# usage: tools/try_mutant.sh <seeded-dir-name> <check-id> [<check-id> ...]
# Applies /verif/seeded/<name>/patch.diff to /repo, runs the given checks (quick tier), and restores /repo.
# Never leaves the change applied; never commits.
set -u
name=$1; shift
p=/verif/seeded/$name/patch.diff
cd /repo || exit 2
if [ -n "$(git status --porcelain)" ]; then echo "repo not clean"; exit 2; fi
if ! git apply "$p" 2>/dev/null; then
  git apply -3 "$p" >/dev/null 2>&1 || { echo "patch does not apply"; git reset -q --hard HEAD; exit 2; }
  git reset -q
fi
trap 'git -C /repo checkout -q -- . ; git -C /repo clean -fdq' EXIT
for c in "$@"; do
  out=$(cd /verif && VERIF_SEED=${VERIF_SEED:-1} ./check $c 2>&1); rc=$?
  echo "== $name under $c: exit $rc"
  echo "$out" | grep -E "^VIOLATION|KNOWN-FINDING|INCONCLUSIVE|invariant" | cut -c1-260 | head -12
done
