---- MODULE TxFlow_TTrace_1790369352 ----
EXTENDS TxFlow, Sequences, TLCExt, Toolbox, Naturals, TLC

_expression ==
    LET TxFlow_TEExpression == INSTANCE TxFlow_TEExpression
    IN TxFlow_TEExpression!expression
----

_trace ==
    LET TxFlow_TETrace == INSTANCE TxFlow_TETrace
    IN TxFlow_TETrace!trace
----

_inv ==
    ~(
        TLCGet("level") = Len(_TETrace)
        /\
        cur = ({})
        /\
        chain = (<<>>)
        /\
        mempool = ({"b"})
        /\
        injected = ({"b"})
        /\
        excused = ({"b"})
        /\
        cand = ({})
        /\
        crashes = (1)
        /\
        pcP = ("idle")
        /\
        pcR = ("idle")
        /\
        queue = (<<>>)
        /\
        seen = ({"b"})
        /\
        pend = ({})
    )
----

_init ==
    /\ cand = _TETrace[1].cand
    /\ injected = _TETrace[1].injected
    /\ cur = _TETrace[1].cur
    /\ pcP = _TETrace[1].pcP
    /\ pcR = _TETrace[1].pcR
    /\ pend = _TETrace[1].pend
    /\ chain = _TETrace[1].chain
    /\ queue = _TETrace[1].queue
    /\ mempool = _TETrace[1].mempool
    /\ crashes = _TETrace[1].crashes
    /\ excused = _TETrace[1].excused
    /\ seen = _TETrace[1].seen
----

_next ==
    /\ \E i,j \in DOMAIN _TETrace:
        /\ \/ /\ j = i + 1
              /\ i = TLCGet("level")
        /\ cand  = _TETrace[i].cand
        /\ cand' = _TETrace[j].cand
        /\ injected  = _TETrace[i].injected
        /\ injected' = _TETrace[j].injected
        /\ cur  = _TETrace[i].cur
        /\ cur' = _TETrace[j].cur
        /\ pcP  = _TETrace[i].pcP
        /\ pcP' = _TETrace[j].pcP
        /\ pcR  = _TETrace[i].pcR
        /\ pcR' = _TETrace[j].pcR
        /\ pend  = _TETrace[i].pend
        /\ pend' = _TETrace[j].pend
        /\ chain  = _TETrace[i].chain
        /\ chain' = _TETrace[j].chain
        /\ queue  = _TETrace[i].queue
        /\ queue' = _TETrace[j].queue
        /\ mempool  = _TETrace[i].mempool
        /\ mempool' = _TETrace[j].mempool
        /\ crashes  = _TETrace[i].crashes
        /\ crashes' = _TETrace[j].crashes
        /\ excused  = _TETrace[i].excused
        /\ excused' = _TETrace[j].excused
        /\ seen  = _TETrace[i].seen
        /\ seen' = _TETrace[j].seen

\* Uncomment the ASSUME below to write the states of the error trace
\* to the given file in Json format. Note that you can pass any tuple
\* to `JsonSerialize`. For example, a sub-sequence of _TETrace.
    \* ASSUME
    \*     LET J == INSTANCE Json
    \*         IN J!JsonSerialize("TxFlow_TTrace_1790369352.json", _TETrace)

=============================================================================

 Note that you can extract this module `TxFlow_TEExpression`
  to a dedicated file to reuse `expression` (the module in the 
  dedicated `TxFlow_TEExpression.tla` file takes precedence 
  over the module `TxFlow_TEExpression` below).

---- MODULE TxFlow_TEExpression ----
EXTENDS TxFlow, Sequences, TLCExt, Toolbox, Naturals, TLC

expression == 
    [
        \* To hide variables of the `TxFlow` spec from the error trace,
        \* remove the variables below.  The trace will be written in the order
        \* of the fields of this record.
        cand |-> cand
        ,injected |-> injected
        ,cur |-> cur
        ,pcP |-> pcP
        ,pcR |-> pcR
        ,pend |-> pend
        ,chain |-> chain
        ,queue |-> queue
        ,mempool |-> mempool
        ,crashes |-> crashes
        ,excused |-> excused
        ,seen |-> seen
        
        \* Put additional constant-, state-, and action-level expressions here:
        \* ,_stateNumber |-> _TEPosition
        \* ,_candUnchanged |-> cand = cand'
        
        \* Format the `cand` variable as Json value.
        \* ,_candJson |->
        \*     LET J == INSTANCE Json
        \*     IN J!ToJson(cand)
        
        \* Lastly, you may build expressions over arbitrary sets of states by
        \* leveraging the _TETrace operator.  For example, this is how to
        \* count the number of times a spec variable changed up to the current
        \* state in the trace.
        \* ,_candModCount |->
        \*     LET F[s \in DOMAIN _TETrace] ==
        \*         IF s = 1 THEN 0
        \*         ELSE IF _TETrace[s].cand # _TETrace[s-1].cand
        \*             THEN 1 + F[s-1] ELSE F[s-1]
        \*     IN F[_TEPosition - 1]
    ]

=============================================================================



Parsing and semantic processing can take forever if the trace below is long.
 In this case, it is advised to uncomment the module below to deserialize the
 trace from a generated binary file.

\*
\*---- MODULE TxFlow_TETrace ----
\*EXTENDS TxFlow, IOUtils, TLC
\*
\*trace == IODeserialize("TxFlow_TTrace_1790369352.bin", TRUE)
\*
\*=============================================================================
\*

---- MODULE TxFlow_TETrace ----
EXTENDS TxFlow, TLC

trace == 
    <<
    ([cur |-> {},chain |-> <<>>,mempool |-> {},injected |-> {},excused |-> {},cand |-> {},crashes |-> 0,pcP |-> "idle",pcR |-> "idle",queue |-> <<>>,seen |-> {},pend |-> {}]),
    ([cur |-> {},chain |-> <<>>,mempool |-> {"b"},injected |-> {"b"},excused |-> {},cand |-> {},crashes |-> 0,pcP |-> "idle",pcR |-> "idle",queue |-> <<>>,seen |-> {},pend |-> {}]),
    ([cur |-> {},chain |-> <<>>,mempool |-> {"b"},injected |-> {"b"},excused |-> {},cand |-> {"b"},crashes |-> 0,pcP |-> "idle",pcR |-> "handed",queue |-> <<{"b"}>>,seen |-> {},pend |-> {}]),
    ([cur |-> {},chain |-> <<>>,mempool |-> {"b"},injected |-> {"b"},excused |-> {},cand |-> {},crashes |-> 0,pcP |-> "idle",pcR |-> "idle",queue |-> <<{"b"}>>,seen |-> {"b"},pend |-> {}]),
    ([cur |-> {"b"},chain |-> <<>>,mempool |-> {"b"},injected |-> {"b"},excused |-> {},cand |-> {},crashes |-> 0,pcP |-> "took",pcR |-> "idle",queue |-> <<>>,seen |-> {"b"},pend |-> {}]),
    ([cur |-> {},chain |-> <<>>,mempool |-> {"b"},injected |-> {"b"},excused |-> {"b"},cand |-> {},crashes |-> 1,pcP |-> "idle",pcR |-> "idle",queue |-> <<>>,seen |-> {"b"},pend |-> {}])
    >>
----


=============================================================================

---- CONFIG TxFlow_TTrace_1790369352 ----
CONSTANTS
    Txs = { "a" , "b" , "c" }
    Bound = 1
    MaxCrashes = 2
    PopBeforeSave = TRUE

INVARIANT
    _inv

CHECK_DEADLOCK
    \* CHECK_DEADLOCK off because of PROPERTY or INVARIANT above.
    FALSE

INIT
    _init

NEXT
    _next

CONSTANT
    _TETrace <- _trace

ALIAS
    _expression
=============================================================================
\* Generated on Fri Sep 25 20:49:13 UTC 2026