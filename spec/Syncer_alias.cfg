SPECIFICATION Spec
CONSTANTS
  IH = 1
  Shape <- ShapeDup
  MaxDup = 1
  MaxCrashes = 1
  MaxRestarts = 1
  Alias = TRUE
  BlockFirst = TRUE
  ApplyAtStart = TRUE
  Mix = TRUE
  WriteFails = FALSE
  EvictEarly = FALSE
  Rec = FALSE
INVARIANTS AppliedInOrder NoReexecWithoutCrash BlocksPresent StateMatches QuiescentConverged AppliedWhatArrived
PROPERTIES HeightMonotone
VIEW View
CHECK_DEADLOCK FALSE
